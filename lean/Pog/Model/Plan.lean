import Pog.Model.Basic
import Pog.Model.Registry
import Pog.Model.Diff
/-
  Model of WHERE `ClientGenerator.generate` (generator/client_generator.py:86-535) reads, writes
  and removes, for both of its paths:

    * `if not force and out_dir.exists():`  — everything is emitted under a fresh
      `tempfile.TemporaryDirectory()`, compared with `_show_diffs`, and thrown away;
      NOTHING is copied back, neither on "no differences" nor on "differences found";
    * `else:` — `shutil.rmtree(out_dir)`, the two `__init__.py` while-loops, the emitters writing
      straight into the project, the second evaluations of `core_emitter.emit` / `endpoints_emitter.emit`
      inside the f-string log lines (lines 401 and 435), the "rich" `__init__.py` (lines 456-511).

  Paths are resolved absolute paths as component lists (`Pog.Path`, `[]` = `/`).  The TEXT each
  emitter produces is a parameter (`PlanSpec`); the model fixes which file receives which text, in
  which order, through which primitive (`os.makedirs`, `open(..,"w")`, `open(..,"a")`, `os.rename`,
  `shutil.rmtree`), and under which `exists()` guard.

  Emitters modelled (file system effects only):
    ExceptionsEmitter.emit   emitters/exceptions_emitter.py:29-79  (`exception_aliases.py`, registry iff `_is_shared_core`)
    CoreEmitter.emit         emitters/core_emitter.py:46-181       (target = `os.path.join(out, os.path.relpath(core, out))`)
    ModelsEmitter.emit       emitters/models_emitter.py:209-217, 120-128, 479-482  (`<stem>.tmp` + rename)
    EndpointsEmitter.emit    emitters/endpoints_emitter.py:132-247
    ClientEmitter.emit       emitters/client_emitter.py:24-51
    MocksEmitter.emit        emitters/mocks_emitter.py:29-105
    FileManager.write_file   context/file_manager.py:20-43  (makedirs parent, APPEND to `$TMPDIR/pyopenapi_gen_file_write_debug.log`, write)

  Trusted: the kernel resolves `a/b/../c` like `os.path.normpath` (no symlinks inside the project);
  `tempfile.mkdtemp` returns a directory that did not exist; the post-processing tools rewrite only the
  files they are given (their own caches are not modelled).
-/
namespace Pog.Plan
open Pog Pog.Diff

/-! ## paths -/

def pDot : Str := ['.']
def pDotDot : Str := ['.', '.']

/-- `project_root.joinpath(*pkg.split("."))`: pathlib drops empty components. -/
def pkgToPath (root : Path) (pkg : Str) : Path := root ++ (splitOnC '.' pkg).filter (fun s => !s.isEmpty)

/-- `os.path.relpath(path, start)` on absolute normalised paths. -/
def relpath (path start : Path) : Path :=
  let i := commonLen start path
  let rel := List.replicate (start.length - i) pDotDot ++ path.drop i
  if rel.isEmpty then [pDot] else rel

/-- `os.path.normpath` of an absolute path, component by component (`acc` = the result so far). -/
def normGo : Path → Path → Path
  | acc, [] => acc
  | acc, c :: cs =>
    if c = pDot ∨ c = [] then normGo acc cs
    else if c = pDotDot then normGo acc.dropLast cs
    else normGo (acc ++ [c]) cs

def normalise (p : Path) : Path := normGo [] p

/-- no `.`/`..`/empty component: what `Path.resolve()` returns -/
def cleanPath (p : Path) : Bool := p.all (fun c => c != pDot && c != pDotDot && !c.isEmpty)

/-- The directory `CoreEmitter.emit(out)` writes into when constructed with
    `core_dir=os.path.relpath(core, out)`:  `os.path.join(out, relpath)` as the kernel resolves it. -/
def coreTarget (out core : Path) : Path := normalise (out ++ relpath core out)

/-- `str(path)` of an absolute `pathlib.Path`. -/
def pathStr (p : Path) : Str :=
  match p with
  | [] => ['/']
  | _ => p.flatMap (fun c => '/' :: c)

/-- `str(core_dir).startswith(str(out_dir))` — a test on the STRINGS. -/
def strPrefixTest (core out : Path) : Bool := startsWith (pathStr core) (pathStr out)

/-- The directories visited by
    `current = d; while current != root: …; if current.parent == current: break; current = current.parent`. -/
def upChain (root : Path) : Nat → Path → List Path
  | 0, _ => []
  | n + 1, cur =>
    if cur = root then [] else cur :: (if cur.isEmpty then [] else upChain root n cur.dropLast)

/-- all prefixes of a path, shortest first: the directories `os.makedirs` walks through -/
def pathPrefixes : Path → List Path
  | [] => [[]]
  | c :: cs => [] :: (pathPrefixes cs).map (c :: ·)

def ancestorsTo (root d : Path) : List Path := upChain root (d.length + 1) d

/-! ## file system -/

structure FS where
  files : List (Path × Str)
  dirs : List Path
  deriving DecidableEq, Repr

def FS.isDir (fs : FS) (p : Path) : Bool := fs.dirs.contains p
def FS.isFile (fs : FS) (p : Path) : Bool := (fs.files.lookup p).isSome
def FS.pathExists (fs : FS) (p : Path) : Bool := fs.isDir p || fs.isFile p

def setFile (p : Path) (c : Str) : List (Path × Str) → List (Path × Str)
  | [] => [(p, c)]
  | (q, d) :: rest => if q = p then (q, c) :: rest else (q, d) :: setFile p c rest

/-- everything at or below `root` -/
def FS.under (fs : FS) (root : Path) : FS :=
  ⟨fs.files.filter (fun e => root.isPrefixOf e.1), fs.dirs.filter (fun d => root.isPrefixOf d)⟩

/-- the files below `dir` with paths relative to it (input of `_show_diffs`) -/
def FS.subtree (fs : FS) (dir : Path) : Tree :=
  (fs.files.filter (fun e => dir.isPrefixOf e.1)).map (fun e => (e.1.drop dir.length, e.2))

/-- primitive effects -/
inductive Act where
  /-- `os.makedirs(p, exist_ok=True)` / `Path.mkdir(parents=True, exist_ok=True)` -/
  | mkdirs (p : Path)
  /-- `open(p, "w").write(c)` / `Path.write_text(c)` -/
  | write (p : Path) (c : Str)
  /-- `open(p, "a").write(c)` -/
  | append (p : Path) (c : Str)
  /-- `os.rename(src, dst)` -/
  | rename (src dst : Path)
  /-- `shutil.rmtree(p)` -/
  | rmtree (p : Path)
  /-- an external formatter rewrites the file in place -/
  | rewrite (p : Path)
  deriving DecidableEq, Repr

/-- the `if not p.exists():` / `if os.path.exists(p):` guards -/
inductive Guard where
  | always
  | ifAbsent (q : Path)
  | ifPresent (q : Path)
  deriving DecidableEq, Repr

structure Op where
  guard : Guard
  act : Act
  deriving DecidableEq, Repr

/-- paths named by the primitive -/
def Act.targets : Act → List Path
  | .mkdirs p => [p]
  | .write p _ => [p]
  | .append p _ => [p]
  | .rename s d => [s, d]
  | .rmtree p => [p]
  | .rewrite p => [p]

/-- paths whose state the primitive can change (`makedirs` also creates missing ancestors) -/
def Act.touched : Act → List Path
  | .mkdirs p => pathPrefixes p
  | a => a.targets

def Guard.holds (fs : FS) : Guard → Bool
  | .always => true
  | .ifAbsent q => !fs.pathExists q
  | .ifPresent q => fs.pathExists q

/-- `none` = the primitive raises `OSError`. `post` is what the formatter does to a file's text. -/
def applyAct (post : Str → Str) (fs : FS) : Act → Option FS
  | .mkdirs p =>
    if (pathPrefixes p).any fs.isFile then none
    else some { fs with dirs := fs.dirs ++ (pathPrefixes p).filter (fun q => !fs.isDir q) }
  | .write p c =>
    if fs.isDir (parentDir p) && !fs.isDir p then some { fs with files := setFile p c fs.files } else none
  | .append p c =>
    if fs.isDir (parentDir p) && !fs.isDir p then
      some { fs with files := setFile p (((fs.files.lookup p).getD []) ++ c) fs.files }
    else none
  | .rename s d =>
    match fs.files.lookup s with
    | some c =>
      if fs.isDir (parentDir d) && !fs.isDir d then
        some { fs with files := setFile d c (fs.files.filter (fun e => e.1 != s)) }
      else none
    | none => none
  | .rmtree p =>
    if fs.isDir p then
      some ⟨fs.files.filter (fun e => !p.isPrefixOf e.1), fs.dirs.filter (fun d => !p.isPrefixOf d)⟩
    else none
  | .rewrite p =>
    match fs.files.lookup p with
    | some c => some { fs with files := setFile p (post c) fs.files }
    | none => none

def applyOp (post : Str → Str) (fs : FS) (op : Op) : Option FS :=
  if op.guard.holds fs then applyAct post fs op.act else some fs

/-- Why a run of a list of primitives stopped early. -/
inductive Stop where
  /-- the injected fault: an exception raised just before primitive number `i` -/
  | fault
  /-- a primitive raised `OSError` -/
  | oserror
  deriving DecidableEq, Repr

/-- Execute the primitives in order; an exception is injected in front of primitive `fault`
    (`fault ≥ ops.length` = no injected fault).  Nothing is rolled back. -/
def execOps (post : Str → Str) : List Op → FS → Nat → FS × Option Stop
  | [], fs, _ => (fs, none)
  | _ :: _, fs, 0 => (fs, some .fault)
  | op :: rest, fs, k + 1 =>
    match applyOp post fs op with
    | none => (fs, some .oserror)
    | some fs' => execOps post rest fs' k

/-! ## what the emitters produce -/

/-- The texts produced from one (document, options) pair.  `endpoints k` is the result of the
    `k`-th evaluation of `EndpointsEmitter.emit` on the SAME `ir.operations` (the emitter renames
    operation ids in place, so evaluations need not agree); `mocks k` is what `MocksEmitter.emit`
    produces after `k` such evaluations. -/
structure PlanSpec where
  aliases : Str
  registry : Str
  /-- `RUNTIME_FILES`: sub-directory of the core directory, file name, text -/
  runtime : List (Path × Str × Str)
  coreInit : Str
  authInit : Str
  readme : Str
  config : Str
  /-- `(final_module_stem, text)` -/
  models : List (Str × Str)
  modelsInit : Str
  endpoints : Nat → List (Str × Str)
  endpointsInit : Nat → Str
  client : Str
  mocks : Nat → List (Str × Str)
  mockEndpointsInit : Nat → Str
  mockClient : Nat → Str
  mocksInit : Nat → Str
  richInit : Str

structure PlanCfg where
  root : Path
  outputPackage : Str
  corePackage : Option Str
  force : Bool
  /-- `out_dir.exists()` at the time of the call -/
  outExists : Bool
  noPostprocess : Bool
  /-- `tempfile.gettempdir()` -/
  tmpDir : Path
  /-- the fresh name chosen by `tempfile.TemporaryDirectory()` -/
  tmpName : Str
  deriving DecidableEq, Repr

def fInit : Str := "__init__.py".toList
def fPyTyped : Str := "py.typed".toList
def fAliases : Str := "exception_aliases.py".toList
def fRegistry : Str := ".exception_registry.json".toList
def fDebugLog : Str := "pyopenapi_gen_file_write_debug.log".toList

def PlanCfg.outDir (c : PlanCfg) : Path := pkgToPath c.root c.outputPackage
/-- `resolved_core_package_fqn` -/
def PlanCfg.coreFqn (c : PlanCfg) : Str :=
  match c.corePackage with
  | none => c.outputPackage ++ ".core".toList
  | some p => p
def PlanCfg.coreDir (c : PlanCfg) : Path := pkgToPath c.root c.coreFqn
def PlanCfg.tmpRoot (c : PlanCfg) : Path := c.tmpDir ++ [c.tmpName]
def PlanCfg.tmpOut (c : PlanCfg) : Path := pkgToPath c.tmpRoot c.outputPackage
def PlanCfg.tmpCore (c : PlanCfg) : Path := pkgToPath c.tmpRoot c.coreFqn
def PlanCfg.debugLog (c : PlanCfg) : Path := c.tmpDir ++ [fDebugLog]
/-- `if not force and out_dir.exists()` -/
def PlanCfg.diffMode (c : PlanCfg) : Bool := !c.force && c.outExists

def always (a : Act) : Op := ⟨.always, a⟩

/-- the text `FileManager.write_file` appends to the debug log (the echoed first ten lines of the
    content are not modelled) -/
def logEntry (p : Path) : Str := "WRITE FILE: ".toList ++ pathStr p ++ ['\n']

/-- `FileManager.write_file(p, c)` under guard `g`. -/
def fmWrite (g : Guard) (log p : Path) (c : Str) : List Op :=
  [⟨g, .mkdirs (parentDir p)⟩, ⟨g, .append log (logEntry p)⟩, ⟨g, .write p c⟩]

/-- `ExceptionsEmitter.emit(ir, core, client_package_name=output_package)` with
    `overall_project_root = root`. -/
def excOps (sp : PlanSpec) (root core : Path) (client : Str) : List Op :=
  -- `_is_shared_core(output_dir, client_package_name)` (F22 repaired: also any core directory outside the client's package)
  (if !client.isEmpty && isSharedCoreFor (some root) core (some ((splitOnC '.' client).filter (fun s => !s.isEmpty)))
   then [always (.write (core ++ [fRegistry]) sp.registry)]
   else []) ++
  [always (.write (core ++ [fAliases]) sp.aliases)]

/-- one evaluation of `CoreEmitter(core_dir=relpath(core, out)).emit(out)` -/
def coreOps (sp : PlanSpec) (log out core : Path) : List Op :=
  let t := coreTarget out core
  [always (.mkdirs t)] ++
  sp.runtime.flatMap (fun e =>
    always (.mkdirs (t ++ e.1)) :: fmWrite .always log (t ++ e.1 ++ [e.2.1]) e.2.2) ++
  fmWrite .always log (t ++ [fInit]) sp.coreInit ++
  (always (.mkdirs (t ++ ["auth".toList])) :: fmWrite .always log (t ++ ["auth".toList, fInit]) sp.authInit).map
    (fun o => (⟨.ifPresent (t ++ ["auth".toList]), o.act⟩ : Op)) ++
  fmWrite (.ifAbsent (t ++ [fPyTyped])) log (t ++ [fPyTyped]) [] ++
  fmWrite .always log (t ++ ["README.md".toList]) sp.readme ++
  fmWrite .always log (t ++ ["config.py".toList]) sp.config

/-- `ModelsEmitter.emit(ir, out)` -/
def modelOps (sp : PlanSpec) (out : Path) : List Op :=
  let m := out ++ ["models".toList]
  [always (.mkdirs m),
   ⟨.ifAbsent (m ++ [fInit]), .write (m ++ [fInit])
      "\"\"\"Models generated from the OpenAPI specification.\"\"\"\n".toList⟩] ++
  sp.models.flatMap (fun e =>
    [always (.mkdirs m), always (.write (m ++ [e.1 ++ ".tmp".toList]) e.2),
     always (.rename (m ++ [e.1 ++ ".tmp".toList]) (m ++ [e.1 ++ ".py".toList]))]) ++
  [always (.write (m ++ [fInit]) sp.modelsInit), always (.write (m ++ [fPyTyped]) [])]

/-- the `k`-th evaluation of `EndpointsEmitter.emit(ir.operations, out)` -/
def endpointOps (sp : PlanSpec) (log out : Path) (k : Nat) : List Op :=
  let e := out ++ ["endpoints".toList]
  [always (.mkdirs e)] ++
  fmWrite (.ifAbsent (e ++ [fInit])) log (e ++ [fInit]) [] ++
  fmWrite (.ifAbsent (out ++ [fInit])) log (out ++ [fInit]) [] ++
  fmWrite (.ifAbsent (e ++ [fPyTyped])) log (e ++ [fPyTyped]) [] ++
  (sp.endpoints k).flatMap (fun f => fmWrite .always log (e ++ [f.1 ++ ".py".toList]) f.2) ++
  fmWrite .always log (e ++ [fInit]) (sp.endpointsInit k)

/-- `ClientEmitter.emit(ir, out)` -/
def clientOps (sp : PlanSpec) (log out : Path) : List Op :=
  [always (.mkdirs out)] ++
  fmWrite .always log (out ++ ["client.py".toList]) sp.client ++
  fmWrite (.ifAbsent (out ++ [fPyTyped])) log (out ++ [fPyTyped]) []

/-- `MocksEmitter.emit(ir, out)` after `k` evaluations of the endpoints emitter -/
def mockOps (sp : PlanSpec) (log out : Path) (k : Nat) : List Op :=
  let m := out ++ ["mocks".toList]
  let me := m ++ ["endpoints".toList]
  [always (.mkdirs m), always (.mkdirs me)] ++
  (sp.mocks k).flatMap (fun f => fmWrite .always log (me ++ ["mock_".toList ++ f.1 ++ ".py".toList]) f.2) ++
  fmWrite .always log (me ++ [fInit]) (sp.mockEndpointsInit k) ++
  fmWrite .always log (m ++ ["mock_client.py".toList]) (sp.mockClient k) ++
  fmWrite .always log (m ++ [fInit]) (sp.mocksInit k)

/-- the `generated_files` handed to `PostprocessManager.run`, as far as they are `.py` files -/
def generatedPy (sp : PlanSpec) (out core : Path) (k : Nat) (rich : Bool) : List Path :=
  let t := coreTarget out core
  [core ++ [fAliases]] ++
  (sp.runtime.map (fun e => t ++ e.1 ++ [e.2.1]) ++ [t ++ [fInit], t ++ ["auth".toList, fInit], t ++ ["config.py".toList]]).filter isPyFile ++
  sp.models.map (fun e => out ++ ["models".toList, e.1 ++ ".py".toList]) ++
  (sp.endpoints 0).map (fun f => out ++ ["endpoints".toList, f.1 ++ ".py".toList]) ++
  [out ++ ["endpoints".toList, fInit], out ++ ["client.py".toList]] ++
  (sp.mocks k).map (fun f => out ++ ["mocks".toList, "endpoints".toList, "mock_".toList ++ f.1 ++ ".py".toList]) ++
  [out ++ ["mocks".toList, "endpoints".toList, fInit], out ++ ["mocks".toList, "mock_client.py".toList],
   out ++ ["mocks".toList, fInit]] ++
  (if rich then [out ++ [fInit]] else [])

/-- `PostprocessManager.run`: only files that exist are formatted (`p.is_file()`). -/
def postOps (files : List Path) : List Op := files.map (fun p => (⟨.ifPresent p, .rewrite p⟩ : Op))

inductive Stage where
  | setup | inits | exceptions | core | models | endpoints | client | mocks | richInit | postprocess
  deriving DecidableEq, Repr

def Stage.name : Stage → String
  | .setup => "setup" | .inits => "inits" | .exceptions => "exceptions" | .core => "core"
  | .models => "models" | .endpoints => "endpoints" | .client => "client" | .mocks => "mocks"
  | .richInit => "richInit" | .postprocess => "postprocess"

/-- one `while current != project_root` loop -/
def initLoop (root d : Path) : List Op :=
  (ancestorsTo root d).map (fun a => (⟨.ifAbsent (a ++ [fInit]), .write (a ++ [fInit]) []⟩ : Op))

/-- `if core_package:` — python truthiness of the ORIGINAL argument -/
def PlanCfg.richInit (c : PlanCfg) : Bool := truthy c.corePackage

/-- The `else:` branch (force or first run). -/
def forcePlan (c : PlanCfg) (sp : PlanSpec) : List (Stage × List Op) :=
  let out := c.outDir
  let core := c.coreDir
  let log := c.debugLog
  [(.setup,
      (if c.outExists then [always (.rmtree out)] else []) ++
      [always (.mkdirs (parentDir out)), always (.mkdirs out)] ++
      (if core ≠ out then [always (.mkdirs (parentDir core)), always (.mkdirs core)] else [])),
   (.inits, initLoop c.root out ++ (if !strPrefixTest core out then initLoop c.root core else [])),
   (.exceptions, excOps sp c.root core c.outputPackage),
   -- F19 repaired: each emitter runs exactly once (the second evaluations inside the log f-strings are gone)
   (.core, coreOps sp log out core),
   (.models, modelOps sp out),
   (.endpoints, endpointOps sp log out 0),
   (.client, clientOps sp log out),
   (.mocks, mockOps sp log out 1),
   (.richInit, if c.richInit then [always (.write (out ++ [fInit]) sp.richInit)] else []),
   (.postprocess, if c.noPostprocess then [] else postOps (generatedPy sp out core 1 c.richInit))]

/-- The `if not force and out_dir.exists():` branch, after `mkdtemp`. -/
def diffPlan (c : PlanCfg) (sp : PlanSpec) : List (Stage × List Op) :=
  let out := c.tmpOut
  let core := c.tmpCore
  let log := c.debugLog
  [(.setup, [always (.mkdirs out), always (.mkdirs core)]),
   (.exceptions, excOps sp c.tmpRoot core c.outputPackage),
   (.core, coreOps sp log out core),
   (.models, modelOps sp out),
   (.endpoints, endpointOps sp log out 0),
   (.client, clientOps sp log out),
   (.mocks, mockOps sp log out 1),
   (.postprocess, if c.noPostprocess then [] else postOps (generatedPy sp out core 1 false))]

def plan (c : PlanCfg) (sp : PlanSpec) : List (Stage × List Op) :=
  if c.diffMode then diffPlan c sp else forcePlan c sp

def planOps (c : PlanCfg) (sp : PlanSpec) : List Op := (plan c sp).flatMap (·.2)

/-! ## running `generate` -/

inductive Outcome where
  /-- returns the list of generated files -/
  | success
  /-- `GenerationError("Differences found between generated and existing output.")` -/
  | raisedDiff
  /-- some other exception propagates (injected fault or `OSError`) -/
  | raisedOther
  deriving DecidableEq, Repr

/-- `TemporaryDirectory.__exit__`: remove the temporary root whatever happened. -/
def cleanupTmp (fs : FS) (tmp : Path) : FS :=
  ⟨fs.files.filter (fun e => !tmp.isPrefixOf e.1), fs.dirs.filter (fun d => !tmp.isPrefixOf d)⟩

/-- `generate` on file system `fs` (whether `out_dir` exists is read from `fs`), with an exception
    injected in front of primitive number `fault` of the plan. -/
def runGenerate (post : Str → Str) (c : PlanCfg) (sp : PlanSpec) (fs : FS) (fault : Nat) : FS × Outcome :=
  let c := { c with outExists := fs.pathExists c.outDir }
  if c.diffMode then
    if !fs.isDir c.tmpDir then (fs, Outcome.raisedOther) else     -- `mkdtemp` raises
    let fs0 : FS := { fs with dirs := fs.dirs ++ [c.tmpRoot] }
    let r := execOps post (planOps c sp) fs0 fault
    let outcome :=
      match r.2 with
      | some _ => Outcome.raisedOther
      | none =>
        if noForceHasDiff (r.1.subtree c.outDir) (r.1.subtree c.tmpOut)
            (r.1.subtree c.coreDir) (r.1.subtree c.tmpCore) (decide (c.coreDir ≠ c.outDir))
        then Outcome.raisedDiff else Outcome.success
    (cleanupTmp r.1 c.tmpRoot, outcome)
  else
    let r := execOps post (planOps c sp) fs fault
    (r.1, match r.2 with | some _ => Outcome.raisedOther | none => Outcome.success)

/-- the file tree below the output package after a force/first-run generation into an empty project -/
def forceTree (post : Str → Str) (c : PlanCfg) (sp : PlanSpec) : Tree :=
  let c := { c with force := true, outExists := false }
  ((execOps post (planOps c sp) ⟨[], pathPrefixes c.root ++ pathPrefixes c.tmpDir⟩ (planOps c sp).length).1).subtree c.outDir

/-- the file tree below the temporary output package built by the diff path -/
def diffTree (post : Str → Str) (c : PlanCfg) (sp : PlanSpec) : Tree :=
  let c := { c with force := false, outExists := true }
  ((execOps post (planOps c sp) ⟨[], pathPrefixes c.tmpRoot⟩ (planOps c sp).length).1).subtree c.tmpOut

end Pog.Plan
