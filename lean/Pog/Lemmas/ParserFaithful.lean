import Pog.Model.ParserSpec
import Pog.Lemmas.ParserSpec
import Pog.Lemmas.ParserNames
/-
  Lemmas about M-parser, part 4: faithfulness (C02) on the DAG fragment.

  Fragment (`Simple`): every declared schema is an object `{type: object, properties: …, required: …}`
  whose properties are plain primitives or `$ref`s to declared schemas; names are non-empty, class-cased
  (`sanitize_class_name n = n`) and pairwise different; property keys are non-empty and pairwise
  different; the reference graph is acyclic (a rank function decreases along references); the longest
  reference chain fits below the depth limit and the fuel.

  Proof architecture (open recursion again): `SpecP P r` is the contract of the callback for every
  declared name of rank `< r`, `PrimSpec P` its contract on a plain primitive node.  `parseStep`
  turns `SpecP P r ∧ PrimSpec P` into `SpecP (parseStep P) (r+1)` and always satisfies `PrimSpec`.
  The contract is phrased with
    `WF s`      every registered name has a heap object that is EXACTLY the faithful model,
    `TK s R`    tracker ↔ registry coherence, every in-progress name has rank ≥ R,
    `Step s s'` what a completed call may change (registry / heap only grow, old objects untouched,
                tracker stack / depth / cycles restored, states only go none ⟶ completed).
-/
namespace Pog.Prs
open Pog Pog.Trk

/-! ### the fragment -/

def simpleProp (names : List Str) : Node → Bool
  | .prim _ false => true
  | .ref t => names.contains t && !t.contains '/' && !t.isEmpty
  | _ => false

def simpleNode (names : List Str) : Node → Bool
  | .obj (some ps) _ none =>
    ps.all (fun kv => !kv.1.isEmpty && simpleProp names kv.2) && decide ((ps.map (·.1)).Nodup)
  | _ => false

/-- the hypotheses of `parse_faithful_partial` -/
structure Simple (decls : Decls) (rank : Str → Nat) : Prop where
  nodup : (decls.map (·.1)).Nodup
  node : ∀ d ∈ decls, simpleNode (decls.map (·.1)) d.2 = true
  name : ∀ d ∈ decls, d.1 ≠ [] ∧ sanClass d.1 = d.1
  acyclic : ∀ d ∈ decls, ∀ ps req ap, d.2 = .obj (some ps) req ap → ∀ kv ∈ ps, ∀ t, kv.2 = .ref t →
    rank t < rank d.1

/-! ### state predicates -/

def PrimOK (s : PSt) (k : Str) (ty : PrimTy) (pid : Nat) : Prop :=
  pid < s.heap.length ∧ s.get pid = { name := some k, type := some ty.str } ∧
  ∀ k' i, dGet k' s.reg = some i → i ≠ pid

def fieldOKNode (s : PSt) (k : Str) (pid : Nat) : Node → Prop
  | .prim ty false => PrimOK s k ty pid
  | .ref t => dGet t s.reg = some pid
  | _ => False

def FieldOK (s : PSt) (kv : Str × Node) (e : Str × Nat) : Prop :=
  e.1 = kv.1 ∧ fieldOKNode s kv.1 e.2 kv.2

/-- pointwise relation of two lists (core has no `Forall₂`) -/
inductive All2 {α β : Type} (R : α → β → Prop) : List α → List β → Prop
  | nil : All2 R [] []
  | cons {a b l l'} : R a b → All2 R l l' → All2 R (a :: l) (b :: l')

theorem All2.imp {α β : Type} {R R' : α → β → Prop} (h : ∀ a b, R a b → R' a b) {l : List α} {l' : List β}
    (hl : All2 R l l') : All2 R' l l' := by
  induction hl with
  | nil => exact .nil
  | cons hab _ ih => exact .cons (h _ _ hab) ih

theorem All2.snoc {α β : Type} {R : α → β → Prop} {l : List α} {l' : List β} {a : α} {b : β}
    (hl : All2 R l l') (hab : R a b) : All2 R (l ++ [a]) (l' ++ [b]) := by
  induction hl with
  | nil => exact .cons hab .nil
  | cons h _ ih => exact .cons h ih

/-- the heap object `i` is exactly the faithful model of the declared schema `m` -/
def ModelOK (decls : Decls) (s : PSt) (m : Str) (i : Nat) : Prop :=
  ∃ ps req fp, dGet m decls = some (.obj (some ps) req none) ∧
    s.get i = { name := some m, type := some sObject, props := fp, required := dedup req } ∧
    All2 (FieldOK s) ps fp

def WF (decls : Decls) (s : PSt) : Prop :=
  (∀ m i, dGet m s.reg = some i → ModelOK decls s m i ∧ i < s.heap.length) ∧
  (∀ m m' i, dGet m s.reg = some i → dGet m' s.reg = some i → m = m')

/-- tracker ↔ registry coherence; every in-progress name has rank ≥ `R` -/
def TK (rank : Str → Nat) (s : PSt) (R : Nat) : Prop :=
  s.tr.cycles = [] ∧
  (∀ m ∈ s.tr.stack, dGet m s.tr.states = some .inProgress) ∧
  ∀ m, dGet m s.tr.states = none ∨
       (dGet m s.tr.states = some .completed ∧ s.regHas m = true) ∨
       (dGet m s.tr.states = some .inProgress ∧ R ≤ rank m ∧ s.regHas m = false)

/-- what a completed call may change -/
structure Step (s s' : PSt) : Prop where
  stack : s'.tr.stack = s.tr.stack
  depth : s'.tr.depth = s.tr.depth
  maxDepth : s'.tr.maxDepth = s.tr.maxDepth
  cycles : s'.tr.cycles = s.tr.cycles
  states : ∀ m, dGet m s'.tr.states = dGet m s.tr.states ∨
    (dGet m s.tr.states = none ∧ dGet m s'.tr.states = some .completed ∧ s'.regHas m = true)
  reg : ∀ k i, dGet k s.reg = some i → dGet k s'.reg = some i
  heapLen : s.heap.length ≤ s'.heap.length
  heap : ∀ i, i < s.heap.length → s'.get i = s.get i
  fresh : ∀ k i, dGet k s'.reg = some i → dGet k s.reg = some i ∨ s.heap.length ≤ i
  regNew : ∀ k, s'.regHas k = true → s.regHas k = true ∨
    (dGet k s.tr.states = none ∧ dGet k s'.tr.states = some .completed)
  oom : s'.oom = s.oom

/-- the heap / registry part of `Step` -/
structure HStep (s s' : PSt) : Prop where
  reg : ∀ k i, dGet k s.reg = some i → dGet k s'.reg = some i
  heapLen : s.heap.length ≤ s'.heap.length
  heap : ∀ i, i < s.heap.length → s'.get i = s.get i
  fresh : ∀ k i, dGet k s'.reg = some i → dGet k s.reg = some i ∨ s.heap.length ≤ i

theorem Step.hstep {s s' : PSt} (h : Step s s') : HStep s s' := ⟨h.reg, h.heapLen, h.heap, h.fresh⟩

theorem Step.refl (s : PSt) : Step s s :=
  ⟨rfl, rfl, rfl, rfl, fun _ => Or.inl rfl, fun _ _ h => h, Nat.le_refl _, fun _ _ => rfl,
   fun _ _ h => Or.inl h, fun _ h => Or.inl h, rfl⟩

theorem regHas_iff_dGet (s : PSt) (k : Str) : s.regHas k = true ↔ ∃ i, dGet k s.reg = some i := by
  unfold PSt.regHas dHas
  cases dGet k s.reg <;> simp

theorem Step.regMono {s s' : PSt} (h : Step s s') (k : Str) (hk : s.regHas k = true) : s'.regHas k = true := by
  obtain ⟨i, hi⟩ := (regHas_iff_dGet s k).mp hk
  exact (regHas_iff_dGet s' k).mpr ⟨i, h.reg k i hi⟩

theorem Step.trans {a b c : PSt} (h1 : Step a b) (h2 : Step b c) : Step a c where
  stack := by rw [h2.stack, h1.stack]
  depth := by rw [h2.depth, h1.depth]
  maxDepth := by rw [h2.maxDepth, h1.maxDepth]
  cycles := by rw [h2.cycles, h1.cycles]
  states := by
    intro m
    rcases h1.states m with e1 | ⟨e1, e1', r1⟩
    · rcases h2.states m with e2 | ⟨e2, e2', r2⟩
      · exact Or.inl (by rw [e2, e1])
      · exact Or.inr ⟨by rw [← e1]; exact e2, e2', r2⟩
    · rcases h2.states m with e2 | ⟨e2, _, _⟩
      · exact Or.inr ⟨e1, by rw [e2]; exact e1', h2.regMono m r1⟩
      · rw [e1'] at e2; cases e2
  reg := fun k i h => h2.reg k i (h1.reg k i h)
  heapLen := Nat.le_trans h1.heapLen h2.heapLen
  heap := fun i hi => by rw [h2.heap i (Nat.lt_of_lt_of_le hi h1.heapLen), h1.heap i hi]
  fresh := by
    intro k i h
    rcases h2.fresh k i h with e | e
    · exact h1.fresh k i e
    · exact Or.inr (Nat.le_trans h1.heapLen e)
  regNew := by
    intro k h
    rcases h2.regNew k h with e | ⟨e, e'⟩
    · rcases h1.regNew k e with e1 | ⟨e1, e1'⟩
      · exact Or.inl e1
      · right
        refine ⟨e1, ?_⟩
        rcases h2.states k with e2 | ⟨e2, _, _⟩
        · rw [e2]; exact e1'
        · rw [e1'] at e2; cases e2
    · rcases h1.states k with e1 | ⟨e1, e1', _⟩
      · exact Or.inr ⟨by rw [← e1]; exact e, e'⟩
      · rw [e1'] at e; cases e
  oom := by rw [h2.oom, h1.oom]

/-! ### transport along `Step` -/

theorem fieldOKNode_step {s s' : PSt} (h : HStep s s') (k : Str) (pid : Nat) (nd : Node)
    (hf : fieldOKNode s k pid nd) : fieldOKNode s' k pid nd := by
  cases nd with
  | prim ty e =>
    cases e with
    | true => exact hf.elim
    | false =>
      obtain ⟨h1, h2, h3⟩ := hf
      refine ⟨Nat.lt_of_lt_of_le h1 h.heapLen, by rw [h.heap _ h1]; exact h2, ?_⟩
      intro k' i hi
      rcases h.fresh k' i hi with e1 | e1
      · exact h3 k' i e1
      · exact fun e2 => by subst e2; exact absurd h1 (Nat.not_lt.mpr e1)
  | ref t => exact h.reg _ _ hf
  | obj _ _ _ => exact hf.elim
  | arr _ => exact hf.elim
  | allOf _ _ _ => exact hf.elim
  | oneOf _ => exact hf.elim
  | anyOf _ => exact hf.elim
  | nullable _ => exact hf.elim

theorem FieldOK.step {s s' : PSt} (h : HStep s s') (kv : Str × Node) (e : Str × Nat) (hf : FieldOK s kv e) :
    FieldOK s' kv e :=
  ⟨hf.1, fieldOKNode_step h _ _ _ hf.2⟩

theorem ModelOK.step {decls : Decls} {s s' : PSt} (h : HStep s s') (m : Str) (i : Nat)
    (hi : i < s.heap.length) (hm : ModelOK decls s m i) : ModelOK decls s' m i := by
  obtain ⟨ps, req, fp, h1, h2, h3⟩ := hm
  refine ⟨ps, req, fp, h1, by rw [h.heap i hi]; exact h2, ?_⟩
  exact All2.imp (fun a b hab => FieldOK.step h a b hab) h3

theorem TK.step {rank : Str → Nat} {s s' : PSt} {R : Nat} (h : Step s s') (hk : TK rank s R) : TK rank s' R := by
  obtain ⟨hc, hst, hall⟩ := hk
  refine ⟨by rw [h.cycles]; exact hc, ?_, ?_⟩
  · intro m hm
    rw [h.stack] at hm
    rcases h.states m with e | ⟨e, _, _⟩
    · rw [e]; exact hst m hm
    · rw [hst m hm] at e; cases e
  · intro m
    rcases h.states m with e | ⟨_, e', r⟩
    · rcases hall m with a | ⟨a, b⟩ | ⟨a, b, c⟩
      · exact Or.inl (by rw [e]; exact a)
      · exact Or.inr (Or.inl ⟨by rw [e]; exact a, h.regMono m b⟩)
      · refine Or.inr (Or.inr ⟨by rw [e]; exact a, b, ?_⟩)
        cases hr : s'.regHas m with
        | false => rfl
        | true =>
          rcases h.regNew m hr with x | ⟨x, _⟩
          · rw [c] at x; cases x
          · rw [a] at x; cases x
    · exact Or.inr (Or.inl ⟨e', r⟩)

theorem TK.anti {rank : Str → Nat} {s : PSt} {R R' : Nat} (h : TK rank s R) (hr : R' ≤ R) : TK rank s R' := by
  obtain ⟨hc, hst, hall⟩ := h
  refine ⟨hc, hst, fun m => ?_⟩
  rcases hall m with a | a | ⟨a, b, c⟩
  · exact Or.inl a
  · exact Or.inr (Or.inl a)
  · exact Or.inr (Or.inr ⟨a, Nat.le_trans hr b, c⟩)

/-! ### tracker equations on the fragment -/

theorem enter_fresh (t : TrSt) (n : Str) (a : Bool) (hn : n ≠ []) (hs : dGet n t.states = none)
    (hst : n ∉ t.stack) (hd : t.depth + 1 ≤ t.maxDepth) :
    Trk.enter t (some n) a =
      ({ t with allowSelf := a, depth := t.depth + 1, states := dSet n .inProgress t.states,
                stack := t.stack ++ [n] }, { action := .continueParsing }) := by
  have hso : TrSt.stateOf { t with allowSelf := a, depth := t.depth + 1 } n = .notStarted := by
    simp [TrSt.stateOf, hs]
  have hnd : ¬ (t.depth + 1 > t.maxDepth) := by omega
  have hc : check { t with allowSelf := a, depth := t.depth + 1 } n =
      ({ t with allowSelf := a, depth := t.depth + 1, states := dSet n .inProgress t.states },
       { action := .continueParsing }) := by
    unfold check
    simp [hso, hnd, hst]
  unfold Trk.enter
  simp [hc, hn]

theorem exit_inProgress (t : TrSt) (n : Str) (hn : n ≠ []) (hs : dGet n t.states = some .inProgress) :
    Trk.exit t (some n) =
      { t with depth := t.depth - 1, stack := t.stack.erase n, states := dSet n .completed t.states } := by
  unfold Trk.exit
  simp [hn, hs]

theorem erase_append_self_of_not_mem (l : List Str) (m : Str) (h : m ∉ l) : (l ++ [m]).erase m = l := by
  rw [List.erase_append_right _ h]
  simp

/-! ### contracts of the callback -/

def TrSame (t t' : TrSt) : Prop :=
  t'.stack = t.stack ∧ t'.depth = t.depth ∧ t'.maxDepth = t.maxDepth ∧ t'.cycles = t.cycles ∧
  t'.states = t.states

/-- contract on an anonymous plain primitive: one fresh object, nothing else changes -/
def PrimSpec (P : PFn) : Prop := ∀ (ty : PrimTy) (s : PSt),
  (P none (.prim ty false) true s).1 = s.heap.length ∧
  (P none (.prim ty false) true s).2.heap = s.heap ++ [{ type := some ty.str }] ∧
  (P none (.prim ty false) true s).2.reg = s.reg ∧
  (P none (.prim ty false) true s).2.oom = s.oom ∧
  TrSame s.tr (P none (.prim ty false) true s).2.tr

theorem parseStep_primSpec (decls : Decls) (P : PFn) : PrimSpec (parseStep decls P) := by
  intro ty s
  simp [parseStep, parseCore, PSt.doEnter, Trk.enter, bodyAndExit, body, Node.core, finish, PSt.doExit,
    Trk.exit, truthy, mkIR, PSt.alloc, TrSame]

def Pre (decls : Decls) (rank : Str → Nat) (s : PSt) (n : Str) : Prop :=
  WF decls s ∧ TK rank s (rank n + 1) ∧ s.regHas n = false ∧ s.tr.depth + rank n + 1 ≤ s.tr.maxDepth

def Post (decls : Decls) (s : PSt) (n : Str) (q : Nat × PSt) : Prop :=
  Step s q.2 ∧ WF decls q.2 ∧ dGet n q.2.reg = some q.1

/-- contract on every declared name of rank `< r` -/
def SpecP (decls : Decls) (rank : Str → Nat) (P : PFn) (r : Nat) : Prop :=
  ∀ n nd s, dGet n decls = some nd → rank n < r → Pre decls rank s n → Post decls s n (P (some n) nd true s)

/-! ### one property -/

theorem takeWhile_all {α : Type} (p : α → Bool) (l : List α) (h : ∀ x ∈ l, p x = true) : l.takeWhile p = l := by
  induction l with
  | nil => rfl
  | cons a l ih =>
    simp only [List.takeWhile_cons, h a (List.mem_cons_self ..), if_true]
    rw [ih (fun x hx => h x (List.mem_cons_of_mem _ hx))]

theorem lastSeg_of_no_slash (t : Str) (h : t.contains '/' = false) : lastSeg t = t := by
  unfold lastSeg
  rw [takeWhile_all, List.reverse_reverse]
  intro c hc
  have hc' : c ∈ t := List.mem_reverse.mp hc
  simp only [bne_iff_ne, ne_eq]
  intro e
  subst e
  have : t.contains '/' = true := List.contains_iff_mem.mpr hc'
  rw [h] at this
  cases this

theorem modify_append_length {α : Type} (l : List α) (x : α) (f : α → α) :
    (l ++ [x]).modify l.length f = l ++ [f x] := by
  induction l with
  | nil => rfl
  | cons a l ih => simp [ih]

theorem WF.hstep {decls : Decls} {s s' : PSt} (h : HStep s s') (hreg : s'.reg = s.reg) (hw : WF decls s) :
    WF decls s' := by
  refine ⟨?_, ?_⟩
  · intro m i hm
    rw [hreg] at hm
    obtain ⟨h1, h2⟩ := hw.1 m i hm
    exact ⟨ModelOK.step h m i h2 h1, Nat.lt_of_lt_of_le h2 h.heapLen⟩
  · intro m m' i h1 h2
    rw [hreg] at h1 h2
    exact hw.2 m m' i h1 h2

theorem getD_append_left (l l' : List IR) (i : Nat) (hi : i < l.length) :
    (l ++ l').getD i {} = l.getD i {} := by
  simp [List.getD, List.getElem?_append_left hi]

theorem getD_append_length (l : List IR) (x : IR) : (l ++ [x]).getD l.length {} = x := by
  simp [List.getD]

/-- the primitive-property branch of `_parse_properties` -/
theorem propStep_prim (decls : Decls) (P : PFn) (hP : PrimSpec P) (n k : Str) (ty : PrimTy) (s : PSt)
    (hw : WF decls s) :
    let q := propStep decls P (some n) true k (.prim ty false) s
    Step s q.2 ∧ WF decls q.2 ∧ FieldOK q.2 (k, .prim ty false) (k, q.1) := by
  obtain ⟨h1, h2, h3, h4, h5⟩ := hP ty s
  have hq : propStep decls P (some n) true k (.prim ty false) s =
      ((P none (.prim ty false) true s).1,
       (P none (.prim ty false) true s).2.modify (P none (.prim ty false) true s).1
         (fun o => { o with name := some k, hasEnum := o.hasEnum || false })) := by
    simp [propStep, Node.isRef, Node.isInlineObj, Node.core, propOther, propCtxName, Node.isPlainPrim,
      Node.enumFlag]
  simp only [hq]
  generalize hqq : P none (.prim ty false) true s = q at h1 h2 h3 h4 h5
  obtain ⟨qi, qs⟩ := q
  simp only at h1 h2 h3 h4 h5 ⊢
  subst h1
  generalize hf : (fun o : IR => { o with name := some k, hasEnum := o.hasEnum || false }) = f
  have hfx : f { type := some ty.str } = { name := some k, type := some ty.str } := by rw [← hf]; rfl
  have hheap : (qs.modify s.heap.length f).heap = s.heap ++ [{ name := some k, type := some ty.str }] := by
    show qs.heap.modify s.heap.length f = _
    rw [h2, modify_append_length, hfx]
  have hget : ∀ i, i < s.heap.length → (qs.modify s.heap.length f).get i = s.get i := by
    intro i hi
    unfold PSt.get
    rw [hheap]
    exact getD_append_left _ _ i hi
  have hstep : Step s (qs.modify s.heap.length f) := by
    refine ⟨h5.1, h5.2.1, h5.2.2.1, h5.2.2.2.1, fun m => Or.inl (by show dGet m qs.tr.states = _; rw [h5.2.2.2.2]),
      fun k' i h => by show dGet k' qs.reg = _; rw [h3]; exact h, by rw [hheap]; simp, hget,
      fun k' i h => Or.inl (by rw [← h3]; exact h), fun k' h => Or.inl (by
        unfold PSt.regHas at h ⊢; rw [← h3]; exact h), h4⟩
  refine ⟨hstep, WF.hstep hstep.hstep h3 hw, rfl, ?_⟩
  show PrimOK _ k ty s.heap.length
  refine ⟨by rw [hheap]; simp, ?_, ?_⟩
  · unfold PSt.get
    rw [hheap]
    exact getD_append_length _ _
  · intro k' i hi
    have : dGet k' s.reg = some i := by rw [← h3]; exact hi
    exact Nat.ne_of_lt (hw.1 k' i this).2

/-- the `$ref`-property branch of `_parse_properties` -/
theorem propStep_ref (decls : Decls) (rank : Str → Nat) (P : PFn) (r : Nat) (hP : SpecP decls rank P r)
    (n k t : Str) (nd : Node) (s : PSt) (hw : WF decls s) (hk : TK rank s (rank t + 1))
    (ht : dGet t decls = some nd) (hno : t.contains '/' = false) (hne : t ≠ []) (hr : rank t < r)
    (hd : s.tr.depth + rank t + 1 ≤ s.tr.maxDepth) :
    let q := propStep decls P (some n) true k (.ref t) s
    Step s q.2 ∧ WF decls q.2 ∧ FieldOK q.2 (k, .ref t) (k, q.1) := by
  have hq : propStep decls P (some n) true k (.ref t) s = resolveRef decls P t true s := by
    simp [propStep, Node.isRef, Node.core]
  simp only [hq]
  unfold resolveRef
  have hemp : t.isEmpty = false := by
    cases t with
    | nil => exact absurd rfl hne
    | cons c cs => rfl
  simp only [lastSeg_of_no_slash t hno, hemp, Bool.false_eq_true, if_false]
  cases hg : dGet t s.reg with
  | some id =>
    obtain ⟨⟨ps, req, fp, _, hget, _⟩, _⟩ := hw.1 t id hg
    have hdm : (s.get id).depthMarker = false := by rw [hget]
    simp only [hdm, Bool.not_false, if_true]
    exact ⟨Step.refl s, hw, rfl, hg⟩
  | none =>
    simp only [ht]
    have hpre : Pre decls rank s t := ⟨hw, hk, by
      unfold PSt.regHas dHas; rw [hg]; rfl, hd⟩
    obtain ⟨h1, h2, h3⟩ := hP t nd s ht hr hpre
    exact ⟨h1, h2, rfl, h3⟩

/-! ### the property loop -/

theorem All2.keys {s : PSt} {done : List (Str × Node)} {acc : List (Str × Nat)}
    (h : All2 (FieldOK s) done acc) : acc.map (·.1) = done.map (·.1) := by
  induction h with
  | nil => rfl
  | cons hab _ ih => simp [hab.1, ih]

theorem dSet_of_not_has {β : Type} (k : Str) (v : β) (d : List (Str × β)) (h : dHas k d = false) :
    dSet k v d = d ++ [(k, v)] := by
  induction d with
  | nil => rfl
  | cons p rest ih =>
    obtain ⟨k', v'⟩ := p
    have hne : ¬ k' = k := by
      intro e; subst e; simp [dHas, dGet] at h
    have hrest : dHas k rest = false := by
      simpa [dHas, dGet, hne] using h
    simp [dSet, hne, ih hrest]

theorem dGet_of_mem_keys {β : Type} (d : List (Str × β)) (k : Str) (h : k ∈ d.map (·.1)) :
    ∃ v, dGet k d = some v := by
  induction d with
  | nil => cases h
  | cons p rest ih =>
    obtain ⟨k', v'⟩ := p
    simp only [dGet]
    by_cases e : k' = k
    · exact ⟨v', by simp [e]⟩
    · simp only [e, if_false]
      simp only [List.map_cons, List.mem_cons] at h
      rcases h with h | h
      · exact absurd h.symm e
      · exact ih h

theorem simpleProp_cases (names : List Str) (p : Node) (h : simpleProp names p = true) :
    (∃ ty, p = .prim ty false) ∨
    (∃ t, p = .ref t ∧ t ∈ names ∧ t.contains '/' = false ∧ t ≠ []) := by
  cases p with
  | prim ty e =>
    cases e with
    | false => exact Or.inl ⟨ty, rfl⟩
    | true => simp [simpleProp] at h
  | ref t =>
    right
    simp only [simpleProp, Bool.and_eq_true, Bool.not_eq_true'] at h
    refine ⟨t, rfl, List.contains_iff_mem.mp h.1.1, h.1.2, ?_⟩
    intro e; subst e; simp at h
  | obj _ _ _ => simp [simpleProp] at h
  | arr _ => simp [simpleProp] at h
  | allOf _ _ _ => simp [simpleProp] at h
  | oneOf _ => simp [simpleProp] at h
  | anyOf _ => simp [simpleProp] at h
  | nullable _ => simp [simpleProp] at h

theorem parseProps_spec (decls : Decls) (rank : Str → Nat) (P : PFn) (r : Nat) (hPrim : PrimSpec P)
    (hP : SpecP decls rank P r) (n : Str) (R : Nat) (hRr : R ≤ r) :
    ∀ (rest done : List (Str × Node)) (acc : List (Str × Nat)) (s0 sc : PSt),
      (∀ kv ∈ rest, kv.1 ≠ [] ∧ simpleProp (decls.map (·.1)) kv.2 = true ∧
          (∀ t, kv.2 = .ref t → rank t < R)) →
      ((done ++ rest).map (·.1)).Nodup →
      Step s0 sc → WF decls sc → TK rank s0 R → s0.tr.depth + R ≤ s0.tr.maxDepth →
      All2 (FieldOK sc) done acc →
      Step s0 (parseProps decls P (some n) true rest acc sc).2 ∧
      WF decls (parseProps decls P (some n) true rest acc sc).2 ∧
      All2 (FieldOK (parseProps decls P (some n) true rest acc sc).2) (done ++ rest)
        (parseProps decls P (some n) true rest acc sc).1 := by
  intro rest
  induction rest with
  | nil =>
    intro done acc s0 sc _ _ hst hw _ _ hall
    simp only [parseProps, List.append_nil]
    exact ⟨hst, hw, hall⟩
  | cons kv rest ih =>
    intro done acc s0 sc hrest hnd hst hw hk hdep hall
    obtain ⟨k, p⟩ := kv
    obtain ⟨hkne, hsimple, hrk⟩ := hrest (k, p) (List.mem_cons_self ..)
    have hkemp : k.isEmpty = false := by
      cases k with
      | nil => exact absurd rfl hkne
      | cons c cs => rfl
    have hnotin : dHas k acc = false := by
      rw [dHas_iff_contains, hall.keys]
      cases hc : (done.map (·.1)).contains k with
      | false => rfl
      | true =>
        have hmem : k ∈ done.map (·.1) := List.contains_iff_mem.mp hc
        simp only [List.map_append, List.map_cons] at hnd
        have := (List.nodup_append.mp hnd).2.2 k hmem k (List.mem_cons_self ..)
        exact absurd rfl this
    simp only [parseProps, hkemp, hnotin, Bool.or_self, Bool.false_eq_true, if_false]
    -- one property
    have hkc : TK rank sc R := TK.step hst hk
    have hdepc : sc.tr.depth + R ≤ sc.tr.maxDepth := by rw [hst.depth, hst.maxDepth]; exact hdep
    have hone : Step sc (propStep decls P (some n) true k p sc).2 ∧
        WF decls (propStep decls P (some n) true k p sc).2 ∧
        FieldOK (propStep decls P (some n) true k p sc).2 (k, p) (k, (propStep decls P (some n) true k p sc).1) := by
      rcases simpleProp_cases _ p hsimple with ⟨ty, e⟩ | ⟨t, e, hmem, hno, hne⟩
      · subst e
        exact propStep_prim decls P hPrim n k ty sc hw
      · subst e
        obtain ⟨nd, hnd'⟩ := dGet_of_mem_keys decls t hmem
        have hrt : rank t < R := hrk t rfl
        exact propStep_ref decls rank P r hP n k t nd sc hw (TK.anti hkc (by omega)) hnd' hno hne
          (by omega) (by omega)
    obtain ⟨h1, h2, h3⟩ := hone
    rw [dSet_of_not_has _ _ _ hnotin]
    have hall' : All2 (FieldOK (propStep decls P (some n) true k p sc).2) (done ++ [(k, p)])
        (acc ++ [(k, (propStep decls P (some n) true k p sc).1)]) :=
      All2.snoc (All2.imp (fun a b hab => FieldOK.step h1.hstep a b hab) hall) h3
    have := ih (done ++ [(k, p)]) _ s0 _ (fun kv hkv => hrest kv (List.mem_cons_of_mem _ hkv))
      (by simpa [List.append_assoc] using hnd) (Step.trans hst h1) h2 hk hdep hall'
    simpa [List.append_assoc] using this

/-! ### one declared schema -/

theorem truthy_of_ne (n : Str) (h : n ≠ []) : truthy (some n) = true := by
  cases n with
  | nil => exact absurd rfl h
  | cons c cs => rfl

theorem simpleNode_inv (names : List Str) (nd : Node) (h : simpleNode names nd = true) :
    ∃ ps req, nd = .obj (some ps) req none ∧
      (∀ kv ∈ ps, kv.1 ≠ [] ∧ simpleProp names kv.2 = true) ∧ (ps.map (·.1)).Nodup := by
  cases nd with
  | obj props req ap =>
    cases props with
    | none => simp [simpleNode] at h
    | some ps =>
      cases ap with
      | some a => simp [simpleNode] at h
      | none =>
        simp only [simpleNode, Bool.and_eq_true, List.all_eq_true, decide_eq_true_eq] at h
        refine ⟨ps, req, rfl, ?_, h.2⟩
        intro kv hkv
        have := h.1 kv hkv
        simp only [Bool.not_eq_true'] at this
        refine ⟨?_, this.2⟩
        intro e
        rw [e] at this
        simp at this
  | ref _ => simp [simpleNode] at h
  | prim _ _ => simp [simpleNode] at h
  | arr _ => simp [simpleNode] at h
  | allOf _ _ _ => simp [simpleNode] at h
  | oneOf _ => simp [simpleNode] at h
  | anyOf _ => simp [simpleNode] at h
  | nullable _ => simp [simpleNode] at h

theorem mem_of_dGet {β : Type} (d : List (Str × β)) (k : Str) (v : β) (h : dGet k d = some v) : (k, v) ∈ d := by
  induction d with
  | nil => cases h
  | cons p rest ih =>
    obtain ⟨k', v'⟩ := p
    simp only [dGet] at h
    by_cases e : k' = k
    · simp only [e, if_true] at h
      cases h
      subst e
      exact List.mem_cons_self ..
    · simp only [e, if_false] at h
      exact List.mem_cons_of_mem _ (ih h)

theorem finish_fresh (decls : Decls) (n : Str) (id : Nat) (s : PSt) (fp : List (Str × Nat)) (rq : List Str)
    (hn : n ≠ []) (hnone : dGet n s.reg = none) (hc : s.tr.cycles = [])
    (hobj : s.get id = { name := some n, type := some sObject, props := fp, required := rq }) :
    finish decls (some n) id s = (id, s.regSet n id) := by
  have ht := truthy_of_ne n hn
  have hkey : regKey s (s.get id) n id = n := by
    unfold regKey
    simp [hobj, ht, hnone]
  unfold finish
  simp only [ht, Bool.not_true, Bool.false_eq_true, if_false, hnone]
  unfold finish.finishReg
  have hmem : ¬ sObject ∈ primTypes := by decide
  have hkey' : regKey s { name := some n, type := some sObject, props := fp, required := rq } n id = n := by
    rw [← hobj]; exact hkey
  have hc' : (s.regSet n id).tr.cycles = [] := hc
  simp [hobj, hmem, hkey', hc', cycleMark]

def enteredTr (t : TrSt) (n : Str) : TrSt :=
  { t with allowSelf := true, depth := t.depth + 1, states := dSet n .inProgress t.states,
           stack := t.stack ++ [n] }

def afterEnter (s : PSt) (n : Str) : PSt :=
  { s with nest := s.nest + 1, maxNest := max s.maxNest (s.nest + 1), tr := enteredTr s.tr n,
           trace := s.trace ++ [.enter (some n) true .continueParsing] }

theorem parseStep_obj_eq (decls : Decls) (P : PFn) (n : Str) (ps : List (Str × Node)) (req : List Str)
    (s : PSt) (hn : n ≠ []) (hsan : sanClass n = n)
    (he : Trk.enter s.tr (some n) true = (enteredTr s.tr n, { action := .continueParsing })) :
    parseStep decls P (some n) (.obj (some ps) req none) true s =
      (let s1 : PSt := afterEnter s n
       let q := parseProps decls P (some n) true ps [] s1
       let a := q.2.alloc (mkIR { name := some n, type := some sObject, props := q.1, required := dedup req })
       let f := finish decls (some n) a.1 a.2
       (f.1, { (f.2.doExit (some n)) with nest := (f.2.doExit (some n)).nest - 1 })) := by
  simp [parseStep, parseCore, PSt.doEnter, he, bodyAndExit, body, Node.core, truthy_of_ne n hn, hsan, afterEnter]

theorem hstep_of_eq {s s' : PSt} (hh : s'.heap = s.heap) (hr : s'.reg = s.reg) : HStep s s' := by
  refine ⟨fun k i h => by rw [hr]; exact h, by rw [hh]; exact Nat.le_refl _, fun i _ => by unfold PSt.get; rw [hh],
    fun k i h => Or.inl (by rw [← hr]; exact h)⟩

theorem WF.congr {decls : Decls} {s s' : PSt} (hh : s'.heap = s.heap) (hr : s'.reg = s.reg) (hw : WF decls s) :
    WF decls s' :=
  WF.hstep (hstep_of_eq hh hr) hr hw

theorem mkIR_named (n : Str) (hn : n ≠ []) (hsan : sanClass n = n) (o : IR) (ho : o.name = some n) :
    mkIR o = o := by
  unfold mkIR
  rw [ho, truthy_of_ne n hn]
  simp only [if_true, Option.map_some, hsan]
  cases o
  simp_all

/-- `_parse_schema` on a declared schema of the fragment: `SpecP` one rank up. -/
theorem parseStep_spec (decls : Decls) (rank : Str → Nat) (P : PFn) (r : Nat) (hS : Simple decls rank)
    (hPrim : PrimSpec P) (hP : SpecP decls rank P r) : SpecP decls rank (parseStep decls P) (r + 1) := by
  intro n nd s hget hr hpre
  obtain ⟨hw, hk, hnreg, hdep⟩ := hpre
  have hmem := mem_of_dGet decls n nd hget
  obtain ⟨hn, hsan⟩ := hS.name (n, nd) hmem
  obtain ⟨ps, req, hnd, hprops, hnodup⟩ := simpleNode_inv _ nd (hS.node (n, nd) hmem)
  subst hnd
  have hstate : dGet n s.tr.states = none := by
    rcases hk.2.2 n with a | ⟨_, b⟩ | ⟨_, b, _⟩
    · exact a
    · rw [hnreg] at b; cases b
    · omega
  have hnstack : n ∉ s.tr.stack := by
    intro hm
    have := hk.2.1 n hm
    rw [hstate] at this
    cases this
  have he : Trk.enter s.tr (some n) true = (enteredTr s.tr n, { action := .continueParsing }) :=
    enter_fresh s.tr n true hn hstate hnstack (by omega)
  rw [parseStep_obj_eq decls P n ps req s hn hsan he]
  simp only []
  generalize hs1 : afterEnter s n = s1
  have h1stack : s1.tr.stack = s.tr.stack ++ [n] := by rw [← hs1]; rfl
  have h1depth : s1.tr.depth = s.tr.depth + 1 := by rw [← hs1]; rfl
  have h1max : s1.tr.maxDepth = s.tr.maxDepth := by rw [← hs1]; rfl
  have h1cyc : s1.tr.cycles = s.tr.cycles := by rw [← hs1]; rfl
  have h1states : s1.tr.states = dSet n .inProgress s.tr.states := by rw [← hs1]; rfl
  have h1heap : s1.heap = s.heap := by rw [← hs1]; rfl
  have h1reg : s1.reg = s.reg := by rw [← hs1]; rfl
  have h1oom : s1.oom = s.oom := by rw [← hs1]; rfl
  have h1regHas : ∀ k, s1.regHas k = s.regHas k := by intro k; unfold PSt.regHas; rw [h1reg]
  have hw1 : WF decls s1 := WF.congr h1heap h1reg hw
  have hk1 : TK rank s1 (rank n) := by
    refine ⟨by rw [h1cyc]; exact hk.1, ?_, ?_⟩
    · intro m hm
      rw [h1stack] at hm
      rw [h1states]
      rcases List.mem_append.mp hm with h | h
      · have hne : m ≠ n := fun e => hnstack (e ▸ h)
        rw [dGet_dSet_ne _ _ _ _ hne]
        exact hk.2.1 m h
      · simp at h; subst h; exact dGet_dSet_self _ _ _
    · intro m
      rw [h1states, h1regHas]
      by_cases hmn : m = n
      · subst hmn
        exact Or.inr (Or.inr ⟨dGet_dSet_self _ _ _, Nat.le_refl _, hnreg⟩)
      · rw [dGet_dSet_ne _ _ _ _ hmn]
        rcases hk.2.2 m with a | a | ⟨a, b, c⟩
        · exact Or.inl a
        · exact Or.inr (Or.inl a)
        · exact Or.inr (Or.inr ⟨a, by omega, c⟩)
  have hcond : ∀ kv ∈ ps, kv.1 ≠ [] ∧ simpleProp (decls.map (·.1)) kv.2 = true ∧
      (∀ t, kv.2 = .ref t → rank t < rank n) := by
    intro kv hkv
    obtain ⟨a, b⟩ := hprops kv hkv
    exact ⟨a, b, fun t ht => hS.acyclic (n, _) hmem ps req none rfl kv hkv t ht⟩
  obtain ⟨hl1, hl2, hl3⟩ := parseProps_spec decls rank P r hPrim hP n (rank n) (by omega) ps [] [] s1 s1
    hcond (by simpa using hnodup) (Step.refl s1) hw1 hk1 (by rw [h1depth, h1max]; omega) .nil
  generalize hq : parseProps decls P (some n) true ps [] s1 = q at hl1 hl2 hl3
  obtain ⟨fp, se⟩ := q
  simp only [List.nil_append] at hl1 hl2 hl3 ⊢
  -- `n` is still unregistered and in progress
  have hsen : dGet n se.tr.states = some .inProgress := by
    rcases hl1.states n with e | ⟨e, _, _⟩
    · rw [e, h1states]; exact dGet_dSet_self _ _ _
    · rw [h1states, dGet_dSet_self] at e; cases e
  have hnone : dGet n se.reg = none := by
    cases hg : dGet n se.reg with
    | none => rfl
    | some i =>
      have hr' : se.regHas n = true := (regHas_iff_dGet se n).mpr ⟨i, hg⟩
      rcases hl1.regNew n hr' with e | ⟨e, _⟩
      · rw [h1regHas, hnreg] at e; cases e
      · rw [h1states, dGet_dSet_self] at e; cases e
  -- the model object
  have hmk : mkIR { name := some n, type := some sObject, props := fp, required := dedup req } =
      { name := some n, type := some sObject, props := fp, required := dedup req } :=
    mkIR_named n hn hsan _ rfl
  rw [hmk]
  generalize hmodel : ({ name := some n, type := some sObject, props := fp, required := dedup req } : IR) = model
  have hfin : finish decls (some n) (se.alloc model).1 (se.alloc model).2 =
      ((se.alloc model).1, (se.alloc model).2.regSet n (se.alloc model).1) := by
    refine finish_fresh decls n _ _ fp (dedup req) hn hnone ?_ ?_
    · show se.tr.cycles = []
      rw [hl1.cycles, h1cyc]; exact hk.1
    · rw [get_alloc, hmodel]
  rw [hfin]
  simp only []
  have hid : (se.alloc model).1 = se.heap.length := rfl
  rw [hid]
  generalize hsf : ({ ((se.alloc model).2.regSet n se.heap.length).doExit (some n) with
      nest := (((se.alloc model).2.regSet n se.heap.length).doExit (some n)).nest - 1 } : PSt) = sf
  have hftr : sf.tr = Trk.exit se.tr (some n) := by rw [← hsf]; rfl
  have hfheap : sf.heap = se.heap ++ [model] := by rw [← hsf]; rfl
  have hfreg : sf.reg = dSet n se.heap.length se.reg := by rw [← hsf]; rfl
  have hfoom : sf.oom = se.oom := by rw [← hsf]; rfl
  rw [exit_inProgress se.tr n hn hsen] at hftr
  have hfget_old : ∀ i, i < se.heap.length → sf.get i = se.get i := by
    intro i hi
    unfold PSt.get
    rw [hfheap]
    exact getD_append_left _ _ i hi
  have hfget_new : sf.get se.heap.length = model := by
    unfold PSt.get
    rw [hfheap]
    exact getD_append_length _ _
  have hfreg_ne : ∀ k, k ≠ n → dGet k sf.reg = dGet k se.reg := by
    intro k hk'
    rw [hfreg, dGet_dSet_ne _ _ _ _ hk']
  have hfreg_n : dGet n sf.reg = some se.heap.length := by rw [hfreg, dGet_dSet_self]
  have hhs : HStep se sf := by
    refine ⟨?_, by rw [hfheap]; simp, hfget_old, ?_⟩
    · intro k i h
      have : k ≠ n := fun e => by subst e; rw [hnone] at h; cases h
      rw [hfreg_ne k this]; exact h
    · intro k i h
      by_cases e : k = n
      · subst e
        rw [hfreg_n] at h
        cases h
        exact Or.inr (Nat.le_refl _)
      · rw [hfreg_ne k e] at h
        exact Or.inl h
  -- Post
  refine ⟨?_, ?_, hfreg_n⟩
  · -- Step s sf
    refine ⟨?_, ?_, ?_, ?_, ?_, ?_, ?_, ?_, ?_, ?_, ?_⟩
    · rw [hftr]
      show se.tr.stack.erase n = s.tr.stack
      rw [hl1.stack, h1stack, erase_append_self_of_not_mem _ _ hnstack]
    · rw [hftr]
      show se.tr.depth - 1 = s.tr.depth
      rw [hl1.depth, h1depth]; omega
    · rw [hftr]
      show se.tr.maxDepth = s.tr.maxDepth
      rw [hl1.maxDepth, h1max]
    · rw [hftr]
      show se.tr.cycles = s.tr.cycles
      rw [hl1.cycles, h1cyc]
    · intro m
      rw [hftr]
      show dGet m (dSet n .completed se.tr.states) = _ ∨ _
      by_cases hmn : m = n
      · subst hmn
        exact Or.inr ⟨hstate, dGet_dSet_self _ _ _, (regHas_iff_dGet sf m).mpr ⟨_, hfreg_n⟩⟩
      · rw [dGet_dSet_ne _ _ _ _ hmn]
        rcases hl1.states m with e | ⟨e, e', er⟩
        · rw [h1states, dGet_dSet_ne _ _ _ _ hmn] at e
          exact Or.inl e
        · rw [h1states, dGet_dSet_ne _ _ _ _ hmn] at e
          refine Or.inr ⟨e, e', ?_⟩
          obtain ⟨i, hi⟩ := (regHas_iff_dGet se m).mp er
          exact (regHas_iff_dGet sf m).mpr ⟨i, hhs.reg m i hi⟩
    · intro k i h
      rw [← h1reg] at h
      exact hhs.reg k i (hl1.reg k i h)
    · rw [← h1heap]
      exact Nat.le_trans hl1.heapLen hhs.heapLen
    · intro i hi
      rw [← h1heap] at hi
      rw [hhs.heap i (Nat.lt_of_lt_of_le hi hl1.heapLen), hl1.heap i hi]
      unfold PSt.get; rw [h1heap]
    · intro k i h
      rcases hhs.fresh k i h with e | e
      · rcases hl1.fresh k i e with e1 | e1
        · exact Or.inl (by rw [← h1reg]; exact e1)
        · exact Or.inr (by rw [← h1heap]; exact e1)
      · exact Or.inr (by rw [← h1heap]; exact Nat.le_trans hl1.heapLen e)
    · intro k hk'
      by_cases hkn : k = n
      · subst hkn
        right
        refine ⟨hstate, ?_⟩
        rw [hftr]
        exact dGet_dSet_self _ _ _
      · have hke : se.regHas k = true := by
          obtain ⟨i, hi⟩ := (regHas_iff_dGet sf k).mp hk'
          rw [hfreg_ne k hkn] at hi
          exact (regHas_iff_dGet se k).mpr ⟨i, hi⟩
        rcases hl1.regNew k hke with e | ⟨e, e'⟩
        · exact Or.inl (by rw [← h1regHas]; exact e)
        · right
          rw [h1states, dGet_dSet_ne _ _ _ _ hkn] at e
          refine ⟨e, ?_⟩
          rw [hftr]
          show dGet k (dSet n .completed se.tr.states) = _
          rw [dGet_dSet_ne _ _ _ _ hkn]
          exact e'
    · rw [hfoom, hl1.oom, h1oom]
  · -- WF sf
    refine ⟨?_, ?_⟩
    · intro m i hm
      by_cases hmn : m = n
      · subst hmn
        rw [hfreg_n] at hm
        cases hm
        refine ⟨⟨ps, req, fp, hget, by rw [hfget_new, hmodel], ?_⟩, by rw [hfheap]; simp⟩
        exact All2.imp (fun a b hab => FieldOK.step hhs a b hab) hl3
      · rw [hfreg_ne m hmn] at hm
        obtain ⟨h1, h2⟩ := hl2.1 m i hm
        exact ⟨ModelOK.step hhs m i h2 h1, Nat.lt_of_lt_of_le h2 hhs.heapLen⟩
    · intro m m' i h1 h2
      by_cases hmn : m = n
      · by_cases hmn' : m' = n
        · rw [hmn, hmn']
        · subst hmn
          rw [hfreg_n] at h1
          cases h1
          rw [hfreg_ne m' hmn'] at h2
          exact absurd (hl2.1 m' _ h2).2 (Nat.lt_irrefl _)
      · by_cases hmn' : m' = n
        · subst hmn'
          rw [hfreg_n] at h2
          cases h2
          rw [hfreg_ne m hmn] at h1
          exact absurd (hl2.1 m _ h1).2 (Nat.lt_irrefl _)
        · rw [hfreg_ne m hmn] at h1
          rw [hfreg_ne m' hmn'] at h2
          exact hl2.2 m m' i h1 h2

theorem dGet_of_mem_nodup {β : Type} (d : List (Str × β)) (hn : (d.map (·.1)).Nodup) (k : Str) (v : β)
    (h : (k, v) ∈ d) : dGet k d = some v := by
  induction d with
  | nil => cases h
  | cons p tl ih =>
    obtain ⟨k', v'⟩ := p
    simp only [List.map_cons, List.nodup_cons] at hn
    simp only [dGet]
    rcases List.mem_cons.mp h with e | e
    · cases e; simp
    · have hne : ¬ k' = k := by
        intro e'; subst e'
        exact hn.1 (List.mem_map.mpr ⟨(k', v), e, rfl⟩)
      simp only [hne, if_false]
      exact ih hn.2 e

/-! ### induction on the fuel -/

theorem parse_spec (decls : Decls) (rank : Str → Nat) (hS : Simple decls rank) (f : Nat) :
    PrimSpec (parse decls (f + 1)) ∧ SpecP decls rank (parse decls (f + 1)) f := by
  induction f with
  | zero =>
    refine ⟨parseStep_primSpec decls _, ?_⟩
    intro n nd s _ hr
    exact absurd hr (Nat.not_lt_zero _)
  | succ f ih =>
    exact ⟨parseStep_primSpec decls _, parseStep_spec decls rank _ f hS ih.1 ih.2⟩

/-! ### the top-level loop -/

/-- tracker at rest, coherent with the registry -/
def TKtop (s : PSt) : Prop :=
  s.tr.cycles = [] ∧ s.tr.stack = [] ∧
  ∀ m, dGet m s.tr.states = none ∨ (dGet m s.tr.states = some .completed ∧ s.regHas m = true)

theorem TKtop.tk {rank : Str → Nat} {s : PSt} (h : TKtop s) (R : Nat) : TK rank s R := by
  refine ⟨h.1, ?_, ?_⟩
  · intro m hm; rw [h.2.1] at hm; cases hm
  · intro m
    rcases h.2.2 m with a | a
    · exact Or.inl a
    · exact Or.inr (Or.inl a)

theorem TKtop.step {s s' : PSt} (h : TKtop s) (hs : Step s s') : TKtop s' := by
  refine ⟨by rw [hs.cycles]; exact h.1, by rw [hs.stack]; exact h.2.1, ?_⟩
  intro m
  rcases hs.states m with e | ⟨_, e', r⟩
  · rcases h.2.2 m with a | ⟨a, b⟩
    · exact Or.inl (by rw [e]; exact a)
    · exact Or.inr ⟨by rw [e]; exact a, hs.regMono m b⟩
  · exact Or.inr ⟨e', r⟩

theorem buildLoop_spec (decls : Decls) (rank : Str → Nat) (hS : Simple decls rank) (F : Nat)
    (hF : ∀ d ∈ decls, rank d.1 < F) (ds : List (Str × Node)) :
    ∀ s : PSt, (∀ d ∈ ds, d ∈ decls) → WF decls s → TKtop s → s.tr.depth = 0 →
      (∀ d ∈ decls, rank d.1 + 1 ≤ s.tr.maxDepth) →
      Step s (buildLoop decls (F + 1) ds s) ∧ WF decls (buildLoop decls (F + 1) ds s) ∧
      TKtop (buildLoop decls (F + 1) ds s) ∧
      ∀ d ∈ ds, (buildLoop decls (F + 1) ds s).regHas d.1 = true := by
  induction ds with
  | nil =>
    intro s _ hw hk _ _
    exact ⟨Step.refl s, hw, hk, fun d hd => by cases hd⟩
  | cons d rest ih =>
    intro s hsub hw hk hd0 hmd
    obtain ⟨n, nd⟩ := d
    have hmem : (n, nd) ∈ decls := hsub _ (List.mem_cons_self ..)
    obtain ⟨hn, hsan⟩ := hS.name (n, nd) hmem
    have hsan' : sanClass n = n := hsan
    have hrest : ∀ d ∈ rest, d ∈ decls := fun d hd => hsub d (List.mem_cons_of_mem _ hd)
    simp only [buildLoop, hsan', Bool.and_self]
    split
    · rename_i hcond
      have hnreg : s.regHas n = false := by
        cases h : s.regHas n with
        | false => rfl
        | true => simp [h] at hcond
      have hget : dGet n decls = some nd := dGet_of_mem_nodup decls hS.nodup n nd hmem
      have hpre : Pre decls rank s n :=
        ⟨hw, hk.tk _, hnreg, by have := hmd (n, nd) hmem; simp only at this; omega⟩
      obtain ⟨h1, h2, h3⟩ := (parse_spec decls rank hS F).2 n nd s hget (hF (n, nd) hmem) hpre
      have hk1 := hk.step h1
      obtain ⟨i1, i2, i3, i4⟩ := ih _ hrest h2 hk1 (by rw [h1.depth]; exact hd0)
        (by rw [h1.maxDepth]; exact hmd)
      refine ⟨Step.trans h1 i1, i2, i3, ?_⟩
      intro d hd
      rcases List.mem_cons.mp hd with e | e
      · subst e
        exact i1.regMono _ ((regHas_iff_dGet _ _).mpr ⟨_, h3⟩)
      · exact i4 d e
    · rename_i hcond
      obtain ⟨i1, i2, i3, i4⟩ := ih s hrest hw hk hd0 hmd
      refine ⟨i1, i2, i3, ?_⟩
      intro d hd
      rcases List.mem_cons.mp hd with e | e
      · subst e
        have : s.regHas n = true := by
          cases h : s.regHas n with
          | true => rfl
          | false => simp [h] at hcond
        exact i1.regMono _ this
      · exact i4 d e

/-! ### reading the result: `WF` gives `Faithful` -/

theorem mem_unionInto (acc xs : List Str) (k : Str) : k ∈ unionInto acc xs ↔ k ∈ acc ∨ k ∈ xs := by
  induction xs generalizing acc with
  | nil => simp [unionInto]
  | cons x xs ih =>
    simp only [unionInto, List.foldl_cons] at ih ⊢
    rw [ih]
    by_cases hx : acc.contains x = true
    · have hxm : x ∈ acc := List.contains_iff_mem.mp hx
      simp only [hx, if_true, List.mem_cons]
      constructor
      · rintro (h | h)
        · exact Or.inl h
        · exact Or.inr (Or.inr h)
      · rintro (h | h | h)
        · exact Or.inl h
        · exact Or.inl (h ▸ hxm)
        · exact Or.inr h
    · simp only [hx, if_false, List.mem_cons, List.mem_append, Bool.false_eq_true,
        List.not_mem_nil, or_false]
      constructor
      · rintro ((h | h) | h)
        · exact Or.inl h
        · exact Or.inr (Or.inl h)
        · exact Or.inr (Or.inr h)
      · rintro (h | h | h)
        · exact Or.inl (Or.inl h)
        · exact Or.inl (Or.inr h)
        · exact Or.inr h

theorem dedup_contains (xs : List Str) (k : Str) : (dedup xs).contains k = xs.contains k := by
  have h : k ∈ dedup xs ↔ k ∈ xs := by
    unfold dedup
    rw [mem_unionInto]
    simp
  cases h1 : (dedup xs).contains k with
  | true =>
    have := h.mp (List.contains_iff_mem.mp h1)
    exact (List.contains_iff_mem.mpr this).symm
  | false =>
    cases h2 : xs.contains k with
    | false => rfl
    | true =>
      have := h.mpr (List.contains_iff_mem.mp h2)
      rw [List.contains_iff_mem.mpr this] at h1
      cases h1

theorem mergeKeyed_append {β : Type} (b a : List (Str × β))
    (hb : (b.map (·.1)).Nodup) (hd : ∀ k ∈ b.map (·.1), k ∉ a.map (·.1)) : mergeKeyed a b = a ++ b := by
  induction b generalizing a with
  | nil => simp [mergeKeyed]
  | cons kv b ih =>
    simp only [List.map_cons, List.nodup_cons] at hb
    have hnot : dHas kv.1 a = false := by
      rw [dHas_iff_contains]
      cases hc : (a.map (·.1)).contains kv.1 with
      | false => rfl
      | true => exact absurd (List.contains_iff_mem.mp hc) (hd kv.1 (by simp))
    have : mergeKeyed a (kv :: b) = mergeKeyed (a ++ [kv]) b := by
      simp [mergeKeyed, hnot]
    rw [this, ih (a ++ [kv]) hb.2]
    · simp
    · intro k hk
      simp only [List.map_append, List.map_cons, List.map_nil, List.mem_append, List.mem_singleton, not_or]
      refine ⟨hd k (by simp [hk]), ?_⟩
      intro e; subst e; exact hb.1 hk

theorem sanClass_of_declared (decls : Decls) (rank : Str → Nat) (hS : Simple decls rank) (m : Str)
    (hm : m ∈ decls.map (·.1)) : sanClass m = m := by
  obtain ⟨d, hd, rfl⟩ := List.mem_map.mp hm
  exact (hS.name d hd).2

theorem lookup_declared (decls : Decls) (rank : Str → Nat) (hS : Simple decls rank) (s : PSt) (m : Str)
    (hm : m ∈ decls.map (·.1)) : s.lookup m = dGet m s.reg := by
  unfold PSt.lookup
  rw [sanClass_of_declared decls rank hS m hm]
  cases dGet m s.reg <;> rfl

theorem irKind_prim (decls : Decls) (rank : Str → Nat) (hS : Simple decls rank) (s : PSt) (k : Str) (ty : PrimTy)
    (pid f : Nat) (h : PrimOK s k ty pid) : irKind decls s (f + 1) pid = .prim ty := by
  have hdecl : declNameOf decls s pid = none := by
    unfold declNameOf
    rw [List.find?_eq_none]
    intro m hm
    rw [lookup_declared decls rank hS s m hm]
    intro hcontra
    have : dGet m s.reg = some pid := by simpa using hcontra
    exact h.2.2 m pid this rfl
  unfold irKind
  simp only [h.2.1, hdecl]
  cases ty <;> rfl

theorem irKind_ref (decls : Decls) (rank : Str → Nat) (hS : Simple decls rank) (s : PSt) (hw : WF decls s) (t : Str)
    (pid f : Nat) (ht : t ∈ decls.map (·.1)) (h : dGet t s.reg = some pid) :
    irKind decls s (f + 1) pid = .ref t := by
  obtain ⟨⟨ps, req, fp, _, hget, _⟩, _⟩ := hw.1 t pid h
  have hdecl : declNameOf decls s pid = some t := by
    unfold declNameOf
    cases hf : (decls.map (·.1)).find? (fun n => s.lookup n == some pid) with
    | none =>
      rw [List.find?_eq_none] at hf
      have := hf t ht
      rw [lookup_declared decls rank hS s t ht, h] at this
      simp at this
    | some t' =>
      have hmem := List.mem_of_find?_eq_some hf
      have hp := List.find?_some hf
      rw [lookup_declared decls rank hS s t' hmem] at hp
      have : dGet t' s.reg = some pid := by simpa using hp
      rw [hw.2 t' t pid this h]
  unfold irKind
  simp only [hget, hdecl]
  simp [IR.kind, sanClass_of_declared decls rank hS t ht]

theorem field_faithful (decls : Decls) (rank : Str → Nat) (hS : Simple decls rank) (s : PSt) (hw : WF decls s)
    (kv : Str × Node) (e : Str × Nat) (hsimple : simpleProp (decls.map (·.1)) kv.2 = true)
    (h : FieldOK s kv e) (f : Nat) : e.1 = kv.1 ∧ irKind decls s (f + 1) e.2 = nodeKind kv.2 := by
  refine ⟨h.1, ?_⟩
  rcases simpleProp_cases _ kv.2 hsimple with ⟨ty, hty⟩ | ⟨t, ht, hmem, hno, _⟩
  · have h2 := h.2
    rw [hty] at h2 ⊢
    exact irKind_prim decls rank hS s kv.1 ty e.2 f h2
  · have h2 := h.2
    rw [ht] at h2 ⊢
    rw [irKind_ref decls rank hS s hw t e.2 f hmem h2]
    simp [nodeKind, lastSeg_of_no_slash t hno, sanClass_of_declared decls rank hS t hmem]

theorem fields_faithful (decls : Decls) (rank : Str → Nat) (hS : Simple decls rank) (s : PSt) (hw : WF decls s)
    (req : List Str) (f : Nat) :
    ∀ (ps : List (Str × Node)) (fp : List (Str × Nat)),
      (∀ kv ∈ ps, simpleProp (decls.map (·.1)) kv.2 = true) → All2 (FieldOK s) ps fp →
      fp.map (fun e => (⟨e.1, (dedup req).contains e.1, irKind decls s (f + 1) e.2⟩ : Field)) =
      ps.map (fun kv => (⟨kv.1, req.contains kv.1, nodeKind kv.2⟩ : Field)) := by
  intro ps fp hs hall
  induction hall with
  | nil => rfl
  | @cons a b l l' hab _ ih =>
    obtain ⟨h1, h2⟩ := field_faithful decls rank hS s hw a b (hs a (List.mem_cons_self ..)) hab f
    simp only [List.map_cons]
    rw [ih (fun kv hkv => hs kv (List.mem_cons_of_mem _ hkv)), h1, h2, dedup_contains]

theorem faithful_of_WF (decls : Decls) (rank : Str → Nat) (hS : Simple decls rank) (s : PSt) (hw : WF decls s)
    (n : Str) (i : Nat) (h : dGet n s.reg = some i) : Faithful decls s n := by
  obtain ⟨⟨ps, req, fp, hget, hobj, hall⟩, _⟩ := hw.1 n i h
  have hmemd := mem_of_dGet decls n _ hget
  obtain ⟨ps', req', hnd, hprops, hnodup⟩ := simpleNode_inv _ _ (hS.node (n, _) hmemd)
  cases hnd
  have hlook : s.lookup n = some i := by simp [PSt.lookup, h]
  have hspec : specFields decls n = ps.map (fun kv => (⟨kv.1, req.contains kv.1, nodeKind kv.2⟩ : Field)) := by
    unfold specFields
    rw [hget]
    have hfuel : specFuel decls = (specFuel decls - 1) + 1 := by unfold specFuel; omega
    simp only []
    rw [hfuel]
    simp only [shape, Node.core]
    rw [mergeKeyed_append _ [] (by simpa [List.map_map, Function.comp_def] using hnodup) (by simp)]
    simp [List.map_map]
  have hmodel : modelFields decls s n =
      some (fp.map (fun e => (⟨e.1, (dedup req).contains e.1, irKind decls s 6 e.2⟩ : Field))) := by
    unfold modelFields
    rw [hlook]
    simp only [hobj]
  refine ⟨_, hmodel, ?_, ?_⟩
  · intro id hid
    rw [hlook] at hid
    cases hid
    rw [hobj]
    rfl
  · intro f
    rw [hspec, fields_faithful decls rank hS s hw req 5 ps fp (fun kv hkv => (hprops kv hkv).2) hall]

/-- the whole of `build_schemas` on the fragment -/
theorem buildSchemas_faithful (decls : Decls) (rank : Str → Nat) (hS : Simple decls rank) (maxDepth F : Nat)
    (hF : ∀ d ∈ decls, rank d.1 < F) (hD : ∀ d ∈ decls, rank d.1 + 1 ≤ maxDepth) :
    (buildSchemas maxDepth (F + 1) decls).oom = false ∧ missing decls (buildSchemas maxDepth (F + 1) decls) = [] ∧
    ∀ d ∈ decls, Faithful decls (buildSchemas maxDepth (F + 1) decls) d.1 := by
  have hw0 : WF decls ({ tr := { maxDepth := maxDepth } } : PSt) :=
    ⟨fun m i h => by simp [dGet] at h, fun m m' i h => by simp [dGet] at h⟩
  have hk0 : TKtop ({ tr := { maxDepth := maxDepth } } : PSt) :=
    ⟨rfl, rfl, fun m => Or.inl (by simp [dGet])⟩
  obtain ⟨h1, h2, _, h4⟩ := buildLoop_spec decls rank hS F hF decls _ (fun _ h => h) hw0 hk0 rfl hD
  refine ⟨by unfold buildSchemas; rw [h1.oom], ?_, ?_⟩
  · unfold missing
    rw [List.filter_eq_nil_iff]
    intro n hn
    obtain ⟨d, hd, rfl⟩ := List.mem_map.mp hn
    unfold buildSchemas
    simp [h4 d hd]
  · intro d hd
    obtain ⟨i, hi⟩ := (regHas_iff_dGet _ _).mp (h4 d hd)
    exact faithful_of_WF decls rank hS _ h2 d.1 i hi

/-! ### the fragment is closed under re-ordering the declarations -/

theorem simpleProp_congr (names names' : List Str) (h : ∀ t, t ∈ names ↔ t ∈ names') (p : Node) :
    simpleProp names p = simpleProp names' p := by
  cases p with
  | ref t =>
    have : names.contains t = names'.contains t := by
      cases h1 : names.contains t with
      | true => exact (List.contains_iff_mem.mpr ((h t).mp (List.contains_iff_mem.mp h1))).symm
      | false =>
        cases h2 : names'.contains t with
        | false => rfl
        | true =>
          rw [List.contains_iff_mem.mpr ((h t).mpr (List.contains_iff_mem.mp h2))] at h1
          cases h1
    simp only [simpleProp, this]
  | prim _ e => cases e <;> rfl
  | obj _ _ _ => rfl
  | arr _ => rfl
  | allOf _ _ _ => rfl
  | oneOf _ => rfl
  | anyOf _ => rfl
  | nullable _ => rfl

theorem simpleNode_congr (names names' : List Str) (h : ∀ t, t ∈ names ↔ t ∈ names') (nd : Node) :
    simpleNode names nd = simpleNode names' nd := by
  cases nd with
  | obj props req ap =>
    cases props with
    | none => rfl
    | some ps =>
      cases ap with
      | some a => rfl
      | none =>
        simp only [simpleNode]
        congr 2
        funext kv
        rw [simpleProp_congr names names' h]
  | ref _ => rfl
  | prim _ _ => rfl
  | arr _ => rfl
  | allOf _ _ _ => rfl
  | oneOf _ => rfl
  | anyOf _ => rfl
  | nullable _ => rfl

theorem Simple.perm {d d' : Decls} {rank : Str → Nat} (hS : Simple d rank) (hp : d.Perm d') : Simple d' rank where
  nodup := (hp.map (·.1)).nodup_iff.mp hS.nodup
  node := by
    intro x hx
    rw [← simpleNode_congr (d.map (·.1)) (d'.map (·.1)) (fun t => (hp.map (·.1)).mem_iff)]
    exact hS.node x (hp.mem_iff.mpr hx)
  name := fun x hx => hS.name x (hp.mem_iff.mpr hx)
  acyclic := fun x hx => hS.acyclic x (hp.mem_iff.mpr hx)

end Pog.Prs
