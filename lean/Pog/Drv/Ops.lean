import Pog.Drv.Util
import Pog.Model.Ops
/-
  JSON glue for `Pog.Model.Ops`.

    deriveOpId   [method, path]                       → str
    chooseOpId   [strategy, METHOD, path, id|null]    → str
    httpMethods  []                                   → [str]
    skipKeys     []                                   → [str]
    parseOps     [strategy, paths]                    → {"ops": [[path, METHOD, opId, [tags]]…],
                                                         "warnings": n, "warns": [[METHOD, path, reason]…],
                                                         "pairs": [[path, METHOD]…]}
    finalMethodNames [direct, [opId…]]                → [str]
    clients      [strategy, direct, paths]            → [[tagKey, [methodName…]]…]

  strategy = "operationId" | "clean" | "path"
  paths    = [[path, [[key, op]…]]…]
  op       = {"operationId": str|null, "tags": null | [str…] | str, "responses": [{"s": str} | {"i": int}…],
              "raises": bool}
-/
open Lean Pog Pog.Drv
namespace Pog.Drv

private def opsFns : List String :=
  ["deriveOpId", "chooseOpId", "httpMethods", "skipKeys", "parseOps", "finalMethodNames", "clients"]

private def getNaming (j : Json) : Except String Ops.Naming := do
  match (← j.getStr?) with
  | "operationId" => pure .operationId
  | "clean" => pure .clean
  | "path" => pure .path
  | s => throw s!"unknown naming strategy {s}"

private def getStatusKey (j : Json) : Except String Ops.StatusKey :=
  match j.getObjVal? "s" with
  | .ok s => do pure (.strKey (← getStr s))
  | .error _ =>
    match j.getObjVal? "i" with
    | .ok i => do pure (.intKey (← getInt i))
    | .error _ => do pure (.badKey (← getStr (← j.getObjVal? "b")))

private def getTags (j : Json) : Except String Ops.RawTags :=
  match j with
  | .null => pure .absent
  | .str s => pure (.str s.toList)
  | _ => do pure (.list (← getStrs j))

private def getRawOp (j : Json) : Except String Ops.RawOp := do
  let idj := (j.getObjVal? "operationId").toOption.getD Json.null
  let opId ← if idj.isNull then pure none else do pure (some (← getStr idj))
  let tags ← getTags ((j.getObjVal? "tags").toOption.getD Json.null)
  let resps ← match j.getObjVal? "responses" with
    | .ok r => getList getStatusKey r
    | .error _ => pure []
  let raises ← match j.getObjVal? "raises" with
    | .ok b => getBool b
    | .error _ => pure false
  pure { operationId := opId, tags := tags, responses := resps, parseRaises := raises }

private def getEntry (j : Json) : Except String (Str × Ops.RawOp) := do
  let a ← j.getArr?
  pure (← getStr (← argN a 0), ← getRawOp (← argN a 1))

private def getPathItem (j : Json) : Except String (Str × Ops.PathItem) := do
  let a ← j.getArr?
  pure (← getStr (← argN a 0), ← getList getEntry (← argN a 1))

private def jreason : Ops.DropReason → Json
  | .other => Json.str "other"
  | .codeNotStr => Json.str "codeNotStr"
  | .emptyOpId => Json.str "emptyOpId"

private def jop (o : Ops.IROp) : Json := Json.arr #[jstr o.path, jstr o.method, jstr o.opId, jstrs o.tags]

private def opsRun (f : String) (a : Array Json) (u : UInfo) : Except String Json := do
  match f with
  | "deriveOpId" => pure (jstr (Ops.deriveOpId u (← getStr (← argN a 0)) (← getStr (← argN a 1))))
  | "chooseOpId" =>
    let idj ← argN a 3
    let declared ← if idj.isNull then pure none else do pure (some (← getStr idj))
    pure (jstr (Ops.chooseOpId (← getNaming (← argN a 0)) (← getStr (← argN a 1)) (← getStr (← argN a 2)) declared))
  | "httpMethods" => pure (jstrs Ops.httpMethods)
  | "skipKeys" => pure (jstrs Ops.skipKeys)
  | "parseOps" =>
    let s ← getNaming (← argN a 0)
    let paths ← getList getPathItem (← argN a 1)
    let r := Ops.parseOps u s paths
    pure (Json.mkObj [
      ("ops", jlist jop r.1),
      ("warnings", jnat r.2.length),
      ("warns", jlist (fun w => Json.arr #[jstr w.method, jstr w.path, jreason w.reason]) r.2),
      ("pairs", jlist (fun p => Json.arr #[jstr p.1, jstr p.2]) (Ops.allPairs u paths))])
  | "finalMethodNames" =>
    let direct ← getBool (← argN a 0)
    let ids ← getStrs (← argN a 1)
    pure (jstrs (Ops.finalMethodNames direct (ids.map (fun i => ⟨[], [], i, []⟩))))
  | "clients" =>
    let s ← getNaming (← argN a 0)
    let direct ← getBool (← argN a 1)
    let paths ← getList getPathItem (← argN a 2)
    let ops := (Ops.parseOps u s paths).1
    pure (jlist (fun c => Json.arr #[jstr c.1, jstrs c.2]) (Ops.clients u direct ops))
  | _ => throw s!"unknown function {f}"

def dispatchOps : Dispatch := fun f a u =>
  if opsFns.contains f then some (opsRun f a u) else none

end Pog.Drv
