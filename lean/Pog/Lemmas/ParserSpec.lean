import Pog.Model.ParserSpec
import Pog.Lemmas.Tracker
/-
  Lemmas for C02 / C19: the denotation `specFields` does not depend on the declaration order, and
  `_parse_properties` produces exactly one entry per declared (non-empty, first-occurrence) key.
-/
namespace Pog.Prs
open Pog Pog.Trk

/-! ### `dGet` and permutations -/

theorem dGet_eq_none_of_not_mem {β : Type} (k : Str) (d : List (Str × β)) (h : k ∉ d.map (·.1)) :
    dGet k d = none := by
  induction d with
  | nil => rfl
  | cons p rest ih =>
    obtain ⟨k', v⟩ := p
    simp only [List.map_cons, List.mem_cons, not_or] at h
    simp only [dGet]
    rw [if_neg (fun e => h.1 e.symm)]
    exact ih h.2

theorem dGet_perm {β : Type} {d d' : List (Str × β)} (hp : d.Perm d') (hn : (d.map (·.1)).Nodup)
    (k : Str) : dGet k d = dGet k d' := by
  induction hp with
  | nil => rfl
  | cons x _ ih =>
    obtain ⟨k', v⟩ := x
    simp only [List.map_cons, List.nodup_cons] at hn
    simp only [dGet]
    split
    · rfl
    · exact ih hn.2
  | swap x y l =>
    obtain ⟨kx, vx⟩ := x
    obtain ⟨ky, vy⟩ := y
    simp only [List.map_cons, List.nodup_cons, List.mem_cons, not_or] at hn
    simp only [dGet]
    by_cases h1 : ky = k
    · by_cases h2 : kx = k
      · exact absurd (h1.trans h2.symm) hn.1.1
      · simp [h1, h2]
    · by_cases h2 : kx = k
      · simp [h1, h2]
      · simp [h1, h2]
  | trans h1 _ ih1 ih2 =>
    rw [ih1 hn]
    exact ih2 ((h1.map (·.1)).nodup_iff.mp hn)

/-! ### `shape` only reads the declarations through `dGet` -/

theorem shape_congr (d d' : Decls) (h : ∀ k, dGet k d = dGet k d') :
    ∀ (f : Nat) (vis : List Str) (node : Node), shape d f vis node = shape d' f vis node := by
  intro f
  induction f with
  | zero => intro vis node; rfl
  | succ f ih =>
    intro vis node
    simp only [shape]
    split
    · split
      · rfl
      · rw [h]
        split
        · exact ih _ _
        · rfl
    · rfl
    · rfl
    · have : (fun n => shape d f vis n) = (fun n => shape d' f vis n) := funext (ih vis)
      simp only [this]
    · rfl

theorem specFuel_perm {d d' : Decls} (hp : d.Perm d') : specFuel d = specFuel d' := by
  unfold specFuel
  rw [(hp.map _).sum_nat]

theorem specFields_perm {d d' : Decls} (hp : d.Perm d') (hn : (d.map (·.1)).Nodup) (n : Str) :
    specFields d n = specFields d' n := by
  have hg : ∀ k, dGet k d = dGet k d' := dGet_perm hp hn
  unfold specFields
  rw [hg n, specFuel_perm hp]
  split
  · rfl
  · rw [shape_congr d d' hg]

/-! ### the keys of `_parse_properties` -/

/-- the keys a property list declares: non-empty, first occurrence only, in document order, after
    the keys already merged in from `allOf` -/
def declaredKeys (ps : List (Str × Node)) (init : List Str) : List Str :=
  ps.foldl (fun ks kv => if kv.1.isEmpty || ks.contains kv.1 then ks else ks ++ [kv.1]) init

theorem dHas_iff_contains {β : Type} (k : Str) (d : List (Str × β)) :
    dHas k d = (d.map (·.1)).contains k := by
  induction d with
  | nil => rfl
  | cons p rest ih =>
    obtain ⟨k', v⟩ := p
    simp only [dHas, dGet, List.map_cons, List.contains_cons]
    by_cases h : k' = k
    · subst h; simp
    · have h' : (k == k') = false := by simp; exact fun e => h e.symm
      simp only [h, if_false, h', Bool.false_or]
      exact ih

theorem map_fst_dSet_of_not_has {β : Type} (k : Str) (v : β) (d : List (Str × β)) (h : dHas k d = false) :
    (dSet k v d).map (·.1) = d.map (·.1) ++ [k] := by
  induction d with
  | nil => rfl
  | cons p rest ih =>
    obtain ⟨k', v'⟩ := p
    have hne : ¬ k' = k := by
      intro e; subst e; simp [dHas, dGet] at h
    have hrest : dHas k rest = false := by
      simpa [dHas, dGet, hne] using h
    simp [dSet, hne, ih hrest]

theorem parseProps_keys (decls : Decls) (P : PFn) (parent : Option Str) (allow : Bool)
    (ps : List (Str × Node)) : ∀ (acc : List (Str × Nat)) (s : PSt),
    (parseProps decls P parent allow ps acc s).1.map (·.1) = declaredKeys ps (acc.map (·.1)) := by
  induction ps with
  | nil => intro acc s; rfl
  | cons kv rest ih =>
    intro acc s
    obtain ⟨k, p⟩ := kv
    simp only [parseProps, declaredKeys, List.foldl_cons]
    rw [← dHas_iff_contains]
    split
    · exact ih _ _
    · rename_i h
      rw [ih]
      have hh : dHas k acc = false := by
        cases hd : dHas k acc with
        | false => rfl
        | true => simp [hd] at h
      rw [map_fst_dSet_of_not_has _ _ _ hh]
      rfl

end Pog.Prs
