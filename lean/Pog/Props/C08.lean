import Pog.Lemmas.Tracker
import Pog.Lemmas.Parser
import Pog.Lemmas.ParserNames
/-
  C08 — loading terminates, the cycle tracker returns to rest, every declared name is present.

  PART 1 (this section): the tracker `unified_cycle_detection.py` in isolation (M-tracker).

    tracker_bracket                      full     any state, any parser-shaped event word
    tracker_bracket_depth_eq             full     Dyck words restore the depth exactly
    stack_nodup                          full     ANY event sequence keeps the stack duplicate-free
    depth_saturates / exit_depth         full     `if recursion_depth > 0` : exit never goes below 0
    depth_cut                            full     named enter at depth ≥ max_depth ⇒ depth placeholder
    depth_cut_restores                   partial  (name not on the stack) enter·exit is the identity
                                                  on depth and stack
    depth_cut_not_applied_to_known       full     COMPLETED / PLACEHOLDER names bypass the depth test
    rest_state_after_word                full     rest ⟶ shaped word ⟶ rest
    ✗ depth_cut_corrupts_counterexample        the depth placeholder for a name that is IN PROGRESS
                                               pops the outer entry and overwrites its state
    ✗ cycle_exit_pops_outer_counterexample     the balancing exit after a cycle placeholder removes
                                               the OUTER stack entry and marks it COMPLETED
    ✗ fallthrough_loses_depth_counterexample   the RETURN_EXISTING fall-through exits twice: net −1
    ✗ empty_name_left_in_progress_counterexample   `""` is entered but never completed
-/
namespace Pog.C08
open Pog Pog.Trk

/-- `tracker_bracket`.  For EVERY tracker state and every event word of the shape `_parse_schema`
    emits (`Shaped`: CONTINUE bodies closed by one exit, non-CONTINUE answers closed immediately,
    and the RETURN_EXISTING fall-through that exits twice):
    the depth does not grow, the stack only loses elements (it is a sublist of the initial one and
    stays duplicate-free), no truthy name entered in the word is left IN_PROGRESS, and names that
    are not entered keep their state. -/
theorem tracker_bracket (s : TrSt) (w : List Ev) (hw : Shaped w) :
    (runEvs s w).depth ≤ s.depth ∧
    (runEvs s w).stack.Sublist s.stack ∧
    (s.stack.Nodup → (runEvs s w).stack.Nodup) ∧
    (∀ n ∈ entered w, n ≠ [] → dGet n (runEvs s w).states ≠ some .inProgress) ∧
    (∀ n, n ∉ entered w → dGet n (runEvs s w).states = dGet n s.states) :=
  ⟨shaped_depth_le hw s, shaped_stack_sublist hw s, runEvs_stack_nodup w s,
   fun n hn hne => (shaped_states hw s n).2 hn hne, fun n hn => (shaped_states hw s n).1 hn⟩

example : Shaped [.enter (some "A".toList) true .continueParsing,
    .enter (some "A".toList) true .createPlaceholder, .exit (some "A".toList),
    .enter (some "B".toList) true .returnExisting, .exit (some "B".toList), .reset "B".toList,
    .enter none true .continueParsing, .exit none, .exit (some "B".toList),
    .exit (some "A".toList)] :=
  .cont _ _ [_, _, _, _, _, _, _, _] [] (.stop _ _ _ _ (by decide)
    (.fall (some "B".toList) true [_, _] [] (.cont _ _ [] [] .nil .nil) .nil)) .nil

/-- On Dyck words proper (one exit per enter) the depth is restored exactly. -/
theorem tracker_bracket_depth_eq (s : TrSt) (w : List Ev) (hw : WellBracketed w) :
    (runEvs s w).depth = s.depth :=
  wellBracketed_depth_eq hw s

/-- `stack_nodup`: whatever events arrive, in whatever order, the stack never holds a name twice
    (a name is pushed only when `schema_name in schema_stack` was false). -/
theorem stack_nodup (s : TrSt) (w : List Ev) (h : s.stack.Nodup) : (runEvs s w).stack.Nodup :=
  runEvs_stack_nodup w s h

/-- `depth_never_negative` is built into the model's `Nat`; what the guard
    `if context.recursion_depth > 0` does is that an exit at depth 0 is absorbed. -/
theorem depth_saturates (s : TrSt) (n : Option Str) (h : s.depth = 0) : (exit s n).depth = 0 := by
  rw [exit_depth, h]

theorem exit_depth (s : TrSt) (n : Option Str) : (exit s n).depth = s.depth - 1 := Trk.exit_depth s n

theorem enter_depth (s : TrSt) (n : Option Str) (a : Bool) : (enter s n a).1.depth = s.depth + 1 :=
  Trk.enter_depth s n a

/-- `depth_cut`: entering a named schema that is neither COMPLETED nor a placeholder while
    `recursion_depth ≥ max_depth` answers CREATE_PLACEHOLDER with a depth placeholder that is
    written to `parsed_schemas[name]`; depth is incremented as for every enter, the stack and every
    other name's state are untouched, the name itself becomes PLACEHOLDER_DEPTH. -/
theorem depth_cut (s : TrSt) (n : Str) (a : Bool) (hd : s.maxDepth ≤ s.depth)
    (hst : s.stateOf n = .notStarted ∨ s.stateOf n = .inProgress) :
    (enter s (some n) a).2.action = .createPlaceholder ∧
    (enter s (some n) a).2.placeholder = some .depth ∧
    (enter s (some n) a).2.stored = true ∧
    (enter s (some n) a).1.stack = s.stack ∧
    (enter s (some n) a).1.depth = s.depth + 1 ∧
    dGet n (enter s (some n) a).1.states = some .phDepth ∧
    ∀ m, m ≠ n → dGet m (enter s (some n) a).1.states = dGet m s.states := by
  have hc : check { s with allowSelf := a, depth := s.depth + 1 } n =
      ({ s with allowSelf := a, depth := s.depth + 1,
                depthExceeded := if s.depthExceeded.contains n then s.depthExceeded
                                 else s.depthExceeded ++ [n],
                states := dSet n .phDepth s.states, cycleDetected := true },
       { action := .createPlaceholder, placeholder := some .depth, stored := true }) := by
    have hgt : s.depth + 1 > s.maxDepth := by omega
    unfold check
    have hso : TrSt.stateOf { s with allowSelf := a, depth := s.depth + 1 } n = s.stateOf n := rfl
    rcases hst with h | h <;> simp [hso, h, hgt]
  unfold enter
  simp only [hc]
  refine ⟨by simp, by simp, by simp, by simp, by simp, ?_, ?_⟩
  · simp [dGet_dSet_self]
  · intro m hm
    simp [dGet_dSet_ne _ _ _ _ hm]

example : let s : TrSt := { depth := 3, maxDepth := 3 }
    s.maxDepth ≤ s.depth ∧ s.stateOf "Node".toList = .notStarted := by decide

/-- … and when the name is not on the stack, the balancing exit undoes the enter completely
    (depth and stack), leaving only the PLACEHOLDER_DEPTH mark. -/
theorem depth_cut_restores (s : TrSt) (n : Str) (a : Bool) (hd : s.maxDepth ≤ s.depth)
    (hst : s.stateOf n = .notStarted ∨ s.stateOf n = .inProgress) (hns : n ∉ s.stack) :
    (exit (enter s (some n) a).1 (some n)).depth = s.depth ∧
    (exit (enter s (some n) a).1 (some n)).stack = s.stack ∧
    dGet n (exit (enter s (some n) a).1 (some n)).states = some .phDepth := by
  obtain ⟨_, _, _, hstack, hdepth, hstate, _⟩ := depth_cut s n a hd hst
  refine ⟨by rw [Trk.exit_depth, hdepth]; omega, ?_, ?_⟩
  · rw [exit_stack_some, hstack]
    split
    · rfl
    · exact List.erase_of_not_mem hns
  · unfold exit
    simp only []
    split
    · exact hstate
    · split
      · rename_i h
        rw [hstate] at h
        simp at h
      · exact hstate

/-- A COMPLETED name (or one that already is a placeholder) is answered before the depth test is
    reached: no depth limit applies to it. -/
theorem depth_cut_not_applied_to_known (s : TrSt) (n : Str) (a : Bool) :
    (s.stateOf n = .completed → (enter s (some n) a).2.action = .returnExisting) ∧
    (s.stateOf n = .phCycle ∨ s.stateOf n = .phDepth ∨ s.stateOf n = .phSelfRef →
        (enter s (some n) a).2.action = .returnPlaceholder) := by
  have hso : TrSt.stateOf { s with allowSelf := a, depth := s.depth + 1 } n = s.stateOf n := rfl
  constructor
  · intro h
    unfold enter check
    simp [hso, h]
  · intro h
    unfold enter check
    rcases h with h | h | h <;> simp [hso, h]

/-- ✗ "no state corruption" fails when the name that hits the depth limit is itself IN PROGRESS
    further down the stack: the balancing exit removes the OUTER entry from the stack and the
    outer schema's state is now PLACEHOLDER_DEPTH for the rest of the load. -/
theorem depth_cut_corrupts_counterexample :
    let A := "A".toList; let B := "B".toList
    let s : TrSt := { stack := [A, B], states := [(A, .inProgress), (B, .inProgress)],
                      depth := 2, maxDepth := 2 }
    let s' := exit (enter s (some A) false).1 (some A)
    (enter s (some A) false).2.action = .createPlaceholder ∧
    (enter s (some A) false).2.placeholder = some .depth ∧
    s'.stack = [B] ∧ s'.depth = 2 ∧ dGet A s'.states = some .phDepth := by
  decide

/-- ✗ The same for cycle placeholders that are not stored: `A → B → A`.  The re-entrant `A` gets a
    placeholder (CREATE_PLACEHOLDER, not stored: no heuristic fires), but the balancing
    `unified_exit_schema("A")` removes the outer `A` from the stack *by value* and, since its state
    is still IN_PROGRESS, marks it COMPLETED while its body is still being parsed. -/
theorem cycle_exit_pops_outer_counterexample :
    let A := "A".toList; let B := "B".toList
    let s : TrSt := { stack := [A, B], states := [(A, .inProgress), (B, .inProgress)], depth := 2 }
    let r := enter s (some A) false
    let s' := exit r.1 (some A)
    r.2.action = .createPlaceholder ∧ r.2.placeholder = some .cycle ∧ r.2.stored = false ∧
    s'.stack = [B] ∧ dGet A s'.states = some .completed ∧ s'.depth = 2 := by
  decide

/-- … whereas a DIRECT self reference is stored (state PLACEHOLDER_CYCLE, or PLACEHOLDER_SELF_REF
    when `allow_self_reference`), and so is `User → UserGroup → User`, because
    `"UserGroup".startswith("User")` trips `is_nested_property_self_ref`. -/
theorem store_policy_examples :
    let s1 : TrSt := { stack := ["A".toList], states := [("A".toList, .inProgress)], depth := 1 }
    let s2 : TrSt := { stack := ["User".toList, "UserGroup".toList],
                       states := [("User".toList, .inProgress), ("UserGroup".toList, .inProgress)],
                       depth := 2 }
    let s3 : TrSt := { stack := ["Tree".toList, "TreeChildrenItem".toList],
                       states := [("Tree".toList, .inProgress)], depth := 2 }
    (enter s1 (some "A".toList) false).2 =
        { action := .createPlaceholder, placeholder := some .cycle, stored := true,
          info := some ⟨"A".toList, ["A".toList, "A".toList], true, 1⟩ } ∧
    (enter s1 (some "A".toList) true).2.placeholder = some .selfRef ∧
    dGet "A".toList (enter s1 (some "A".toList) true).1.states = some .phSelfRef ∧
    (enter s2 (some "User".toList) true).2.stored = true ∧
    dGet "User".toList (enter s2 (some "User".toList) true).1.states = some .phCycle ∧
    (enter s3 (some "Tree".toList) true).2.stored = true := by
  decide

/-- ✗ The RETURN_EXISTING fall-through (`schema_parser.py:455-471`) exits once to "balance the
    enter", falls through into the body and exits AGAIN in `finally`: one enter, two exits, the
    depth ends one lower than it started (or is absorbed at 0). -/
theorem fallthrough_loses_depth_counterexample :
    let X := "X".toList
    let s : TrSt := { states := [(X, .completed)], depth := 5 }
    let w : List Ev := [.enter (some X) true .returnExisting, .exit (some X), .reset X, .exit (some X)]
    Shaped w ∧ Consistent s w ∧ (runEvs s w).depth = 4 ∧
    (runEvs { s with depth := 0 } w).depth = 0 :=
  ⟨.fall (some "X".toList) true [] [] .nil .nil, by decide, by decide, by decide⟩

/-- The rest state is preserved by every shaped word: this is what makes the tracker usable for
    the next top-level schema. -/
theorem rest_state_after_word (s : TrSt) (w : List Ev) (hs : s.AtRest) (hw : Shaped w) :
    (runEvs s w).AtRest := by
  obtain ⟨hstack, hdepth, hst⟩ := hs
  refine ⟨?_, ?_, ?_⟩
  · have := shaped_stack_sublist hw s
    rw [hstack] at this
    exact List.eq_nil_of_sublist_nil this
  · have := shaped_depth_le hw s
    omega
  · intro n hn
    by_cases h : n ∈ entered w
    · exact (shaped_states hw s n).2 h hn
    · rw [(shaped_states hw s n).1 h]
      exact hst n hn

example : (({ } : TrSt)).AtRest := ⟨rfl, rfl, fun n _ => by simp [dGet]⟩

/-- ✗ The name `""` (a legal JSON key of `components.schemas`) is never pushed, popped or
    completed because every such step is guarded by `if schema_name`: it stays IN_PROGRESS. -/
theorem empty_name_left_in_progress_counterexample :
    let w : List Ev := [.enter (some []) true .continueParsing, .exit (some [])]
    WellBracketed w ∧ Consistent {} w ∧ dGet [] (runEvs {} w).states = some .inProgress :=
  ⟨.cont _ _ [] [] .nil .nil, by decide, by decide⟩

/-! ## PART 2: the parser (M-parser) on top of the tracker

    parse_emits_shaped                   full     every call of `_parse_schema`, for every input, state and
                                                  fuel, emits a `Shaped` event word that is exactly what the
                                                  tracker answered (`Consistent`)
    rest_state_after_toplevel            full     tracker at rest before a top-level schema ⇒ at rest after
    build_schemas_rest                   full     … hence after `build_schemas`: stack empty, depth 0, no
                                                  truthy name IN_PROGRESS ("every schema in a terminal state")
    ✗ parse_not_well_bracketed_counterexample     the trace is NOT a Dyck word: one enter, two exits
    ✗ parse_terminates_counterexample             nesting is not bounded by the depth limit: 5 schemas,
                                                  max depth 8, more than 100 nested `_parse_schema` calls
                                                  while the depth counter never reaches the limit
    ✗ all_names_present_counterexample            alias schema `A: {$ref: B}` ⇒ RuntimeError "was not parsed"
    ✗ all_names_present_dotted_counterexample     schema named `a.b` ⇒ RuntimeError (name sanitized twice)
    all_names_present_partial            partial  no alias / array at top level, names non-empty with an
                                                  idempotent class-casing ⇒ the post-condition holds, for
                                                  every reference structure, depth limit and fuel ≥ 1
    registry_only_grows                  full     no call ever removes a key from `parsed_schemas`
-/
open Pog.Prs

/-- `parse_emits_bracketed`, in the form that is TRUE of the code: for every declaration set, fuel,
    name, node, flag and state, the events appended by one `_parse_schema` call form a `Shaped` word
    `w`; the tracker state afterwards is the replay of `w`, and every recorded action is the action the
    tracker gave.  (`Shaped` = Dyck words + the double-exit fall-through; it is not `WellBracketed`,
    see `parse_not_well_bracketed_counterexample`.) -/
theorem parse_emits_shaped (decls : Decls) (fuel : Nat) (name : Option Str) (node : Node) (allow : Bool)
    (s : Prs.PSt) :
    ∃ w, (parse decls fuel name node allow s).2.trace = s.trace ++ w ∧ Shaped w ∧
      (parse decls fuel name node allow s).2.tr = runEvs s.tr w ∧ Consistent s.tr w :=
  parse_good decls fuel name node allow s

/-- The whole of `build_schemas`: its trace is a shaped word replayed from the fresh tracker. -/
theorem build_schemas_shaped (maxDepth fuel : Nat) (decls : Decls) :
    Shaped (buildSchemas maxDepth fuel decls).trace ∧
    (buildSchemas maxDepth fuel decls).tr = runEvs { maxDepth := maxDepth } (buildSchemas maxDepth fuel decls).trace ∧
    Consistent { maxDepth := maxDepth } (buildSchemas maxDepth fuel decls).trace := by
  obtain ⟨w, ht, hs, hr, hc⟩ := buildLoop_ext decls fuel decls { tr := { maxDepth := maxDepth } }
  have : (buildSchemas maxDepth fuel decls).trace = w := by
    unfold buildSchemas; rw [ht]; rfl
  rw [this]
  exact ⟨hs, hr, hc⟩

/-- `rest_state_after_toplevel`: if the tracker is at rest when `_parse_schema` is called (as it is
    for every top-level schema), it is at rest when the call returns — nothing in progress, depth
    zero, no truthy name IN_PROGRESS — for EVERY schema graph (self references, mutual and longer
    cycles, cycles through arrays / maps / compositions / inline objects), every nesting, every depth
    limit, and also when the model ran out of fuel.  Saturation of the depth counter is part of why. -/
theorem rest_state_after_toplevel (decls : Decls) (fuel : Nat) (name : Option Str) (node : Node)
    (allow : Bool) (s : Prs.PSt) (h : s.tr.AtRest) : (parse decls fuel name node allow s).2.tr.AtRest := by
  obtain ⟨w, _, hs, hr, _⟩ := parse_good decls fuel name node allow s
  rw [hr]
  exact rest_state_after_word s.tr w h hs

/-- … and so after `build_schemas`. -/
theorem build_schemas_rest (maxDepth fuel : Nat) (decls : Decls) :
    (buildSchemas maxDepth fuel decls).tr.AtRest := by
  obtain ⟨hs, hr, _⟩ := build_schemas_shaped maxDepth fuel decls
  rw [hr]
  exact rest_state_after_word _ _ ⟨rfl, rfl, fun n _ => by simp [dGet]⟩ hs

/-- the depth limit of the configuration is never changed by parsing -/
theorem build_schemas_maxDepth (maxDepth fuel : Nat) (decls : Decls) :
    (buildSchemas maxDepth fuel decls).tr.maxDepth = maxDepth := by
  obtain ⟨_, hr, _⟩ := build_schemas_shaped maxDepth fuel decls
  rw [hr, runEvs_maxDepth]

def cObj (ps : List (String × Node)) : Node := .obj (some (ps.map (fun kv => (kv.1.toList, kv.2)))) [] none
def cRef (s : String) : Node := .ref s.toList

def countEnters : List Ev → Nat
  | [] => 0
  | .enter _ _ _ :: w => countEnters w + 1
  | _ :: w => countEnters w
def countExits : List Ev → Nat
  | [] => 0
  | .exit _ :: w => countExits w + 1
  | _ :: w => countExits w

/-- ✗ `parse_emits_bracketed` as a Dyck property is false.  `Z` is an alias (`$ref: B`), so it is
    COMPLETED but never registered; the second reference to it is answered RETURN_EXISTING, not found,
    and falls through: 4 enters, 5 exits. -/
theorem parse_not_well_bracketed_counterexample :
    let decls : Decls := [("A".toList, cObj [("x", cRef "Z"), ("y", cRef "Z")]),
                          ("Z".toList, cRef "B"), ("B".toList, cObj [])]
    let s := buildLoop decls 10 (decls.take 1) { tr := { maxDepth := 150 } }
    s.oom = false ∧ countEnters s.trace = 4 ∧ countExits s.trace = 5 ∧
    s.trace.drop 5 = [.enter (some "Z".toList) true .returnExisting, .exit (some "Z".toList),
                      .reset "Z".toList, .exit (some "Z".toList), .exit (some "A".toList)] := by
  decide +kernel

/-- The five schemas of `parse_terminates_counterexample`. -/
def loopDecls : Decls := [
  ("Zz".toList, cObj [("p0", cRef "Aa"), ("p2", .arr (cRef "Dd")), ("p3", cRef "Aa")]),
  ("Aa".toList, cObj [("p0", cRef "Dd"), ("p2", cRef "Dd"), ("p3", cRef "Bb"), ("p4", cRef "Bb")]),
  ("Dd".toList, cRef "Cc"),
  ("Cc".toList, cObj [("p1", cRef "Aa"), ("p2", cRef "Aa")]),
  ("Bb".toList, cObj [("p0", cRef "Zz"), ("p1", cRef "Zz")])]

/-- ✗ `parse_terminates` ("a fuel bound computable from the depth limit suffices" / "recursion is cut
    by placeholders at the configured depth limit").  With `PYOPENAPI_MAX_DEPTH = 8` the five schemas
    `loopDecls` need MORE than 100 nested `_parse_schema` calls, and not a single name ever reached
    the depth limit (`depthExceeded = []`): cycle exits pop and COMPLETE outer stack entries, the
    alias `Dd` is COMPLETED-but-unregistered, and every RETURN_EXISTING fall-through gives back one
    unit of depth, so the counter oscillates below 8 while the nesting grows.  (The compiled model and
    the real parser agree on this spec for every fuel / nesting bound tried — 6000 in the model, 250000
    in CPython with the recursion limit lifted — i.e. the real loader dies with `RecursionError` at
    the default settings; the oracle class is `depth-limit-bypassed-recursion-error`.) -/
theorem parse_terminates_counterexample :
    (buildSchemas 8 100 loopDecls).oom = true ∧ (buildSchemas 8 100 loopDecls).tr.depthExceeded = [] := by
  decide +kernel

/-- The four schemas of `parse_terminates_unsanitised_name_counterexample` (F61): no alias schema at all.  The component
    `user_group` is registered under its class-cased name `UserGroup`, so every later reference to the COMPLETED
    `user_group` is answered RETURN_EXISTING, is NOT found under the raw name and falls through to a re-parse. -/
def loopDecls2 : Decls := [
  ("Bb".toList, .allOf [cRef "user_group"] [] []),
  ("PetOwner".toList, .allOf [cRef "Bb", cRef "user_group"] [] []),
  ("Children".toList, cObj []),
  ("user_group".toList, .oneOf [
      .allOf [cRef "Bb", cRef "PetOwner"]
        [("user_group".toList, cRef "Children"), ("group".toList, .prim .boolean false)]
        ["user_group".toList, "children".toList, "data".toList, "group".toList],
      cRef "user_group"])]

/-- ✗ `parse_terminates` again, WITHOUT an alias schema (F61, found by the oracle when recursion errors on documents
    without alias schemas stopped being attributed to F51): at the default limit 150 the four schemas `loopDecls2` need
    more than 320 nested `_parse_schema` calls - more than the interpreter stack holds. -/
theorem parse_terminates_unsanitised_name_counterexample :
    (buildSchemas 150 320 loopDecls2).oom = true := by
  decide +kernel

/-- ✗ `all_names_present`: "every declared schema name is present in the result".  An alias schema is
    resolved to its target, NOT registered under its own name ("pure reference"), and the
    post-condition of `build_schemas` raises `RuntimeError("Schema 'A' … was not parsed")`. -/
theorem all_names_present_counterexample :
    let decls : Decls := [("A".toList, cRef "B"), ("B".toList, cObj [("x", .prim .string false)])]
    let s := buildSchemas 150 10 decls
    s.oom = false ∧ missing decls s = ["A".toList] ∧ s.reg.map (·.1) = ["B".toList] := by
  decide +kernel

/-- ✗ The same failure without any reference: the (legal) component name `a.b`.
    `sanitize_class_name("a.b") = "AB"`, `IRSchema.__post_init__` sanitizes the already sanitized name
    again (`"Ab"`), the schema is registered under `"Ab"`, and the post-condition looks for `"a.b"` and
    `"AB"` only. -/
theorem all_names_present_dotted_counterexample :
    let decls : Decls := [("a.b".toList, cObj [("x", .prim .string false)])]
    let s := buildSchemas 150 10 decls
    s.oom = false ∧ missing decls s = ["a.b".toList] ∧ s.reg.map (·.1) = ["Ab".toList] ∧
    sanClass "a.b".toList = "AB".toList ∧ sanClass "AB".toList = "Ab".toList := by
  decide +kernel

/-- `all_names_present`, for the input class that excludes exactly the two counterexamples (and
    top-level arrays, which the proof does not cover): if every declared schema has a truthy name whose
    class-casing is idempotent (`sanitize_class_name(sanitize_class_name(n)) == sanitize_class_name(n)`)
    and its node is neither a bare `$ref` nor an array, then — whatever the schemas reference, however
    they are nested, whatever the depth limit, and even if inner calls ran out of fuel — the
    post-condition of `build_schemas` holds: every declared name is registered under its raw or its
    class-cased name, and no `RuntimeError` is raised. -/
theorem all_names_present_partial (maxDepth fuel : Nat) (decls : Decls) (h : ∀ d ∈ decls, GoodDecl d) :
    missing decls (buildSchemas maxDepth (fuel + 1) decls) = [] :=
  buildSchemas_missing_nil maxDepth fuel decls h

example : ∀ d ∈ ([("User".toList, cObj [("group", cRef "UserGroup")]),
                   ("UserGroup".toList, .allOf [cRef "User"] [("members".toList, .arr (cRef "User"))] []),
                   ("user_status".toList, .prim .string true),
                   ("Pet".toList, .oneOf [cRef "User", cRef "Nowhere"])] : Decls), GoodDecl d := by
  decide +kernel

/-- The registry never loses a key: whatever `_parse_schema` call, a name registered before is
    registered after (its VALUE may be replaced). -/
theorem registry_only_grows (decls : Decls) (fuel : Nat) (name : Option Str) (node : Node) (allow : Bool)
    (s : Prs.PSt) (k : Str) (h : s.regHas k = true) : (parse decls fuel name node allow s).2.regHas k = true :=
  parse_frame regMono_frame decls fuel name node allow s k h

end Pog.C08
