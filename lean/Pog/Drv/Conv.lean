import Pog.Drv.Util
import Pog.Model.Conv
import Pog.Model.ConvSer
/-
  JSON glue for M-conv (C16, C14, C03).

  Encodings (every Python dict is sent as an ORDERED pair list, a JSON object would lose the order):

    json   = null | true/false | <integer> | "str" | [json,…] | {"o": [[key, json],…]}
    ty     = "str"|"int"|"float"|"bool"|"bytes"|"datetime"|"date"|"uuid"|"time"|"any"|"none"
           | {"list": ty} | {"dict": ty} | {"opt": ty} | {"dc": name} | {"fwd": name}
           | {"enum": name, "members": [json,…]}
           | {"union": [ty,…], "disc": null | {"prop": str, "mapping": null | [[value, className],…]}}
    decls  = [[className, {"fields": [{"n": pyName, "t": ty, "d": "req"|"none"|"list"|"dict"},…],
                           "load": null | [[jsonKey, pyName],…], "dump": null | [[pyName, jsonKey],…]}],…]
    val    = null | true/false | <integer> | "str" | [val,…] | {"dict": [[k, val],…]}
           | {"inst": className, "f": [[pyName, val],…]} | {"bytes": s} | {"dt": s} | {"date": s} | {"time": s} | {"uuid": s}
           | {"enum": className, "v": json} | {"opaque": kind, "v": s}
    err    = {"grouped": bool, "msgs": [[path, kind],…]}        kind = tag of `EKind` (`keyError:<k>`, `discFailed:<V>`)

  Functions:
    structure       [decls, ty, json]            → {"ok": val} | {"err": err}
    structureUnion  [decls, [ty,…], disc, json]  → same (the union is the top-level type)
    roundtrip       [decls, ty, json, reg]       → {"ok": json, "reg": [name,…]} | {"err": err} | {"uerr": kind, "reg": […]}
    unstructure     [decls, val, reg]            → {"ok": json, "reg": […]} | {"uerr": kind, "reg": […]}
    regTy           [decls, ty]                  → [name,…]   (classes whose hooks get registered)
    serialize       [decls, heap, hval, reg]     → {"ok": pv, "reg": […]} | {"uerr": kind}   (`MODEL:fuel` = RecursionError)

    hval   = null | true/false | <integer> | "str" | {"ref": id} | {"bytes": s} | {"bytearray": s} | {"dt": s} | {"date": s}
           | {"time": s} | {"uuid": s}
           | {"enum": className, "v": json} | {"opaque": kind, "v": s}
    heap   = [[id, {"list": [hval,…]} | {"dict": [[k, hval],…]} | {"inst": className, "f": [[pyName, hval],…]}],…]
    pv     = json | {"leak": id} | {"opaque": kind, "v": s}      (inside arrays / {"o": …} objects)
-/
open Lean Pog
namespace Pog.Drv

private def convFuel : Nat := 512

private partial def getJV (j : Lean.Json) : Except String JsonV :=
  match j with
  | .null => pure .null
  | .bool b => pure (.bool b)
  | .str s => pure (.str s.toList)
  | .num _ => do pure (.int (← j.getInt?))
  | .arr a => do pure (.arr (← a.toList.mapM getJV))
  | .obj _ => do
    let ps ← (← j.getObjVal? "o").getArr?
    let kvs ← ps.toList.mapM (fun p => do
      let a ← p.getArr?
      pure ((← getStr (← argN a 0)), (← getJV (← argN a 1))))
    pure (.obj kvs)

private partial def putJV (j : JsonV) : Lean.Json :=
  match j with
  | .null => .null
  | .bool b => .bool b
  | .int n => jint n
  | .str s => jstr s
  | .arr xs => Lean.Json.arr (xs.map putJV).toArray
  | .obj kvs => Lean.Json.mkObj [("o", Lean.Json.arr (kvs.map (fun kv => Lean.Json.arr #[jstr kv.1, putJV kv.2])).toArray)]

private def getPairs (j : Lean.Json) : Except String (List (Str × Str)) := do
  let a ← j.getArr?
  a.toList.mapM (fun p => do
    let q ← p.getArr?
    pure ((← getStr (← argN q 0)), (← getStr (← argN q 1))))

private def optField (f : Lean.Json → Except String α) (j : Lean.Json) (k : String) : Except String (Option α) :=
  match j.getObjVal? k with
  | .ok v => if v.isNull then pure none else some <$> f v
  | .error _ => pure none

private def getDisc (j : Lean.Json) : Except String Disc := do
  pure { prop := ← getStr (← j.getObjVal? "prop"), mapping := ← optField getPairs j "mapping" }

private partial def getTy (j : Lean.Json) : Except String Ty :=
  match j with
  | .str s =>
    match s with
    | "str" => pure (.leaf .str) | "int" => pure (.leaf .int) | "float" => pure (.leaf .float)
    | "bool" => pure (.leaf .bool) | "bytes" => pure (.leaf .bytes) | "datetime" => pure (.leaf .datetime)
    | "date" => pure (.leaf .date) | "uuid" => pure (.leaf .uuid) | "time" => pure (.leaf .time)
    | "any" => pure .any | "none" => pure .none
    | _ => throw s!"unknown type {s}"
  | _ =>
    match j.getObjVal? "list", j.getObjVal? "dict", j.getObjVal? "opt", j.getObjVal? "dc", j.getObjVal? "fwd",
        j.getObjVal? "enum", j.getObjVal? "union" with
    | .ok t, _, _, _, _, _, _ => do pure (.list (← getTy t))
    | _, .ok t, _, _, _, _, _ => do pure (.dict (← getTy t))
    | _, _, .ok t, _, _, _, _ => do pure (.optional (← getTy t))
    | _, _, _, .ok n, _, _, _ => do pure (.dc (← getStr n))
    | _, _, _, _, .ok n, _, _ => do pure (.fwd (← getStr n))
    | _, _, _, _, _, .ok n, _ => do
      let ms ← (← j.getObjVal? "members").getArr?
      pure (.enum (← getStr n) (← ms.toList.mapM getJV))
    | _, _, _, _, _, _, .ok a => do
      let args ← (← a.getArr?).toList.mapM getTy
      pure (.union args (← optField getDisc j "disc"))
    | _, _, _, _, _, _, _ => throw "bad type"

private def getDflt (s : String) : Except String Dflt :=
  match s with
  | "req" => pure .required | "none" => pure .none | "list" => pure .list | "dict" => pure .dict
  | _ => throw s!"bad default {s}"

private def getField (j : Lean.Json) : Except String Field := do
  pure { pyName := ← getStr (← j.getObjVal? "n"), ty := ← getTy (← j.getObjVal? "t"),
         dflt := ← getDflt (← j.getObjValAs? String "d") }

private def getDecls (j : Lean.Json) : Except String Decls := do
  let a ← j.getArr?
  a.toList.mapM (fun p => do
    let q ← p.getArr?
    let name ← getStr (← argN q 0)
    let c ← argN q 1
    let fs ← (← c.getObjVal? "fields").getArr?
    pure (name, { fields := ← fs.toList.mapM getField, loadMap := ← optField getPairs c "load",
                  dumpMap := ← optField getPairs c "dump" : ClassDecl }))

private partial def getVal (j : Lean.Json) : Except String Val :=
  match j with
  | .null => pure .none
  | .bool b => pure (.bool b)
  | .str s => pure (.str s.toList)
  | .num _ => do pure (.int (← j.getInt?))
  | .arr a => do pure (.list (← a.toList.mapM getVal))
  | .obj _ =>
    let kvs (x : Lean.Json) : Except String (List (Str × Val)) := do
      (← x.getArr?).toList.mapM (fun p => do
        let q ← p.getArr?
        pure ((← getStr (← argN q 0)), (← getVal (← argN q 1))))
    match j.getObjVal? "time", j.getObjVal? "uuid" with
    | .ok s, _ => do pure (.time (← getStr s))
    | _, .ok s => do pure (.uuid (← getStr s))
    | _, _ =>
    match j.getObjVal? "dict", j.getObjVal? "inst", j.getObjVal? "bytes", j.getObjVal? "dt", j.getObjVal? "date",
        j.getObjVal? "enum", j.getObjVal? "opaque" with
    | .ok d, _, _, _, _, _, _ => do pure (.dict (← kvs d))
    | _, .ok n, _, _, _, _, _ => do pure (.inst (← getStr n) (← kvs (← j.getObjVal? "f")))
    | _, _, .ok s, _, _, _, _ => do pure (.bytes (← getStr s))
    | _, _, _, .ok s, _, _, _ => do pure (.datetime (← getStr s))
    | _, _, _, _, .ok s, _, _ => do pure (.date (← getStr s))
    | _, _, _, _, _, .ok n, _ => do pure (.enum (← getStr n) (← getJV (← j.getObjVal? "v")))
    | _, _, _, _, _, _, .ok k => do pure (.opaque (← getStr k) (← getStr (← j.getObjVal? "v")))
    | _, _, _, _, _, _, _ => throw "bad val"

private partial def putVal (v : Val) : Lean.Json :=
  let kvs (xs : List (Str × Val)) : Lean.Json :=
    Lean.Json.arr (xs.map (fun kv => Lean.Json.arr #[jstr kv.1, putVal kv.2])).toArray
  match v with
  | .none => .null
  | .bool b => .bool b
  | .int n => jint n
  | .str s => jstr s
  | .bytes s => Lean.Json.mkObj [("bytes", jstr s)]
  | .datetime s => Lean.Json.mkObj [("dt", jstr s)]
  | .date s => Lean.Json.mkObj [("date", jstr s)]
  | .time s => Lean.Json.mkObj [("time", jstr s)]
  | .uuid s => Lean.Json.mkObj [("uuid", jstr s)]
  | .enum c m => Lean.Json.mkObj [("enum", jstr c), ("v", putJV m)]
  | .opaque k s => Lean.Json.mkObj [("opaque", jstr k), ("v", jstr s)]
  | .list xs => Lean.Json.arr (xs.map putVal).toArray
  | .dict d => Lean.Json.mkObj [("dict", kvs d)]
  | .inst c fs => Lean.Json.mkObj [("inst", jstr c), ("f", kvs fs)]

private def ekindTag : EKind → String
  | .keyError k => "keyError:" ++ String.ofList k
  | .badIndex => "badIndex"
  | .notContainer => "notContainer"
  | .noneForClass c => "noneForClass:" ++ String.ofList c
  | .numLiteral => "numLiteral"
  | .numArg => "numArg"
  | .notIterable => "notIterable"
  | .noItems => "noItems"
  | .b64 => "b64"
  | .isoformat => "isoformat"
  | .notTemporal => "notTemporal"
  | .uuidForm => "uuidForm"
  | .enumInvalid => "enumInvalid"
  | .unsupported => "unsupported"
  | .unionNone => "unionNone"
  | .unionNoVariant => "unionNoVariant"
  | .unionCannot => "unionCannot"
  | .discUnknown => "discUnknown"
  | .discFailed v => "discFailed:" ++ String.ofList v
  | .unhashable => "unhashable"
  | .unknownClass => "MODEL:unknownClass"
  | .fuel => "MODEL:fuel"

private def uerrTag : UErr → String
  | .typeError => "typeError"
  | .attrError => "attrError"
  | .notJson => "notJson"
  | .illTyped => "MODEL:illTyped"
  | .fuel => "MODEL:fuel"

private def putTopErr (e : TopErr) : Lean.Json :=
  Lean.Json.mkObj [("err", Lean.Json.mkObj [("grouped", .bool e.grouped),
    ("msgs", Lean.Json.arr (e.msgs.map (fun m => Lean.Json.arr #[jstr m.1, .str (ekindTag m.2)])).toArray)])]

private def putStructured (r : Except TopErr Val) : Lean.Json :=
  match r with
  | .ok v => Lean.Json.mkObj [("ok", putVal v)]
  | .error e => putTopErr e

private def putUnstr (r : Except UErr JsonV × List Str) : Lean.Json :=
  match r.1 with
  | .ok j => Lean.Json.mkObj [("ok", putJV j), ("reg", jstrs r.2)]
  | .error e => Lean.Json.mkObj [("uerr", .str (uerrTag e)), ("reg", jstrs r.2)]

private def serFuel : Nat := 200

private def getHVal (j : Lean.Json) : Except String HVal :=
  match j with
  | .null => pure .none
  | .bool b => pure (.bool b)
  | .str s => pure (.str s.toList)
  | .num _ => do pure (.int (← j.getInt?))
  | .arr _ => throw "bad hval"
  | .obj _ =>
    match j.getObjVal? "time", j.getObjVal? "uuid" with
    | .ok s, _ => do pure (.time (← getStr s))
    | _, .ok s => do pure (.uuid (← getStr s))
    | _, _ =>
    match j.getObjVal? "ref", j.getObjVal? "bytes", j.getObjVal? "bytearray", j.getObjVal? "dt", j.getObjVal? "date",
        j.getObjVal? "enum", j.getObjVal? "opaque" with
    | .ok i, _, _, _, _, _, _ => do pure (.ref (← i.getNat?))
    | _, .ok s, _, _, _, _, _ => do pure (.bytes (← getStr s))
    | _, _, .ok s, _, _, _, _ => do pure (.bytearray (← getStr s))
    | _, _, _, .ok s, _, _, _ => do pure (.datetime (← getStr s))
    | _, _, _, _, .ok s, _, _ => do pure (.date (← getStr s))
    | _, _, _, _, _, .ok n, _ => do pure (.enum (← getStr n) (← getJV (← j.getObjVal? "v")))
    | _, _, _, _, _, _, .ok k => do pure (.opaque (← getStr k) (← getStr (← j.getObjVal? "v")))
    | _, _, _, _, _, _, _ => throw "bad hval"

private def getHKvs (x : Lean.Json) : Except String (List (Str × HVal)) := do
  (← x.getArr?).toList.mapM (fun p => do
    let q ← p.getArr?
    pure ((← getStr (← argN q 0)), (← getHVal (← argN q 1))))

private def getHeap (j : Lean.Json) : Except String Heap := do
  (← j.getArr?).toList.mapM (fun p => do
    let q ← p.getArr?
    let id ← (← argN q 0).getNat?
    let o ← argN q 1
    match o.getObjVal? "list", o.getObjVal? "dict", o.getObjVal? "inst" with
    | .ok l, _, _ => do pure (id, HObj.list (← (← l.getArr?).toList.mapM getHVal))
    | _, .ok d, _ => do pure (id, HObj.dict (← getHKvs d))
    | _, _, .ok n => do pure (id, HObj.inst (← getStr n) (← getHKvs (← o.getObjVal? "f")))
    | _, _, _ => throw "bad heap object")

private partial def putPV (p : PV) : Lean.Json :=
  match p with
  | .null => .null
  | .bool b => .bool b
  | .int n => jint n
  | .str s => jstr s
  | .arr xs => Lean.Json.arr (xs.map putPV).toArray
  | .obj kvs => Lean.Json.mkObj [("o", Lean.Json.arr (kvs.map (fun kv => Lean.Json.arr #[jstr kv.1, putPV kv.2])).toArray)]
  | .leak i => Lean.Json.mkObj [("leak", jnat i)]
  | .opaque k v => Lean.Json.mkObj [("opaque", jstr k), ("v", jstr v)]

def convFns : List String := ["structure", "structureUnion", "roundtrip", "unstructure", "regTy", "serialize"]

def convRun (f : String) (a : Array Lean.Json) : Except String Lean.Json := do
  match f with
  | "structure" =>
    let decls ← getDecls (← argN a 0)
    pure (putStructured (structureFromDict Codecs.exec convFuel decls (← getTy (← argN a 1)) (← getJV (← argN a 2))))
  | "structureUnion" =>
    let decls ← getDecls (← argN a 0)
    let args ← (← (← argN a 1).getArr?).toList.mapM getTy
    let d ← argN a 2
    let disc ← if d.isNull then pure none else some <$> getDisc d
    pure (putStructured (structureFromDict Codecs.exec convFuel decls (.union args disc) (← getJV (← argN a 3))))
  | "roundtrip" =>
    let decls ← getDecls (← argN a 0)
    let t ← getTy (← argN a 1)
    let j ← getJV (← argN a 2)
    let reg ← getStrs (← argN a 3)
    match structureFromDict Codecs.exec convFuel decls t j with
    | .error e => pure (putTopErr e)
    | .ok v => pure (putUnstr (unstructureToDict Codecs.exec convFuel reg decls v))
  | "unstructure" =>
    let decls ← getDecls (← argN a 0)
    let v ← getVal (← argN a 1)
    let reg ← getStrs (← argN a 2)
    pure (putUnstr (unstructureToDict Codecs.exec convFuel reg decls v))
  | "regTy" =>
    let decls ← getDecls (← argN a 0)
    pure (jstrs (regTy convFuel decls [] (← getTy (← argN a 1))))
  | "serialize" =>
    let decls ← getDecls (← argN a 0)
    let heap ← getHeap (← argN a 1)
    let root ← getHVal (← argN a 2)
    let reg ← getStrs (← argN a 3)
    match serialize Codecs.exec serFuel heap decls reg root with
    | .ok (p, reg') => pure (Lean.Json.mkObj [("ok", putPV p), ("reg", jstrs reg')])
    | .error e => pure (Lean.Json.mkObj [("uerr", .str (uerrTag e))])
  | _ => throw s!"unknown function {f}"

def dispatchConv : Dispatch := fun f a _ =>
  if convFns.contains f then some (convRun f a) else none

end Pog.Drv
