import Pog.Lemmas.ParserFaithful3c
/-
  Lemmas about M-parser, part 6 (end): faithfulness (C02) on the fragment `Simple3`
  (Pog/Lemmas/ParserFaithful3a.lean): reading the result (`WF3` gives `Faithful`), the whole of `build_schemas`,
  `Simple2 ⊆ Simple3`, closure under re-ordering the declarations.
-/
namespace Pog.Prs
open Pog Pog.Trk

/-! ### reading the result: `WF3` gives `Faithful` -/

theorem lookup_declared3 (decls : Decls) (rank : Str → Nat) (hS : Simple3 decls rank) (s : PSt) (m : Str)
    (hm : m ∈ decls.map (·.1)) : s.lookup m = dGet m s.reg := by
  unfold PSt.lookup
  rw [sanClass_of_declared3 decls rank hS m hm]
  cases dGet m s.reg <;> rfl

/-- an object no DECLARED name is registered for has no declared name -/
theorem declNameOf_none3 (decls : Decls) (rank : Str → Nat) (hS : Simple3 decls rank) (s : PSt) (pid : Nat)
    (h : ∀ m ∈ decls.map (·.1), dGet m s.reg ≠ some pid) : declNameOf decls s pid = none := by
  unfold declNameOf
  rw [List.find?_eq_none]
  intro m hm
  rw [lookup_declared3 decls rank hS s m hm]
  intro hcontra
  have : dGet m s.reg = some pid := by simpa using hcontra
  exact h m hm this

theorem declNameOf_declared3 (decls : Decls) (rank : Str → Nat) (hS : Simple3 decls rank) (s : PSt)
    (hw : WF3 decls rank s) (t : Str) (pid : Nat) (ht : t ∈ decls.map (·.1)) (h : dGet t s.reg = some pid) :
    declNameOf decls s pid = some t := by
  unfold declNameOf
  cases hf : (decls.map (·.1)).find? (fun n => s.lookup n == some pid) with
  | none =>
    rw [List.find?_eq_none] at hf
    have := hf t ht
    rw [lookup_declared3 decls rank hS s t ht, h] at this
    simp at this
  | some t' =>
    have hmem := List.mem_of_find?_eq_some hf
    have hp := List.find?_some hf
    rw [lookup_declared3 decls rank hS s t' hmem] at hp
    have : dGet t' s.reg = some pid := by simpa using hp
    rw [hw.2 t' t pid this h]

theorem irKind_denotes3 (decls : Decls) (rank : Str → Nat) (hS : Simple3 decls rank) (s : PSt) (hw : WF3 decls rank s) :
    ∀ (K : Kind) (pid f : Nat), Denotes (decls.map (·.1)) s K pid → kfuel K ≤ f → irKind decls s f pid = K := by
  have hanon : ∀ pid, Anon s pid → declNameOf decls s pid = none := by
    intro pid ha
    exact declNameOf_none3 decls rank hS s pid (fun m _ hm => ha.2.2 m pid hm rfl)
  intro K
  induction K with
  | prim ty =>
    intro pid f hd hf
    obtain ⟨h1, h2, h3⟩ := hd
    obtain ⟨f, rfl⟩ : ∃ f', f = f' + 1 := ⟨f - 1, by simp only [kfuel] at hf; omega⟩
    rw [irKind_anon_unfold decls s pid f h1.2.1 (hanon pid h1), h2, h3]
    cases ty <;> rfl
  | ref t =>
    intro pid f hd hf
    obtain ⟨ht, hg⟩ := hd
    obtain ⟨f, rfl⟩ : ∃ f', f = f' + 1 := ⟨f - 1, by simp only [kfuel] at hf; omega⟩
    obtain ⟨_, _, _, _, _, hfull, _⟩ := (hw.1 t pid hg).2 ht
    rw [irKind]
    simp only [hfull, declNameOf_declared3 decls rank hS s hw t pid ht hg,
      sanClass_of_declared3 decls rank hS t ht]
    rfl
  | arr K ih =>
    intro pid f hd hf
    obtain ⟨h1, h2, h3, iid, h4, h5⟩ := hd
    obtain ⟨f, rfl⟩ : ∃ f', f = f' + 1 := ⟨f - 1, by simp only [kfuel] at hf; omega⟩
    rw [irKind_anon_unfold decls s pid f h1.2.1 (hanon pid h1), h2, h3, h4]
    simp only [beq_self_eq_true, if_true]
    rw [ih iid f h5 (by simp only [kfuel] at hf; omega)]
  | obj =>
    intro pid f hd hf
    obtain ⟨h1, c, mid, h2, h3, h4, h5, h6, h7, h8⟩ := hd
    obtain ⟨f, rfl⟩ : ∃ f', f = f' + 2 := ⟨f - 2, by simp only [kfuel] at hf; omega⟩
    rw [irKind_anon_unfold decls s pid (f + 1) h1.2.1 (hanon pid h1), h2]
    have hdm : declNameOf decls s mid = none := by
      refine declNameOf_none3 decls rank hS s mid ?_
      intro m hm hg
      exact h3 (hw.2 c m mid h4 hg ▸ hm)
    simp only []
    rw [irKind_anon_unfold decls s mid f h6 hdm, h7, h8]
    rfl
  | union => intro pid f hd; exact hd.elim
  | unknown => intro pid f hd; exact hd.elim

theorem irKind_denP (decls : Decls) (rank : Str → Nat) (hS : Simple3 decls rank) (s : PSt) (hw : WF3 decls rank s)
    (K : Kind) (pid : Nat) (hd : DenP (decls.map (·.1)) s K pid) (hf : kfuel K ≤ 6) : irKind decls s 6 pid = K := by
  rcases hd with hd | ⟨ty, e, hd⟩
  · exact irKind_denotes3 decls rank hS s hw K pid 6 hd hf
  · subst e
    obtain ⟨h1, c, mid, h2, h3, h4, h5, h6, h7, h8⟩ := hd
    have hanon : declNameOf decls s pid = none :=
      declNameOf_none3 decls rank hS s pid (fun m _ hm => h1.2.2 m pid hm rfl)
    rw [irKind_anon_unfold decls s pid 5 h1.2.1 hanon, h2]
    have hdm : declNameOf decls s mid = none := by
      refine declNameOf_none3 decls rank hS s mid ?_
      intro m hm hg
      exact h3 (hw.2 c m mid h4 hg ▸ hm)
    simp only []
    rw [irKind_anon_unfold decls s mid 4 h6 hdm, h7, h8]
    cases ty <;> rfl

theorem contains_congr (a b : List Str) (h : ∀ k, k ∈ a ↔ k ∈ b) (k : Str) : a.contains k = b.contains k := by
  cases h1 : a.contains k with
  | true => exact (List.contains_iff_mem.mpr ((h k).mp (List.contains_iff_mem.mp h1))).symm
  | false =>
    cases h2 : b.contains k with
    | false => rfl
    | true =>
      rw [List.contains_iff_mem.mpr ((h k).mpr (List.contains_iff_mem.mp h2))] at h1
      cases h1

theorem fields_faithful3 (decls : Decls) (rank : Str → Nat) (hS : Simple3 decls rank) (s : PSt) (hw : WF3 decls rank s)
    (req R : List Str) (hreq : ∀ k, k ∈ req ↔ k ∈ R) :
    ∀ (F : List (Str × Kind)) (fp : List (Str × Nat)), All2 (FieldK (decls.map (·.1)) s) F fp →
      fp.map (fun e => (⟨e.1, req.contains e.1, irKind decls s 6 e.2⟩ : Field)) =
      F.map (fun kk => (⟨kk.1, R.contains kk.1, kk.2⟩ : Field)) := by
  intro F fp hall
  induction hall with
  | nil => rfl
  | @cons a b l l' hab _ ih =>
    simp only [List.map_cons]
    rw [ih, hab.1, irKind_denP decls rank hS s hw _ _ hab.2.2 hab.2.1, contains_congr req R hreq]

theorem muVis_nil (decls : Decls) : muVis decls [] = (decls.map (fun d => d.2.size + 1)).sum := by
  unfold muVis
  have : decls.filter (fun d => !([] : List Str).contains d.1) = decls := by
    rw [List.filter_eq_self]
    intro d _
    rfl
  rw [this]

theorem faithful_of_WF3 (decls : Decls) (rank : Str → Nat) (hS : Simple3 decls rank) (s : PSt) (hw : WF3 decls rank s)
    (n : Str) (i : Nat) (hmem : n ∈ decls.map (·.1)) (h : dGet n s.reg = some i) : Faithful decls s n := by
  obtain ⟨nd, F, R, hget, hshape, hfull, hall, hreq⟩ := (hw.1 n i h).2 hmem
  have hmemd := mem_of_dGet decls n _ hget
  have hlook : s.lookup n = some i := by simp [PSt.lookup, h]
  have hmodel : modelFields decls s n =
      some ((s.get i).props.map (fun e => (⟨e.1, (s.get i).required.contains e.1, irKind decls s 6 e.2⟩ : Field))) := by
    unfold modelFields
    rw [hlook]
  have hspec : specFields decls n = F.map (fun kk => (⟨kk.1, R.contains kk.1, kk.2⟩ : Field)) := by
    unfold specFields
    rw [hget]
    simp only []
    have hmu := muVis_cons decls hS.nodup n nd hmemd [] (by simp)
    rw [muVis_nil] at hmu
    rw [hshape (specFuel decls) [n] (List.mem_singleton.mpr rfl) (fun v hv => by rw [List.mem_singleton.mp hv]; exact Nat.le_refl _)
      (by unfold specFuel; omega)]
  refine ⟨_, hmodel, ?_, ?_⟩
  · intro id hid
    rw [hlook] at hid
    cases hid
    exact hfull
  · intro f
    rw [hspec, fields_faithful3 decls rank hS s hw _ R hreq F _ hall]

/-- the whole of `build_schemas` on the fragment -/
theorem buildSchemas_faithful3 (decls : Decls) (rank : Str → Nat) (hS : Simple3 decls rank) (maxDepth F : Nat)
    (hF : ∀ d ∈ decls, rank d.1 < F) (hD : ∀ d ∈ decls, rank d.1 + 1 ≤ maxDepth) :
    (buildSchemas maxDepth (F + 1) decls).oom = false ∧ missing decls (buildSchemas maxDepth (F + 1) decls) = [] ∧
    ∀ d ∈ decls, Faithful decls (buildSchemas maxDepth (F + 1) decls) d.1 := by
  have hw0 : WF3 decls rank ({ tr := { maxDepth := maxDepth } } : PSt) :=
    ⟨fun m i h => by simp [dGet] at h, fun m m' i h => by simp [dGet] at h⟩
  have hk0 : TKtop3 decls rank ({ tr := { maxDepth := maxDepth } } : PSt) := by
    intro R
    refine ⟨rfl, (fun m hm => by cases hm), (fun m => Or.inl ⟨by simp [dGet], rfl⟩), ?_⟩
    intro d _ k _ hne
    exact absurd (by simp [dGet]) hne
  obtain ⟨h1, h2, _, h4⟩ := buildLoop_spec3 decls rank hS F hF decls _ (fun _ h => h) hw0 hk0 rfl hD
  refine ⟨by unfold buildSchemas; rw [h1.oom], ?_, ?_⟩
  · unfold missing
    rw [List.filter_eq_nil_iff]
    intro n hn
    obtain ⟨d, hd, rfl⟩ := List.mem_map.mp hn
    unfold buildSchemas
    simp [h4 d hd]
  · intro d hd
    obtain ⟨i, hi⟩ := (regHas_iff_dGet _ _).mp (h4 d hd)
    exact faithful_of_WF3 decls rank hS _ h2 d.1 i (List.mem_map.mpr ⟨d, hd, rfl⟩) hi

/-! ### the fragment contains `Simple2` -/

theorem core_of_simpleProp (names : List Str) (i : Node) (h : simpleProp names i = true) : i.core = i := by
  rcases simpleProp_cases _ i h with ⟨ty, e⟩ | ⟨t, e, _⟩
  · subst e; rfl
  · subst e; rfl

theorem leaf3_of_simpleProp (names : List Str) (i : Node) (h : simpleProp names i = true) : leaf3 names i = true := by
  unfold leaf3
  rw [core_of_simpleProp names i h]
  rcases simpleProp_cases _ i h with ⟨ty, e⟩ | ⟨t, e, _⟩
  · subst e; rfl
  · subst e; exact h

theorem simpleProp3_of_simpleProp2 (names : List Str) (p : Node) (h : simpleProp2 names p = true) :
    simpleProp3 names p = true := by
  rcases simpleProp2_cases _ p h with ⟨ty, e⟩ | ⟨t, e, _⟩ | ⟨i, e, hi⟩ | ⟨req, a, e, ha⟩
  · subst e; rfl
  · subst e; exact h
  · subst e; exact leaf3_of_simpleProp _ i hi
  · subst e; exact leaf3_of_simpleProp _ a ha

theorem propCostOK3_of_propCost (names : List Str) (rank : Str → Nat) (R : Nat) (p : Node)
    (h : simpleProp2 names p = true) (hc : propCost rank p ≤ R) : propCostOK3 rank R p = true := by
  rcases simpleProp2_cases _ p h with ⟨ty, e⟩ | ⟨t, e, _⟩ | ⟨i, e, hi⟩ | ⟨req, a, e, ha⟩
  · subst e; rfl
  · subst e
    simpa [propCostOK3, Node.core, propCost] using hc
  · subst e
    simpa [propCostOK3, Node.core, propCost, leafCost3, core_of_simpleProp _ i hi] using hc
  · subst e
    simpa [propCostOK3, Node.core, propCost, leafCost3, core_of_simpleProp _ a ha] using hc

theorem ctxOf3_of_simpleProp2 (names : List Str) (n k : Str) (p : Node) (h : simpleProp2 names p = true) :
    ctxOf3 n k p = if isMapNode p then some (mapCtx n k) else none := by
  rcases simpleProp2_cases _ p h with ⟨ty, e⟩ | ⟨t, e, _⟩ | ⟨i, e, hi⟩ | ⟨req, a, e, ha⟩
  · subst e; rfl
  · subst e; rfl
  · subst e; rfl
  · subst e; rfl

theorem ctxsL3_of_simpleProp2 (names : List Str) (n : Str) (ps : List (Str × Node))
    (h : ∀ kv ∈ ps, simpleProp2 names kv.2 = true) :
    ctxsL3 n ps = ((ps.filter (fun kv => isMapNode kv.2)).map (·.1)).map (mapCtx n) := by
  induction ps with
  | nil => rfl
  | cons kv rest ih =>
    obtain ⟨k, p⟩ := kv
    rw [ctxsL3_cons, ih (fun kv hkv => h kv (List.mem_cons_of_mem _ hkv)),
      ctxOf3_of_simpleProp2 names n k p (h (k, p) (List.mem_cons_self ..)), List.filter_cons]
    cases isMapNode p <;> rfl

theorem ctxs3_of_simple2 {decls : Decls} {rank : Str → Nat} (hS : Simple2 decls rank) (d : Str × Node) (hd : d ∈ decls) :
    ctxs3 d.1 d.2 = (mapKeys d.2).map (mapCtx d.1) := by
  unfold ctxs3 mapKeys
  rcases simpleNode2_inv _ d.2 (hS.node d hd) with ⟨ps, req, e, hp, _⟩ | ⟨i, e, _⟩ | ⟨ty, e⟩
  · rw [e]
    exact ctxsL3_of_simpleProp2 _ d.1 ps (fun kv hkv => (hp kv hkv).2)
  · rw [e]; rfl
  · rw [e]; rfl

theorem nodup_map_of_inj_on {α β : Type} (f : α → β) (l : List α) (hl : l.Nodup)
    (hf : ∀ a ∈ l, ∀ b ∈ l, f a = f b → a = b) : (l.map f).Nodup := by
  induction l with
  | nil => exact List.nodup_nil
  | cons a l ih =>
    simp only [List.nodup_cons] at hl
    simp only [List.map_cons, List.nodup_cons, List.mem_map, not_exists, not_and]
    refine ⟨?_, ih hl.2 (fun x hx y hy => hf x (List.mem_cons_of_mem _ hx) y (List.mem_cons_of_mem _ hy))⟩
    intro b hb e
    have := hf b (List.mem_cons_of_mem _ hb) a (List.mem_cons_self ..) e
    exact hl.1 (this ▸ hb)

theorem mapKeys_nodup {decls : Decls} {rank : Str → Nat} (hS : Simple2 decls rank) (d : Str × Node) (hd : d ∈ decls) :
    (mapKeys d.2).Nodup := by
  unfold mapKeys
  rcases simpleNode2_inv _ d.2 (hS.node d hd) with ⟨ps, req, e, _, hnd⟩ | ⟨i, e, _⟩ | ⟨ty, e⟩
  · rw [e]
    exact List.Nodup.sublist (List.Sublist.map _ List.filter_sublist) hnd
  · rw [e]; exact List.nodup_nil
  · rw [e]; exact List.nodup_nil

theorem Simple2.toSimple3 {decls : Decls} {rank : Str → Nat} (hS : Simple2 decls rank) : Simple3 decls rank := by
  refine ⟨hS.nodup, ?_, hS.name, ?_, ?_, ?_, ?_⟩
  · intro d hd
    rcases simpleNode2_inv _ d.2 (hS.node d hd) with ⟨ps, req, e, hp, hnd⟩ | ⟨i, e, hi⟩ | ⟨ty, e⟩
    · rw [e]
      simp only [simpleNode3, Bool.and_eq_true, List.all_eq_true, decide_eq_true_eq]
      refine ⟨fun kv hkv => ?_, hnd⟩
      obtain ⟨a, b⟩ := hp kv hkv
      refine ⟨?_, simpleProp3_of_simpleProp2 _ _ b⟩
      cases hk : kv.1 with
      | nil => exact absurd hk a
      | cons c cs => rfl
    · rw [e]; exact leaf3_of_simpleProp _ i hi
    · rw [e]; rfl
  · intro d hd
    obtain ⟨c1, c2⟩ := hS.cost d hd
    rcases simpleNode2_inv _ d.2 (hS.node d hd) with ⟨ps, req, e, hp, hnd⟩ | ⟨i, e, hi⟩ | ⟨ty, e⟩
    · rw [e] at c2 ⊢
      simp only [nodeCostOK3, List.all_eq_true]
      intro kv hkv
      exact propCostOK3_of_propCost _ rank _ kv.2 (hp kv hkv).2 (c2 kv hkv)
    · rw [e] at c1 ⊢
      simpa [nodeCostOK3, leafCost3, core_of_simpleProp _ i hi, topCost] using c1
    · rw [e]; rfl
  · intro d hd c hc
    rw [ctxs3_of_simple2 hS d hd] at hc
    obtain ⟨k, hk, rfl⟩ := List.mem_map.mp hc
    exact hS.ctxFresh d hd k hk
  · intro d hd
    rw [ctxs3_of_simple2 hS d hd]
    exact nodup_map_of_inj_on _ _ (mapKeys_nodup hS d hd)
      (fun a ha b hb e => (hS.ctxInj d hd d hd a ha b hb e).2)
  · intro d hd d' hd' c hc hc'
    rw [ctxs3_of_simple2 hS d hd] at hc
    rw [ctxs3_of_simple2 hS d' hd'] at hc'
    obtain ⟨k, hk, rfl⟩ := List.mem_map.mp hc
    obtain ⟨k', hk', e⟩ := List.mem_map.mp hc'
    exact (hS.ctxInj d hd d' hd' k hk k' hk' e.symm).1

/-! ### closed under re-ordering the declarations -/

theorem leaf3_congr (names names' : List Str) (h : ∀ t, t ∈ names ↔ t ∈ names') (p : Node) :
    leaf3 names p = leaf3 names' p := by
  unfold leaf3 leafOK
  split
  · rfl
  · exact simpleProp_congr names names' h _
  · rfl

theorem innerProp3_congr (names names' : List Str) (h : ∀ t, t ∈ names ↔ t ∈ names') (p : Node) :
    innerProp3 names p = innerProp3 names' p := by
  unfold innerProp3
  split
  · rfl
  · exact simpleProp_congr names names' h _
  · exact leaf3_congr names names' h _
  · rfl

theorem innerProps3_congr (names names' : List Str) (h : ∀ t, t ∈ names ↔ t ∈ names') (ps : List (Str × Node)) :
    innerProps3 names ps = innerProps3 names' ps := by
  unfold innerProps3
  congr 2
  funext kv
  rw [innerProp3_congr names names' h]

theorem simpleProp3_congr (names names' : List Str) (h : ∀ t, t ∈ names ↔ t ∈ names') (p : Node) :
    simpleProp3 names p = simpleProp3 names' p := by
  unfold simpleProp3
  split
  · rfl
  · exact simpleProp_congr names names' h _
  · exact leaf3_congr names names' h _
  · exact leaf3_congr names names' h _
  · exact innerProps3_congr names names' h _
  · rfl

theorem allOfPart3_congr (names names' : List Str) (h : ∀ t, t ∈ names ↔ t ∈ names') (p : Node) :
    allOfPart3 names p = allOfPart3 names' p := by
  unfold allOfPart3
  split
  · exact simpleProp_congr names names' h _
  · exact innerProps3_congr names names' h _
  · rfl

theorem simpleNode3_congr (names names' : List Str) (h : ∀ t, t ∈ names ↔ t ∈ names') (nd : Node) :
    simpleNode3 names nd = simpleNode3 names' nd := by
  unfold simpleNode3
  split
  · congr 2
    funext kv
    rw [simpleProp3_congr names names' h]
  · exact leaf3_congr names names' h _
  · rfl
  · congr 1
    funext p
    rw [allOfPart3_congr names names' h]
  · rfl

theorem Simple3.perm {d d' : Decls} {rank : Str → Nat} (hS : Simple3 d rank) (hp : d.Perm d') : Simple3 d' rank where
  nodup := (hp.map (·.1)).nodup_iff.mp hS.nodup
  node := by
    intro x hx
    rw [← simpleNode3_congr (d.map (·.1)) (d'.map (·.1)) (fun t => (hp.map (·.1)).mem_iff)]
    exact hS.node x (hp.mem_iff.mpr hx)
  name := fun x hx => hS.name x (hp.mem_iff.mpr hx)
  cost := fun x hx => hS.cost x (hp.mem_iff.mpr hx)
  ctxFresh := by
    intro x hx k hk
    obtain ⟨a, b⟩ := hS.ctxFresh x (hp.mem_iff.mpr hx) k hk
    exact ⟨fun hin => a ((hp.map (·.1)).mem_iff.mpr hin), b⟩
  ctxNodup := fun x hx => hS.ctxNodup x (hp.mem_iff.mpr hx)
  ctxInj := fun x hx y hy => hS.ctxInj x (hp.mem_iff.mpr hx) y (hp.mem_iff.mpr hy)

end Pog.Prs
