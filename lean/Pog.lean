import Pog.Model.Basic
import Pog.Model.Names
import Pog.Model.Fresh
