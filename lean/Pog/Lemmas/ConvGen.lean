import Pog.Model.ConvGen
import Pog.Lemmas.Fresh
import Pog.Lemmas.ConvRound
/-
  Lemmas for C03: the `Meta` maps the generator emits are mutually inverse and make the class well formed.
-/
namespace Pog

theorem insertProp_perm (p : PropSpec) (l : List PropSpec) : (insertProp p l).Perm (p :: l) := by
  induction l with
  | nil => exact List.Perm.refl _
  | cons q qs ih =>
    simp only [insertProp]
    split
    · exact List.Perm.refl _
    · exact (List.Perm.cons q ih).trans (List.Perm.swap p q qs)

theorem sortProps_perm (l : List PropSpec) : (sortProps l).Perm l := by
  induction l with
  | nil => exact List.Perm.refl _
  | cons p ps ih => exact (insertProp_perm p _).trans (List.Perm.cons p ih)

theorem loadKeyIn_zip : ∀ (ps names : List Str), ps.length = names.length → names.Nodup →
    ∀ (i : Nat) (h1 : i < names.length) (h2 : i < ps.length), loadKeyIn (ps.zip names) names[i] = some ps[i]
  | [], [], _, _, i, h1, _ => by simp at h1
  | [], _ :: _, hl, _, _, _, _ => by simp at hl
  | _ :: _, [], hl, _, _, _, _ => by simp at hl
  | p :: ps, n :: ns, hl, hnd, i, h1, h2 => by
    cases i with
    | zero => simp [loadKeyIn]
    | succ i =>
      have hnd' := List.nodup_cons.mp hnd
      have hi : i < ns.length := by simpa using h1
      have hne : ¬ n = ns[i] := fun e => hnd'.1 (e ▸ List.getElem_mem hi)
      simp only [List.zip_cons_cons, loadKeyIn, List.getElem_cons_succ, hne, if_false]
      exact loadKeyIn_zip ps ns (by simpa using hl) hnd'.2 i _ _

theorem aget_zip : ∀ (names ps : List Str), ps.length = names.length → names.Nodup →
    ∀ (i : Nat) (h1 : i < names.length) (h2 : i < ps.length), aget (names.zip ps) names[i] = some ps[i]
  | [], [], _, _, i, h1, _ => by simp at h1
  | _ :: _, [], hl, _, _, _, _ => by simp at hl
  | [], _ :: _, hl, _, _, _, _ => by simp at hl
  | n :: ns, p :: ps, hl, hnd, i, h1, h2 => by
    cases i with
    | zero => simp [aget]
    | succ i =>
      have hnd' := List.nodup_cons.mp hnd
      have hi : i < ns.length := by simpa using h1
      have hne : ¬ n = ns[i] := fun e => hnd'.1 (e ▸ List.getElem_mem hi)
      simp only [List.zip_cons_cons, aget, List.getElem_cons_succ, hne, if_false]
      exact aget_zip ns ps (by simpa using hl) hnd'.2 i _ _

theorem zipFields_length : ∀ (sorted : List PropSpec) (names : List Str), sorted.length = names.length →
    (zipFields sorted names).length = names.length
  | [], [], _ => rfl
  | [], _ :: _, h => by simp at h
  | _ :: _, [], h => by simp at h
  | _ :: ps, _ :: ns, h => by simp [zipFields, zipFields_length ps ns (by simpa using h)]

theorem zipFields_getElem : ∀ (sorted : List PropSpec) (names : List Str) (_hl : sorted.length = names.length)
    (i : Nat) (h : i < (zipFields sorted names).length) (h1 : i < names.length) (h2 : i < sorted.length),
    (zipFields sorted names)[i] = ⟨names[i], sorted[i].ty, sorted[i].dflt⟩
  | [], [], _, i, h, _, _ => by simp [zipFields] at h
  | [], _ :: _, hl, _, _, _, _ => by simp at hl
  | _ :: _, [], hl, _, _, _, _ => by simp at hl
  | p :: ps, n :: ns, hl, i, h, h1, h2 => by
    cases i with
    | zero => simp [zipFields]
    | succ i =>
      simp only [zipFields, List.getElem_cons_succ]
      exact zipFields_getElem ps ns (by simpa using hl) i _ _ _

theorem mem_zip_swap {α β : Type} : ∀ (l1 : List α) (l2 : List β) (a : α) (b : β),
    (a, b) ∈ l1.zip l2 → (b, a) ∈ l2.zip l1
  | [], _, _, _, h => by simp at h
  | _ :: _, [], _, _, h => by simp at h
  | x :: xs, y :: ys, a, b, h => by
    simp only [List.zip_cons_cons, List.mem_cons, Prod.mk.injEq] at h ⊢
    rcases h with ⟨h1, h2⟩ | h
    · exact Or.inl ⟨h2, h1⟩
    · exact Or.inr (mem_zip_swap xs ys a b h)

/-- The heart of C03 `meta_maps_inverse`. -/
theorem generatedClass_spec (props : List PropSpec) :
    ∃ cd names, generatedClass props = some cd
      ∧ fieldNames ((sortProps props).map PropSpec.name) = some names
      ∧ cd.loadMap = some (((sortProps props).map PropSpec.name).zip names)
      ∧ cd.dumpMap = some (names.zip ((sortProps props).map PropSpec.name))
      ∧ names.Nodup ∧ names.length = (sortProps props).length
      ∧ cd.fields.map Field.pyName = names
      ∧ cd.fields.map (loadKey cd) = (sortProps props).map PropSpec.name
      ∧ cd.fields.map (dumpKey cd) = (sortProps props).map PropSpec.name := by
  obtain ⟨names, hfn, hnn, hlen⟩ := assignAll_map_spec sufUnderscore 2 sufUnderscore_inj dcFieldBase
    ((sortProps props).map PropSpec.name)
  have hfn' : fieldNames ((sortProps props).map PropSpec.name) = some names := hfn
  have hlen' : names.length = (sortProps props).length := by simpa using hlen
  have hlz := zipFields_length (sortProps props) names hlen'.symm
  refine ⟨{ fields := zipFields (sortProps props) names
            loadMap := some (((sortProps props).map PropSpec.name).zip names)
            dumpMap := some (names.zip ((sortProps props).map PropSpec.name)) }, names,
    by simp only [generatedClass, hfn'], hfn', rfl, rfl, hnn, hlen', ?_, ?_, ?_⟩
  · apply List.ext_getElem
    · simp [hlz]
    · intro i h1 h2
      simp only [List.getElem_map]
      rw [zipFields_getElem (sortProps props) names hlen'.symm i (by simpa using h1) h2 (by omega)]
  · apply List.ext_getElem
    · simp [hlz, hlen']
    · intro i h1 h2
      have hi : i < names.length := by simpa [hlz] using h1
      simp only [List.getElem_map]
      rw [zipFields_getElem (sortProps props) names hlen'.symm i (by simpa using h1) hi (by omega)]
      simp only [loadKey]
      rw [loadKeyIn_zip _ names (by simp [hlen']) hnn i hi (by simp; omega)]
      simp
  · apply List.ext_getElem
    · simp [hlz, hlen']
    · intro i h1 h2
      have hi : i < names.length := by simpa [hlz] using h1
      simp only [List.getElem_map]
      rw [zipFields_getElem (sortProps props) names hlen'.symm i (by simpa using h1) hi (by omega)]
      simp only [dumpKey]
      rw [aget_zip names _ (by simp [hlen']) hnn i hi (by simp; omega)]
      simp

theorem generatedClass_ok (props : List PropSpec) (hnd : (props.map PropSpec.name).Nodup) (cd : ClassDecl)
    (h : generatedClass props = some cd) : classOk cd = true := by
  obtain ⟨cd', names, h1, _, _, _, hnn, _, hpn, hlk, hdk⟩ := generatedClass_spec props
  rw [h] at h1
  cases h1
  have hps : ((sortProps props).map PropSpec.name).Nodup :=
    ((sortProps_perm props).map PropSpec.name).nodup_iff.mpr hnd
  simp only [classOk, Bool.and_eq_true, decide_eq_true_eq, List.all_eq_true, beq_iff_eq]
  refine ⟨⟨hpn ▸ hnn, hlk ▸ hps⟩, ?_⟩
  intro f hf
  obtain ⟨i, hi, rfl⟩ := List.getElem_of_mem hf
  have h1 := congrArg (fun l => l[i]?) hlk
  have h2 := congrArg (fun l => l[i]?) hdk
  simp only [List.getElem?_map, List.getElem?_eq_getElem hi, Option.map_some] at h1 h2
  rw [← h2] at h1
  exact Option.some.inj h1

end Pog
