import Pog.Lemmas.GenCode
import Pog.Props.Loader
/-
  C05 — what an emitted endpoint method returns for a declared 2xx response.

  FULL STATEMENT: for every operation and every 2xx response it declares, when the server answers with that
  status and a body conforming to the declared schema, the call returns a value of the annotated return type
  whose re-serialisation equals the body; a declared response without content returns None; text and binary
  responses return the text or bytes sent.  Streaming responses yield, in order, exactly the chunks or events
  the server sent.

  This file is about WHICH ARM of the emitted `match response.status_code` fires and WHAT KIND of return it is
  (`Pog.GenCode.handle`, Pog/Model/GenCode.lean, tied to the emitted code by `corr_gencode.py`); decoding the
  body (cattrs) and the stream framing are C03 / C18.   `✗` = FALSE of the current code.

    the two copies of `_get_primary_response` are the same function                        (full)    `primary_selection_agree`
    a declared 2xx status always selects a `return` arm, never an `HTTPError` raise         (full)    `declared_2xx_never_raises_passthrough`
    … and the call really returns (F58 repaired: Union dispatch included)                  (full)    `declared_2xx_returns`, `declared_2xx_union_dispatch_returns`
    a declared 2xx response without content returns None …                                  (full, distinct keys) `no_content_returns_none`
    … in a streaming method (an async generator cannot return a value) it ends the stream   (full, distinct keys; F35 repaired) `no_content_ends_stream`
    every other declared 2xx response has its own arm with its own return                   (full, distinct keys) `secondary_2xx_arm_exists`
    … which, next to a streaming primary response, yields its value once and returns        (full, distinct keys; F35 repaired) `secondary_2xx_of_stream_yields_once`
    the emitted method never has `return <value>` next to a `yield`: a stream plus another
      2xx response no longer breaks the module                                              (full; F35 repaired)  `stream_with_second_2xx_module_ok`, `stream_with_second_2xx_former_witness`
    text responses (`text/*` only, plain strings) return the text sent                      (full, distinct keys; F32b repaired) `text_response_returns_text`, `text_response_former_witness`
    an NDJSON stream is iterated with `iter_ndjson`, not with the SSE parser                (full, distinct keys; F43 repaired)  `ndjson_stream_uses_iter_ndjson`, `ndjson_stream_former_witness`
    a JSON string arm of the Content-Type dispatch is decoded, not returned as raw text      (full; F69 repaired) `dispatch_str_arm`, `dispatch_json_string_former_witness`
    binary (non-streamed) responses return the bytes sent                                   ✗         `secondary_binary_parsed_as_json_counterexample`
    a secondary 2xx response with several media types dispatches on the Content-Type        ✗ (F59)   `secondary_2xx_ignores_content_type_counterexample`
-/
/-
  C05 at the loader (Pog/Model/Loader.lean; proved in Pog/Props/Loader.lean, claimed here; `streamFormats` regenerated from the source):
    response_content_keys_preserved        each parsed response has, in order, exactly the media types of its resolved node
    stream_flag_iff                        `stream` is set iff some media type (lower-cased) is in STREAM_FORMATS or some content schema is binary
    stream_flag_perm_invariant             the flag does not depend on the order of the content mapping (`stream_format` does - nothing reads it)
-/
-- INDEX Pog.LoaderProps: response_content_keys_preserved, stream_flag_iff, stream_flag_perm_invariant, stream_format_perm_counterexample, stream_format_perm_partial
namespace Pog.C05
open Pog Pog.GenCode

/-- `ResponseStrategyResolver._get_primary_response` (types/strategies/response_strategy.py) and
    `_get_primary_response` (helpers/endpoint_utils.py) — modelled independently from their sources as
    `primaryA` / `primaryB` — select the same response for EVERY list of responses: the return type (chosen with
    the first copy) and the first `case` of the `match` (chosen with the second) always belong together. -/
theorem primary_selection_agree (rs : List Resp) : primaryA rs = primaryB rs := primaryA_eq_primaryB rs

/-- The priority rule both copies implement: 200, 201, 202, 204, then the first key starting with `2`, then
    `default`, then the first response. -/
example :
    (primaryA [⟨.num 404, []⟩, ⟨.num 204, []⟩, ⟨.num 201, []⟩]).map (·.key) = some (.num 201) ∧
    (primaryA [⟨.default, []⟩, ⟨.num 206, []⟩, ⟨.other "2XX".toList, []⟩]).map (·.key) = some (.num 206) ∧
    (primaryA [⟨.num 404, []⟩, ⟨.default, []⟩]).map (·.key) = some .default ∧
    (primaryA [⟨.num 404, []⟩, ⟨.num 500, []⟩]).map (·.key) = some (.num 404) ∧
    primaryA [] = none := by decide

/-- A declared 2xx status always selects a `return` arm of the emitted `match`; consequently, with either
    transport, the call never raises one of the package's `HTTPError` classes for it. -/
theorem declared_2xx_never_raises_passthrough (t : TransportKind) (op : Op) (r : Reply)
    (h2 : 200 ≤ r.status ∧ r.status < 300) (hd : ∃ x ∈ op.responses, x.key = .num r.status) :
    (selectAction op.responses r.status).isReturn = true ∧
    ∀ cls st w why, handle t op r ≠ .raised cls st w why := by
  have hret := select_declared_2xx_isReturn op.responses r.status h2 hd
  refine ⟨hret, ?_⟩
  intro cls st w why
  have hb : ¬ (r.status < 200 ∨ r.status ≥ 300) := by omega
  unfold handle
  by_cases hm : moduleOk op = true
  · cases t
    · simp only [hm, Bool.not_true, Bool.false_eq_true, if_false, hb]
      exact runAction_isReturn_not_raised hret cls st w why
    · simp only [hm, Bool.not_true, Bool.false_eq_true, if_false]
      exact runAction_isReturn_not_raised hret cls st w why
  · simp [hm]

/-- C05 "the call returns a value": whenever the emitted module imports, a declared 2xx status makes the call
    RETURN (never `NameError`, never an `HTTPError`) — for every operation, both transports, `Union` return types over
    several response media types included (the missing `structure_from_dict` import of the Content-Type dispatch,
    F58, is repaired; before the repair this needed the hypothesis `isUnion = false`). -/
theorem declared_2xx_returns (t : TransportKind) (op : Op) (r : Reply) (hm : moduleOk op = true)
    (h2 : 200 ≤ r.status ∧ r.status < 300) (hd : ∃ x ∈ op.responses, x.key = .num r.status) :
    ∃ k, handle t op r = .returned k := by
  have hret := select_declared_2xx_isReturn op.responses r.status h2 hd
  have hb : ¬ (r.status < 200 ∨ r.status ≥ 300) := by omega
  obtain ⟨k, hk⟩ := runAction_returns (r := r) hret
  refine ⟨k, ?_⟩
  unfold handle
  cases t <;> simp [hm, hb, hk]

/-- `GET /report`: 200 is a `Report` as JSON or plain text. -/
def exUnion : Op :=
  ⟨"GET".toList, [.lit "/report".toList], [], none,
   [⟨.num 200, [⟨mtJson, .model "Report".toList⟩, ⟨"text/plain".toList, .string⟩]⟩]⟩

example : moduleOk exUnion = true ∧ (resolveStrategy exUnion.responses).isUnion = true := by decide +kernel

/-- The shape that used to end in `NameError` (F58): the JSON branch of a Content-Type dispatch structures the body,
    the `text/plain` branch returns the text. -/
theorem declared_2xx_union_dispatch_returns :
    handle .bundled exUnion ⟨200, some "application/json".toList⟩ = .returned (.structure (.model "Report".toList)) ∧
    handle .bundled exUnion ⟨200, some "text/plain; charset=utf-8".toList⟩ = .returned .text := by
  decide +kernel

/-- A declared 2xx response WITHOUT content returns `None` (keys of a responses object are distinct) — unless the
    method is an async generator (`isAsyncGen`: its primary response is streamed), which cannot return a value: there
    the arm is a bare `return` and the iterator the caller holds ends without an item (F35 repaired; the arm used to be
    `return None`, a SyntaxError next to the `yield`). -/
theorem no_content_returns_none (t : TransportKind) (op : Op) (r : Reply) (hm : moduleOk op = true)
    (hnd : (op.responses.map (·.key)).Nodup) (h2 : 200 ≤ r.status ∧ r.status < 300)
    (x : Resp) (hx : x ∈ op.responses) (hk : x.key = .num r.status) (hc : x.content = []) :
    handle t op r = .returned (if isAsyncGen op.responses then .streamEnd else .none) := by
  have hsel := select_declared_2xx op.responses r.status h2 hnd x hx hk
  have hb : ¬ (r.status < 200 ∨ r.status ≥ 300) := by omega
  by_cases hp : isPrimaryArm op.responses x = true
  · obtain ⟨n, hn⟩ := isPrimaryArm_iff.mp hp
    have hsp := processedPrimary_spec hn
    have hres := resolveStrategy_no_content hsp.2.2.2.2 hc
    have hact : selectAction op.responses r.status = .retNone := by
      rw [hsel, if_pos hp, hres]
      rfl
    have hag : isAsyncGen op.responses = false := by
      unfold isAsyncGen
      rw [hres]
      rfl
    unfold handle
    cases t <;> simp [hm, hb, hact, runAction, hag]
  · cases hst : (resolveStrategy op.responses).isStreaming with
    | true =>
      have hact : selectAction op.responses r.status = .retStreamEnd := by
        rw [hsel, if_neg hp, hst]
        simp [secondaryAction, hc]
      unfold handle
      cases t <;> simp [hm, hb, hact, runAction]
    | false =>
      have hact : selectAction op.responses r.status = .retNone := by
        rw [hsel, if_neg hp, hst]
        simp [secondaryAction, hc]
      have hag : isAsyncGen op.responses = false := by
        unfold isAsyncGen
        rw [hst]
        rfl
      unfold handle
      cases t <;> simp [hm, hb, hact, runAction, hag]

example : handle .bundled
    ⟨"DELETE".toList, [.lit "/a".toList], [], none, [⟨.num 200, [⟨mtJson, .int⟩]⟩, ⟨.num 204, []⟩]⟩ ⟨204, none⟩
      = .returned .none := by decide +kernel

/-- `GET /events`: 200 is an event stream of `Event`s, 201 a `Created` document, 204 nothing. -/
def exStreamTwo : Op :=
  ⟨"GET".toList, [.lit "/events".toList], [], none,
   [⟨.num 200, [⟨"text/event-stream".toList, .model "Event".toList⟩]⟩, ⟨.num 201, [⟨mtJson, .model "Created".toList⟩]⟩,
    ⟨.num 204, []⟩]⟩

/-- F35 repaired, the response without content of a streaming method: the stream ends without an item. -/
theorem no_content_ends_stream (t : TransportKind) (op : Op) (r : Reply) (hm : moduleOk op = true)
    (hnd : (op.responses.map (·.key)).Nodup) (h2 : 200 ≤ r.status ∧ r.status < 300)
    (x : Resp) (hx : x ∈ op.responses) (hk : x.key = .num r.status) (hc : x.content = [])
    (hag : isAsyncGen op.responses = true) :
    handle t op r = .returned .streamEnd := by
  rw [no_content_returns_none t op r hm hnd h2 x hx hk hc, hag]
  rfl

example : moduleOk exStreamTwo = true ∧ (exStreamTwo.responses.map (·.key)).Nodup ∧ isAsyncGen exStreamTwo.responses = true ∧
    handle .passthrough exStreamTwo ⟨204, none⟩ = .returned .streamEnd := by decide +kernel

/-- Every declared 2xx response that is not the primary one has an arm of its own, whose return is chosen from
    ITS schema (`return None` without content) and written by `_write_secondary_return` (`secondaryAction`: `return <value>`,
    or — in a streaming method, F35 repaired — `yield <value>` and a bare `return`). -/
theorem secondary_2xx_arm_exists (op : Op) (r : Reply)
    (hnd : (op.responses.map (·.key)).Nodup) (h2 : 200 ≤ r.status ∧ r.status < 300)
    (x : Resp) (hx : x ∈ op.responses) (hk : x.key = .num r.status) (hnp : isPrimaryArm op.responses x = false) :
    selectAction op.responses r.status = secondaryAction (resolveStrategy op.responses).isStreaming x ∧
    secondaryAction false x = (if x.content.isEmpty then Action.retNone else Action.retSecondary (secondaryRet x)) ∧
    secondaryAction true x = (if x.content.isEmpty then Action.retStreamEnd else Action.yieldSecondary (secondaryRet x)) := by
  refine ⟨?_, rfl, rfl⟩
  rw [select_declared_2xx op.responses r.status h2 hnd x hx hk, hnp]
  rfl

/-- C05 for a 2xx response WITH content next to a streamed primary response (F35 repaired): the method is an async
    generator, the arm `yield`s the value a non-streaming method would have returned (chosen from ITS schema:
    `secondaryRet`) as the only item and returns — the call never fails with `NameError`, and the module imports
    (`hm` no longer excludes this shape, `stream_with_second_2xx_module_ok`). -/
theorem secondary_2xx_of_stream_yields_once (t : TransportKind) (op : Op) (r : Reply) (hm : moduleOk op = true)
    (hnd : (op.responses.map (·.key)).Nodup) (h2 : 200 ≤ r.status ∧ r.status < 300)
    (x : Resp) (hx : x ∈ op.responses) (hk : x.key = .num r.status) (hne : x.content ≠ [])
    (hnp : isPrimaryArm op.responses x = false) (hst : (resolveStrategy op.responses).isStreaming = true) :
    handle t op r = .returned (.yieldOnce (secondaryRet x)) := by
  have hb : ¬ (r.status < 200 ∨ r.status ≥ 300) := by omega
  have hemp : x.content.isEmpty = false := by
    cases hc : x.content with
    | nil => exact absurd hc hne
    | cons _ _ => rfl
  have hact : selectAction op.responses r.status = .yieldSecondary (secondaryRet x) := by
    rw [select_declared_2xx op.responses r.status h2 hnd x hx hk, hnp, hst]
    simp [secondaryAction, hemp]
  have hret : (selectAction op.responses r.status).isReturn = true := by rw [hact]; rfl
  obtain ⟨k, hk'⟩ := runAction_returns (r := r) hret
  have hrun : runAction op.responses r (selectAction op.responses r.status) = .returned (.yieldOnce (secondaryRet x)) := by
    rw [hact] at hk' ⊢
    simp only [runAction, returnOf] at hk' ⊢
    split at hk'
    · cases hk'
    · next hn => rw [if_neg hn]
  unfold handle
  cases t <;> simp [hm, hb, hrun]

example :
    let x : Resp := ⟨.num 201, [⟨mtJson, .model "Created".toList⟩]⟩
    moduleOk exStreamTwo = true ∧ (exStreamTwo.responses.map (·.key)).Nodup ∧ x ∈ exStreamTwo.responses ∧
    isPrimaryArm exStreamTwo.responses x = false ∧ (resolveStrategy exStreamTwo.responses).isStreaming = true ∧
    handle .bundled exStreamTwo ⟨201, none⟩ = .returned (.yieldOnce (.structure (.model "Created".toList))) := by
  decide +kernel

/-- `POST /jobs`: 200 returns a `Job`, 202 an `Accepted`. -/
def exTwo : Op :=
  ⟨"POST".toList, [.lit "/jobs".toList], [], none,
   [⟨.num 200, [⟨mtJson, .model "Job".toList⟩]⟩, ⟨.num 202, [⟨mtJson, .model "Accepted".toList⟩]⟩]⟩

example : isPrimaryArm exTwo.responses ⟨.num 202, [⟨mtJson, .model "Accepted".toList⟩]⟩ = false ∧
    handle .bundled exTwo ⟨202, none⟩ = .returned (.structure (.model "Accepted".toList)) ∧
    handle .bundled exTwo ⟨200, none⟩ = .returned (.structure (.model "Job".toList)) := by decide +kernel

/-- C05 "text responses return the text sent" (F32b repaired): a declared 2xx response whose media types are all
    `text/*`, each with a plain string schema, is returned as `response.text` — whether it is the primary response
    (one media type or several) or has an arm of its own.  A primary response that is STREAMED (`text/event-stream`)
    is an async iterator instead, hence `hns`; next to a streamed primary response the arm of another 2xx response yields
    the text once instead (`secondary_2xx_of_stream_yields_once`), hence `hst`.  Before the repair both arms were
    `cast(str, response.json())`. -/
theorem text_response_returns_text (t : TransportKind) (op : Op) (r : Reply) (hm : moduleOk op = true)
    (hnd : (op.responses.map (·.key)).Nodup) (h2 : 200 ≤ r.status ∧ r.status < 300)
    (x : Resp) (hx : x ∈ op.responses) (hk : x.key = .num r.status) (hne : x.content ≠ [])
    (htx : x.content.all (fun m => isTextCt m.mt) = true) (hsh : ∀ m ∈ x.content, m.shape = .string)
    (hns : isPrimaryArm op.responses x = true → respStream x = false)
    (hst : isPrimaryArm op.responses x = false → (resolveStrategy op.responses).isStreaming = false) :
    handle t op r = .returned .text := by
  have hsel := select_declared_2xx op.responses r.status h2 hnd x hx hk
  have hb : ¬ (r.status < 200 ∨ r.status ≥ 300) := by omega
  by_cases hp : isPrimaryArm op.responses x = true
  · obtain ⟨n, hn⟩ := isPrimaryArm_iff.mp hp
    have hres := resolveStrategy_text (processedPrimary_spec hn).2.2.2.2 hne (hns hp) htx hsh
    have hact : selectAction op.responses r.status = .retStrategy := by
      rw [hsel, if_pos hp, hres]
      rfl
    unfold handle
    cases t <;> simp [hm, hb, hact, runAction, returnOf, hres, strategyRet, RetKind.needsStructure]
  · have hemp : x.content.isEmpty = false := by
      cases hc : x.content with
      | nil => exact absurd hc hne
      | cons _ _ => rfl
    have hact : selectAction op.responses r.status = .retSecondary .text := by
      rw [hsel, if_neg hp, hst (by simpa using hp)]
      simp [secondaryAction, hemp, secondaryRet_text hne htx hsh]
    unfold handle
    cases t <;> simp [hm, hb, hact, runAction, returnOf, RetKind.needsStructure]

/-- `GET /motd`: 200 is JSON, 203 the same message as `text/plain` or `text/html`. -/
def exText : Op :=
  ⟨"GET".toList, [.lit "/motd".toList], [], none,
   [⟨.num 200, [⟨mtJson, .model "Motd".toList⟩]⟩,
    ⟨.num 203, [⟨"text/plain".toList, .string⟩, ⟨"text/html".toList, .string⟩]⟩]⟩

/-- The hypotheses of `text_response_returns_text` are satisfiable by an arm that is not the primary one and by a primary one. -/
example : moduleOk exText = true ∧ (exText.responses.map (·.key)).Nodup ∧
    isPrimaryArm exText.responses ⟨.num 203, [⟨"text/plain".toList, .string⟩, ⟨"text/html".toList, .string⟩]⟩ = false ∧
    (resolveStrategy exText.responses).isStreaming = false ∧
    handle .passthrough exText ⟨203, some "text/html".toList⟩ = .returned .text := by decide +kernel

example :
    let x : Resp := ⟨.num 200, [⟨"text/plain".toList, .string⟩, ⟨"text/csv".toList, .string⟩]⟩
    isPrimaryArm [x, ⟨.num 404, []⟩] x = true ∧ respStream x = false ∧
    x.content.all (fun m => isTextCt m.mt) = true := by decide +kernel

/-- The former witness of F32b — a `text/plain` string response, then emitted as `cast(str, response.json())` (a
    plain-text body raised in `response.json()`) — returns the text; the same schema served as JSON is still decoded. -/
theorem text_response_former_witness :
    handle .bundled ⟨"GET".toList, [.lit "/motd".toList], [], none,
      [⟨.num 200, [⟨"text/plain".toList, .string⟩]⟩]⟩ ⟨200, some "text/plain".toList⟩ = .returned .text ∧
    handle .bundled ⟨"GET".toList, [.lit "/motd".toList], [], none,
      [⟨.num 200, [⟨mtJson, .string⟩]⟩]⟩ ⟨200, some "application/json".toList⟩ = .returned (.cast .str) := by
  decide +kernel

/-- The Content-Type dispatch of a response with several media types (F69 repaired): the arm of a media type whose name
    contains `json` decodes a string body (`cast(str, response.json())`); only a string under another media type is the
    raw `response.text`.  Before the repair every `str` arm returned `response.text`, so the JSON string `"a\"b"` came
    back with its quotes and escapes. -/
theorem dispatch_str_arm (k : Str) :
    tyDispatchRet k .str = (if GenCode.isInfix "json".toList (lowerAscii k) then .cast .str else .text) := by
  unfold tyDispatchRet
  cases h : GenCode.isInfix "json".toList (lowerAscii k)
  · simp
  · simp [tyRet, useCattrs]

/-- The former witness of F69: `{application/vnd.acme.v2+json: Widget, application/json: string}` answered with
    `application/json` (the fallback arm) decodes the string; a `text/plain` string arm still returns the text. -/
theorem dispatch_json_string_former_witness :
    handle .bundled ⟨"GET".toList, [.lit "/w".toList], [], none,
      [⟨.num 200, [⟨"application/vnd.acme.v2+json".toList, .model "Widget".toList⟩, ⟨mtJson, .string⟩]⟩]⟩
      ⟨200, some "application/json".toList⟩ = .returned (.cast .str) ∧
    handle .bundled ⟨"GET".toList, [.lit "/w".toList], [], none,
      [⟨.num 200, [⟨mtJson, .model "Widget".toList⟩, ⟨"text/plain".toList, .string⟩]⟩]⟩
      ⟨200, some "text/plain".toList⟩ = .returned .text := by
  decide +kernel

/-- C05 "streaming responses yield the events the server sent", which parser (F43 repaired): a primary response that
    declares `application/x-ndjson` (any case), no event stream, no binary media type and whose schema is not binary
    is iterated with `iter_ndjson` — before the repair it went through the SSE parser, which yields nothing for
    newline-delimited JSON. -/
theorem ndjson_stream_uses_iter_ndjson (t : TransportKind) (op : Op) (r : Reply) (hm : moduleOk op = true)
    (hnd : (op.responses.map (·.key)).Nodup) (h2 : 200 ≤ r.status ∧ r.status < 300)
    (x : Resp) (hx : x ∈ op.responses) (hk : x.key = .num r.status) (hp : isPrimaryArm op.responses x = true)
    (hnj : x.content.any (fun m => lowerAscii m.mt = mtNdjson) = true)
    (hev : x.content.any (fun m => GenCode.isInfix "event-stream".toList m.mt) = false)
    (hbin : x.content.any (fun m => isBinaryCt m.mt) = false)
    (hsh : ∀ m, strategyMedia x.content = some m → m.shape ≠ .binary) :
    handle t op r = .returned .streamNdjson := by
  have hsel := select_declared_2xx op.responses r.status h2 hnd x hx hk
  have hb : ¬ (r.status < 200 ∨ r.status ≥ 300) := by omega
  obtain ⟨n, hn⟩ := isPrimaryArm_iff.mp hp
  have hres := resolveStrategy_ndjson (processedPrimary_spec hn).2.2.2.2 hnj hev hbin hsh
  have hact : selectAction op.responses r.status = .retStrategy := by
    rw [hsel, if_pos hp, hres]
    rfl
  unfold handle
  cases t <;> simp [hm, hb, hact, runAction, returnOf, hres, strategyRet, RetKind.needsStructure]

/-- `GET /nd`: a stream of `Item`s as NDJSON; 404 declared. -/
def exNd : Op :=
  ⟨"GET".toList, [.lit "/nd".toList], [], none,
   [⟨.num 404, []⟩, ⟨.num 200, [⟨"Application/X-NDJSON".toList, .model "Item".toList⟩]⟩]⟩

example :
    let x : Resp := ⟨.num 200, [⟨"Application/X-NDJSON".toList, .model "Item".toList⟩]⟩
    moduleOk exNd = true ∧ (exNd.responses.map (·.key)).Nodup ∧ isPrimaryArm exNd.responses x = true ∧
    x.content.any (fun m => lowerAscii m.mt = mtNdjson) = true ∧
    x.content.any (fun m => GenCode.isInfix "event-stream".toList m.mt) = false ∧
    x.content.any (fun m => isBinaryCt m.mt) = false ∧
    (strategyMedia x.content).map (·.shape) = some (.model "Item".toList) := by decide +kernel

/-- The former witness of F43 (`application/x-ndjson` with an object schema) is iterated with `iter_ndjson`; an event
    stream keeps the SSE parser, also when NDJSON is declared beside it; NDJSON without a usable schema streams bytes. -/
theorem ndjson_stream_former_witness :
    handle .bundled ⟨"GET".toList, [.lit "/nd".toList], [], none,
      [⟨.num 200, [⟨"application/x-ndjson".toList, .model "GetNd200Response".toList⟩]⟩]⟩
      ⟨200, some "application/x-ndjson".toList⟩ = .returned .streamNdjson ∧
    handle .bundled ⟨"GET".toList, [.lit "/nd".toList], [], none,
      [⟨.num 200, [⟨"application/x-ndjson".toList, .model "E".toList⟩, ⟨"text/event-stream".toList, .model "E".toList⟩]⟩]⟩
      ⟨200, some "text/event-stream".toList⟩ = .returned .streamSse ∧
    handle .bundled ⟨"GET".toList, [.lit "/nd".toList], [], none,
      [⟨.num 200, [⟨"application/x-ndjson".toList, .binary⟩]⟩]⟩
      ⟨200, some "application/x-ndjson".toList⟩ = .returned .streamBytes := by
  decide +kernel

/-- ✗ C05 (binary responses return the bytes sent): a binary response that is not the primary one is
    `cast(bytes, response.json())`. -/
theorem secondary_binary_parsed_as_json_counterexample :
    handle .bundled ⟨"GET".toList, [.lit "/file".toList], [], none,
      [⟨.num 200, [⟨mtJson, .int⟩]⟩, ⟨.num 206, [⟨"application/octet-stream".toList, .binary⟩]⟩]⟩
      ⟨206, some "application/octet-stream".toList⟩ = .returned (.cast .bytes) := by
  decide +kernel

/-- ✗ C05 (F59): a 2xx response that is NOT the primary one gets one `return` chosen from `application/json` (else the
    first media type) — the arm never looks at the Content-Type header.  A `201` declared as
    `application/problem+json: Problem | application/json: Created` answers a conforming `Problem` body by
    structuring it as `Created`. -/
theorem secondary_2xx_ignores_content_type_counterexample :
    let op : Op := ⟨"POST".toList, [.lit "/jobs".toList], [], none,
      [⟨.num 200, [⟨mtJson, .model "Job".toList⟩]⟩,
       ⟨.num 201, [⟨"application/problem+json".toList, .model "Problem".toList⟩, ⟨mtJson, .model "Created".toList⟩]⟩]⟩
    handle .passthrough op ⟨201, some "application/problem+json".toList⟩ = .returned (.structure (.model "Created".toList)) ∧
    handle .passthrough op ⟨201, some "application/json".toList⟩ = .returned (.structure (.model "Created".toList)) := by
  decide +kernel

/-- F35 repaired: whether the emitted module imports no longer depends on the responses at all (before the repair a
    streaming primary response next to another numeric 2xx response put `yield` and `return <value>` into one function —
    `SyntaxError: 'return' with value in async generator`, the whole endpoints package failed to import). -/
theorem stream_with_second_2xx_module_ok (op : Op) (rs : List Resp) :
    moduleOk { op with responses := rs } = moduleOk op := rfl

/-- The former witness of F35 — an event stream next to a 204 — imports: 200 is still iterated with the SSE parser, 204
    ends the stream without an item; a 201 with a JSON body beside them (`exStreamTwo`) yields the decoded `Created` once. -/
theorem stream_with_second_2xx_former_witness :
    let op : Op := ⟨"GET".toList, [.lit "/events".toList], [], none,
      [⟨.num 200, [⟨"text/event-stream".toList, .model "Event".toList⟩]⟩, ⟨.num 204, []⟩]⟩
    moduleOk op = true ∧ handle .bundled op ⟨200, none⟩ = .returned .streamSse ∧
    handle .bundled op ⟨204, none⟩ = .returned .streamEnd ∧
    handle .bundled exStreamTwo ⟨200, none⟩ = .returned .streamSse ∧
    handle .bundled exStreamTwo ⟨201, none⟩ = .returned (.yieldOnce (.structure (.model "Created".toList))) ∧
    handle .bundled exStreamTwo ⟨204, none⟩ = .returned .streamEnd := by
  decide +kernel

end Pog.C05
