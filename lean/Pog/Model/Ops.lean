import Pog.Model.Fresh
/-
  M-ops: from the `paths` object of a raw document to the method names of the tag clients.

    core/loader/operations/parser.py:59-164   the loop over paths and path-item keys, the per-operation
                                              `try … except Exception: warnings.warn(…); continue`
    core/loader/responses/parser.py:37-44     `code must be a string`, `operation_id_for_promo must be provided`
    http_types.py                             `HTTPMethod.__members__`
    emitters/endpoints_emitter.py:111-184     global id de-duplication (`Pog.dedupOpIds`) and tag grouping
    generator/client_generator.py:429-438     the direct path calls `EndpointsEmitter.emit` TWICE on the same
                                              IROperation objects (the 2nd time inside a log f-string)

  What is abstracted: everything of an operation node except `operationId`, `tags` and the KEYS of
  `responses` is folded into the boolean `parseRaises` (= "the node is not a mapping, or a parameter /
  request body / path-level parameter makes the parser raise" — all of these are evaluated before the
  responses).  `StatusKey.intKey` is an unquoted integer key (`200:` in YAML): since the repair of F16 the operations parser
  reads it as the string `"200"`.  `StatusKey.badKey` stands for every other non-`str` key `yaml.safe_load` can produce
  (`1.5:`, `true:`, `~:`; the payload is the text a JSON rendering would have as key): `parse_response` rejects those.
  Non-ASCII `str.upper()` of the method key enters through `UInfo` (`"poſt".upper() == "POST"`).
-/
namespace Pog.Ops
open Pog

inductive StatusKey
  | strKey (s : Str)
  | intKey (i : Int)
  | badKey (r : Str)
  deriving DecidableEq, Repr

/-- The value of the `tags` member: absent, a list of strings, or (document error, accepted by the
    code) a bare string, which `list(…)` explodes into its characters. -/
inductive RawTags
  | absent
  | list (ts : List Str)
  | str (s : Str)
  deriving DecidableEq, Repr

structure RawOp where
  operationId : Option Str := none
  tags : RawTags := .absent
  responses : List StatusKey := []
  parseRaises : Bool := false
  deriving DecidableEq, Repr

/-- `pyopenapi_gen.ir.NamingStrategy` -/
inductive Naming
  | operationId
  | clean
  | path
  deriving DecidableEq, Repr

/-- One path item: its keys in document order (method keys and everything else). -/
abbrev PathItem := List (Str × RawOp)
abbrev Paths := List (Str × PathItem)

structure IROp where
  path : Str
  method : Str        -- member name of `HTTPMethod`
  opId : Str
  tags : List Str
  deriving DecidableEq, Repr

/-- Which `raise` ended the parsing of an operation (the text after the colon of the warning). -/
inductive DropReason
  | other          -- `parseRaises`
  | codeNotStr     -- `TypeError("code must be a string")`
  | emptyOpId      -- `ValueError("operation_id_for_promo must be provided")`
  deriving DecidableEq, Repr

/-- `Skipping operation parsing for {method.upper()} {path}: {e}` -/
structure OpWarning where
  method : Str
  path : Str
  reason : DropReason
  deriving DecidableEq, Repr

/-- `HTTPMethod.__members__` -/
def httpMethods : List Str :=
  ["GET".toList, "POST".toList, "PUT".toList, "PATCH".toList, "DELETE".toList, "OPTIONS".toList,
   "HEAD".toList, "TRACE".toList]

/-- parser.py:68-74 -/
def skipKeys : List Str :=
  ["parameters".toList, "summary".toList, "description".toList, "servers".toList, "$ref".toList]

/-- `NameSanitizer.sanitize_method_name(f"{mu}_{path}".strip("/"))` for the already upper-cased key. -/
def deriveOpIdU (mu path : Str) : Str := sanMethod (stripC '/' (mu ++ '_' :: path))

/-- The fallback operation id of a raw method key. -/
def deriveOpId (u : UInfo) (method path : Str) : Str := deriveOpIdU (u.upperS method) path

/-- `node_op.get("operationId")` as a truth value: the declared id when the member is present and not the empty string
    (F44 repaired: `operationId: ""` is treated like an absent id). -/
def declaredId : Option Str → Option Str
  | some id => if id.isEmpty then none else some id
  | none => none

/-- parser.py:83-91 -/
def chooseOpId (s : Naming) (mu path : Str) (declared : Option Str) : Str :=
  match s, declaredId declared with
  | .path, _ => deriveOpIdU mu path
  | .clean, some id => cleanOpId id mu path
  | .operationId, some id => id
  | _, none => deriveOpIdU mu path

/-- `list(node_op.get("tags", []))` -/
def tagsList : RawTags → List Str
  | .absent => []
  | .list ts => ts
  | .str s => s.map (fun c => [c])

/-- The `for sc, rn_node in responses.items(): parse_response(sc, …, operation_id)` loop up to its
    first `raise` (responses/parser.py:37-44: the code check comes before the id check). -/
def respError (opId : Str) : List StatusKey → Option DropReason
  | [] => none
  | .badKey _ :: _ => some .codeNotStr
  | .strKey _ :: rest => if opId.isEmpty then some .emptyOpId else respError opId rest
  -- `sc if isinstance(sc, str) else str(sc)` for ints (operations/parser.py, F16 repaired): the same path as a string key
  | .intKey _ :: rest => if opId.isEmpty then some .emptyOpId else respError opId rest

inductive OpResult
  | skipped                   -- `continue` without a trace: not an operation
  | dropped (w : OpWarning)   -- the `except Exception` branch
  | parsed (op : IROp)
  deriving DecidableEq, Repr

/-- Is this path-item key an operation?  (`method in {…}: continue`, `mu not in HTTPMethod.__members__: continue`) -/
def recognised (u : UInfo) (key : Str) : Bool :=
  !skipKeys.contains key && httpMethods.contains (u.upperS key)

/-- The body of the inner loop for one `(method, node)` entry of a path item. -/
def parseOne (u : UInfo) (s : Naming) (path key : Str) (op : RawOp) : OpResult :=
  if skipKeys.contains key then .skipped else
  let mu := u.upperS key
  if !httpMethods.contains mu then .skipped else
  let opId := chooseOpId s mu path op.operationId
  if op.parseRaises then .dropped ⟨mu, path, .other⟩ else
  match respError opId op.responses with
  | some r => .dropped ⟨mu, path, r⟩
  | none => .parsed ⟨path, mu, opId, tagsList op.tags⟩

/-- `for method, on in entry.items(): …` -/
def parseItem (u : UInfo) (s : Naming) (path : Str) : PathItem → List IROp × List OpWarning
  | [] => ([], [])
  | (key, op) :: rest =>
    let r := parseItem u s path rest
    match parseOne u s path key op with
    | .skipped => r
    | .dropped w => (r.1, w :: r.2)
    | .parsed o => (o :: r.1, r.2)

/-- `parse_operations`: the IR operations and the warnings, both in document order. -/
def parseOps (u : UInfo) (s : Naming) : Paths → List IROp × List OpWarning
  | [] => ([], [])
  | (path, item) :: rest =>
    let a := parseItem u s path item
    let b := parseOps u s rest
    (a.1 ++ b.1, a.2 ++ b.2)

/-- The identity of an operation. -/
def IROp.key (o : IROp) : Str × Str := (o.path, o.method)

/-- All `(path, METHOD)` pairs of the document with a recognised method key, in document order. -/
def allPairs (u : UInfo) : Paths → List (Str × Str)
  | [] => []
  | (path, item) :: rest =>
    (item.filterMap (fun e => if recognised u e.1 then some (path, u.upperS e.1) else none))
      ++ allPairs u rest

/-- No recognised operation of the document makes the parser raise. -/
def opRaises (u : UInfo) (s : Naming) (path key : Str) (op : RawOp) : Bool :=
  match parseOne u s path key op with
  | .dropped _ => true
  | _ => false

def parseSucceeds (u : UInfo) (s : Naming) (paths : Paths) : Bool :=
  paths.all (fun p => p.2.all (fun e => !opRaises u s p.1 e.1 e.2))

/-! ### After the loader: de-duplication and tag grouping (endpoints_emitter.py) -/

/-- The operation ids after `EndpointsEmitter.emit` ran `passes` times over the same operation
    objects: once on the diff path (`force=False` and the output exists), twice on the direct path. -/
def dedupPasses : Nat → List Str → List Str
  | 0, ids => ids
  | n + 1, ids => dedupPasses n (dedupOpIds [] ids)

def emitPasses (direct : Bool) : Nat := if direct then 2 else 1

/-- The method names written to the endpoint modules, one per IR operation, in IR order. -/
def finalMethodNames (direct : Bool) (ops : List IROp) : List Str :=
  (dedupPasses (emitPasses direct) (ops.map (·.opId))).map sanMethod

def defaultTag : Str := "default".toList

/-- `op.tags or [DEFAULT_TAG]` -/
def opTags (o : IROp) : List Str := if o.tags.isEmpty then [defaultTag] else o.tags

/-- `tag_key_to_ops.setdefault(key, []).append(x)` on an insertion-ordered dict. -/
def appendAt {α : Type} (g : List (Str × List α)) (k : Str) (x : α) : List (Str × List α) :=
  match g with
  | [] => [(k, [x])]
  | (k', l) :: rest => if k' == k then (k', l ++ [x]) :: rest else (k', l) :: appendAt rest k x

/-- The inner loop `for tag in tags:` for one item, with the per-operation set `keys_of_op`:
    ```
    key = normalize_tag_key(tag)
    if key not in keys_of_op:
        keys_of_op.add(key)
        tag_key_to_ops.setdefault(key, []).append(op)
    ``` -/
def addOpTags {α : Type} (u : UInfo) (it : α) : List Str → List Str → List (Str × List α) → List (Str × List α)
  | _, [], g => g
  | keysOfOp, t :: ts, g =>
    let k := normTagKey u t
    if keysOfOp.contains k then addOpTags u it keysOfOp ts g
    else addOpTags u it (k :: keysOfOp) ts (appendAt g k it)

/-- endpoints_emitter.py:172-184: one entry per normalised tag key; each carries, in order, one item per operation that has
    at least one tag with that key (an operation tagged with two spellings of one tag is appended once).
    Items are `(operation, its method name)`. -/
def groupByTag (u : UInfo) (items : List (IROp × Str)) : List (Str × List (IROp × Str)) :=
  items.foldl (fun g it => addOpTags u it [] (opTags it.1) g) []

/-- The clients: normalised tag key ↦ the method names defined in that client class, in order. -/
def clients (u : UInfo) (direct : Bool) (ops : List IROp) : List (Str × List Str) :=
  (groupByTag u (ops.zip (finalMethodNames direct ops))).map (fun g => (g.1, g.2.map (·.2)))

end Pog.Ops
