"""Seeded structured generator of OpenAPI 3.0 documents, conforming JSON instances and argument values.

Every random choice derives from the `random.Random` passed in.  `Opts.mainstream=True` restricts the
document to the feature set for which no recorded finding (known_findings.json) applies, so that oracles
can assert success outright on that sub-domain; features are switched on individually by the checks that
need them.
"""
from __future__ import annotations

import copy
import random
import re
from dataclasses import dataclass, field

SCHEMA_NAMES = ["Pet", "Owner", "Order", "Tag", "Event", "Address", "Invoice", "Widget", "Report", "Shelf"]
PREFIX_NAMES = ["User", "UserGroup", "OrderItem", "PetItem", "TagProperty"]
PROP_NAMES = ["id", "name", "createdAt", "count", "is_active", "tags", "owner", "kind", "price", "note", "items",
              "display-name", "X-Code", "class", "type", "userId", "user_id", "meta", "ratio", "birthday", "payload"]
TAGS = ["Users", "Pets", "Orders", "admin", "Data Sources", "v2", "Billing v1", "Billing v2", "Pet", "Order", "tag",   # tag module stem == a model's module stem
        "import", "global", "config"]   # keywords / a name APIClient uses itself: the attribute must stay usable (import_, config_)
TAG_VARIANTS = {"Users": ["users", "USERS"], "Data Sources": ["data_sources", "DataSources", "data-sources"]}
SEGS = ["users", "pets", "orders", "items", "v1", "reports", "user-groups", "things"]
PVARS = ["id", "user_id", "petId", "order-id", "name"]
METHODS = ["get", "post", "put", "patch", "delete"]
QNAMES = ["limit", "offset", "q", "sort-by", "includeDeleted", "since", "filter", "X-Page", "status"]
HNAMES = ["X-Request-Id", "X-Trace", "Accept-Language", "x-api-version", "If-Match", "Accept", "Authorization"]


@dataclass
class Opts:
    mainstream: bool = True
    max_schemas: int = 5
    max_ops: int = 5
    cycles: bool = False            # schema reference cycles (self via array is always allowed)
    prefix_names: bool = False      # names that are prefixes of one another (F7)
    all_of: bool = True
    unions: bool = False
    formats: tuple = ("date-time", "date", "byte")
    cookie_params: bool = False
    multi_content: bool = False
    redirects: bool = False         # declared 1xx/3xx responses (F3)
    streaming: bool = False
    text_binary: bool = True
    path_level_params: bool = True
    dup_opids: bool = False
    multi_tags: bool = False
    tag_variants: bool = False
    no_ops: bool = False
    hostile_prop_names: bool = False
    error_responses: bool = True
    default_response: bool = True
    forms: bool = True
    inline_objects: bool = True
    maps: bool = True
    nullable: bool = True
    enums: bool = True
    array_params: bool = False
    min_ops: int = 1
    always_opid: bool = False
    self_ref: bool = True           # self reference through an array (imports fine, but cannot be decoded: F42)
    defaults: bool = False          # `default` values on enum schemas and primitive properties
    colliding_props: bool = False   # property names that collide after sanitisation (userId, user_id, user_id_2, user-id)
    prim_unions: bool = False       # oneOf/anyOf of primitive schemas, some collapsing to one python type
    discriminators: bool = False    # oneOf of object schemas with a discriminator + mapping (inline enum on the discriminator property)
    allof_variants: bool = False    # requirement-only allOf parts, own part before the parent, properties next to allOf
    colliding_names: bool = False   # schema names that collide after class-casing / snake-casing (LineItem, line_item, Line-Item)
    ndjson: bool = False            # application/x-ndjson responses (iterated with iter_ndjson since the repair of F43)
    enum_params: bool = True
    typed_headers: bool = False     # header parameters of non-string type (F39)
    name_clash: bool = False        # property names that class-case to a schema name / parent prefix (F36, F37)
    component_params: bool = False  # components.parameters shared through $ref by several operations (arrays of inline enums, inline objects)
    multi_2xx: bool = False         # several of 200/201/202/204 with different bodies, listed in any order
    error_only_ops: bool = False    # some operations document no 2xx and no default response at all (only errors, or nothing)
    component_responses: bool = False  # error responses taken from components.responses through $ref, one entry under several statuses
    shared_error_codes: bool = False   # error statuses drawn from three codes only, so that several operations reference the SAME components.responses entry under the SAME status (round 5, C19-7)
    yaml_media: bool = False        # some responses / request bodies declare only YAML media types (application/yaml, application/x-yaml)
    multi_media_resp: bool = False  # a 2xx response with several media types of different python types (Content-Type dispatch)


def _prim(r: random.Random, o: Opts, allow_enum=True) -> dict:
    s = _prim0(r, o, allow_enum)
    if o.defaults and r.random() < 0.25:
        t = s.get("type")
        if "enum" in s:
            safe = [v for v in s["enum"] if re.fullmatch(r"[A-Za-z][A-Za-z0-9 _-]*", v)]
            cand = s["enum"]          # F53 repaired: every value may be a default (was: only [A-Za-z][A-Za-z0-9 _-]* in mainstream documents)
            if cand:
                s["default"] = r.choice(cand)
        elif t == "string" and "format" not in s:
            s["default"] = r.choice(["x", "in-progress", "a b", ""])
        elif t == "integer":
            s["default"] = r.choice([0, 1, 10])
        elif t == "boolean":
            s["default"] = r.choice([True, False])
    return s


def _prim0(r: random.Random, o: Opts, allow_enum=True) -> dict:
    k = r.random()
    if k < 0.3:
        s: dict = {"type": "string"}
        if o.formats and r.random() < 0.35:
            s["format"] = r.choice(o.formats)
        elif allow_enum and o.enums and r.random() < 0.2:
            s["enum"] = r.sample(["a", "b", "in-progress", "DONE", "x y", "1st"], r.randint(1, 4))
        return s
    if k < 0.55:
        return {"type": "integer"}
    if k < 0.7:
        return {"type": "number"}
    if k < 0.85:
        return {"type": "boolean"}
    return {"type": "string"}


def _ref(n: str) -> dict:
    return {"$ref": f"#/components/schemas/{n}"}


def _clashes(pname: str, names: list[str]) -> bool:
    q = re.sub(r"[^a-z0-9]", "", pname.lower())
    return any(q.startswith(n.lower()) or n.lower().startswith(q) for n in names)


def gen_property(r: random.Random, o: Opts, names: list[str], me: str, earlier: list[str], depth=0, pname: str = "") -> dict:
    """A property schema.  `earlier` = names this schema may reference without creating a cycle."""
    k = r.random()
    if not o.name_clash and _clashes(pname, names) and 0.72 <= k < 0.80:
        k = 0.1    # F37: an inline-object property whose class-cased name matches a named schema is typed as that schema
    targets = list(earlier)
    if o.cycles:
        targets = [n for n in names]
    if k < 0.40 or (not targets and k < 0.6):
        s = _prim(r, o)
    elif k < 0.52 and targets:
        s = _ref(r.choice(targets))
    elif k < 0.64 and targets:
        s = {"type": "array", "items": _ref(r.choice(targets))}
    elif k < 0.72:
        s = {"type": "array", "items": _prim(r, o, allow_enum=False)}
    elif k < 0.80 and o.inline_objects and depth < 2:
        props = {}
        cand = PROP_NAMES[:12]
        if not o.name_clash:
            # F37: a nested inline property whose class-cased name equals a named schema is typed as that schema
            low = [n.lower() for n in names]
            cand = [p for p in cand if not any(re.sub(r"[^a-z0-9]", "", p.lower()).startswith(n) or n.startswith(re.sub(r"[^a-z0-9]", "", p.lower())) for n in low)] or ["note"]
        for p in r.sample(cand, min(len(cand), r.randint(1, 3))):
            props[p] = gen_property(r, o, names, me, earlier, depth + 1, pname=p) if r.random() < 0.3 else _prim(r, o, allow_enum=False)
        s = {"type": "object", "properties": props}
        if r.random() < 0.5:
            s["required"] = r.sample(sorted(props), r.randint(0, len(props)))
    elif k < 0.86 and o.maps:
        s = {"type": "object", "additionalProperties": _prim(r, o, allow_enum=False) if r.random() < 0.7 or not targets else _ref(r.choice(targets))}
    elif k < 0.90 and o.self_ref and (depth == 0 or o.cycles):
        s = {"type": "array", "items": _ref(me)}       # self reference through an array (top level only in mainstream:
        #                                                through a promoted inline object it is a module cycle, F2)
    elif k < 0.95 and o.unions and len(targets) >= 2:
        s = {r.choice(["oneOf", "anyOf"]): [_ref(t) for t in r.sample(targets, 2)]}
    elif k < 0.97 and o.prim_unions:
        s = {r.choice(["oneOf", "anyOf"]): r.sample([{"type": "string"}, {"type": "integer"}, {"type": "string", "format": "email"}, {"type": "boolean"},
                                                     {"type": "string", "format": "uri"}, {"type": "number"}], r.randint(2, 4))}
    else:
        s = _prim(r, o)
    if o.nullable and "$ref" not in s and "oneOf" not in s and "anyOf" not in s and r.random() < 0.12:
        s["nullable"] = True
    return s


def gen_schemas(r: random.Random, o: Opts) -> dict:
    pool = list(SCHEMA_NAMES)
    if o.prefix_names:
        pool += PREFIX_NAMES
    n = r.randint(0 if o.no_ops else 1, o.max_schemas)
    names = r.sample(pool, min(n, len(pool)))
    if o.colliding_names and names:
        base = names[0]
        snake = re.sub(r"([a-z])([A-Z])", r"\1_\2", base).lower()
        variants = [snake, base + "2", snake + "_2", base.upper(), re.sub(r"([a-z])([A-Z])", r"\1-\2", base), base.lower()]
        extra = [v for v in r.sample(variants, r.randint(1, 3)) if v not in names]
        names = names[:1] + extra + names[1:]
        colliding = set(names[:1] + extra)
    else:
        colliding = set()
    schemas: dict = {}
    for i, name in enumerate(names):
        # colliding schemas are leaf objects nobody references: references to de-collided classes are a recorded defect (F54)
        earlier = [n for n in names[:i] if n not in colliding]
        if name in colliding:
            # (a property whose class-cased name starts with the schema's name is taken for the schema itself: F36 -> F1; keep those out)
            pn = r.sample([p for p in PROP_NAMES if p not in ("class", "type") and not re.sub(r"[^a-z0-9]", "", p.lower()).startswith(re.sub(r"[^a-z0-9]", "", name.lower()))],
                          r.randint(1, 4))
            schemas[name] = {"type": "object", "properties": {p: _prim0(r, o, allow_enum=False) for p in pn}}
            continue
        kind = r.random()
        if kind < 0.08 and o.enums:
            schemas[name] = {"type": "string", "enum": r.sample(["red", "green", "dark-blue", "N/A", "2x"], r.randint(1, 4))}
            if o.defaults and r.random() < 0.7:
                # F53: the default's member name is derived by upper()/-/space replacement only, unlike EnumGenerator's member names
                safe = [v for v in schemas[name]["enum"] if re.fullmatch(r"[A-Za-z][A-Za-z0-9 _-]*", v)]
                cand = schemas[name]["enum"]          # F53 repaired
                if cand:
                    schemas[name]["default"] = r.choice(cand)
            continue
        if kind < 0.13:
            schemas[name] = {"type": "array", "items": _ref(r.choice(earlier)) if earlier and r.random() < 0.6 else _prim(r, o, False)}
            continue
        pnames = r.sample(PROP_NAMES, r.randint(1, 6))
        if o.colliding_props and r.random() < 0.5:
            base = r.choice(["userId", "addressLine", "ownerId"])
            snake = re.sub(r"([a-z])([A-Z])", r"\1_\2", base).lower()
            pnames = [p for p in pnames if p not in ("userId", "user_id")] + r.sample([base, snake, snake + "_2", snake.replace("_", "-")], r.randint(2, 4))
        if o.mainstream:
            pnames = [p for p in pnames if p not in ("class", "type")] or ["name"]
        if not o.name_clash:
            # F36: a property whose class-cased name starts with the schema name is taken for the schema itself
            pnames = [p for p in pnames if not re.sub(r"[^a-z0-9]", "", p.lower()).startswith(name.lower())] or ["note"]
        props = {p: gen_property(r, o, names, name, earlier, pname=p) for p in pnames}
        if not o.name_clash:
            # properties whose class-cased names coincide (userId / user_id / user-id) must not BOTH be promoted (inline object,
            # map, enum, union): their synthetic class names would collide (recorded with F37)
            keyc: dict = {}
            for p in pnames:
                keyc.setdefault(re.sub(r"[^a-z0-9]", "", p.lower()), []).append(p)
            for grp in keyc.values():
                if len(grp) > 1:
                    for p in grp:
                        v = props[p]
                        if v.get("type") not in ("string", "integer", "number", "boolean") or "enum" in v:
                            props[p] = _prim0(r, o, allow_enum=False)
        obj: dict = {"type": "object", "properties": props}
        req = [p for p in pnames if r.random() < 0.4]
        if req:
            obj["required"] = req
        if r.random() < 0.3:
            obj["description"] = f"A {name} object."
        objs = [e for e in earlier if schemas[e].get("type") == "object" and "properties" in schemas[e]]
        if o.all_of and objs and r.random() < 0.2:
            parent = r.choice(objs)
            own = {k: v for k, v in props.items() if k not in _all_props(schemas, parent)}
            if not o.name_clash:
                # promoted names inside an allOf part lose the parent prefix and collide across schemas: keep parts flat
                own = {k: v for k, v in own.items() if "properties" not in v and "additionalProperties" not in v and "oneOf" not in v and "anyOf" not in v and "enum" not in v
                       and not (v.get("type") == "array" and "properties" in v.get("items", {}))}
            part: dict = {"type": "object", "properties": own}
            reqo = [p for p in own if r.random() < 0.4]
            if reqo:
                part["required"] = reqo
            schemas[name] = {"allOf": [_ref(parent), part]}
            if o.allof_variants:
                # a self reference among properties declared next to allOf loses every field (cycle class F52): keep those out
                own = {k: v for k, v in own.items() if _ref(name) != v.get("items") and _ref(name) != v}
                part = {"type": "object", "properties": own}
                if [p for p in reqo if p in own]:
                    part["required"] = [p for p in reqo if p in own]
                schemas[name] = {"allOf": [_ref(parent), part]}
                k2 = r.random()
                inherited = list(_all_props(schemas, parent))
                if k2 < 0.3:
                    schemas[name] = {"allOf": [part, _ref(parent)]}                       # own part first
                elif k2 < 0.55 and inherited:
                    schemas[name] = {"allOf": [{"required": r.sample(inherited, 1)}, _ref(parent), part]}   # requirement-only part first
                elif k2 < 0.8 and own:
                    # properties (and their requirement) declared NEXT TO allOf
                    schemas[name] = {"allOf": [_ref(parent), {"required": [next(iter(own))]}], "type": "object", "properties": own}
            continue
        schemas[name] = obj
    if o.discriminators and r.random() < 0.6:
        a, b = "Cat", "Dog"
        if a not in schemas and b not in schemas:
            schemas[a] = {"type": "object", "required": ["kind"], "properties": {"kind": {"type": "string", "enum": ["cat"]}, "lives": {"type": "integer"}}}
            schemas[b] = {"type": "object", "required": ["kind"], "properties": {"kind": {"type": "string", "enum": ["dog"]}, "tricks": {"type": "array", "items": {"type": "string"}}}}
            schemas["Animal"] = {"oneOf": [_ref(a), _ref(b)], "discriminator": {"propertyName": "kind", "mapping": {"cat": "#/components/schemas/Cat", "dog": "#/components/schemas/Dog"}}}
    return schemas


def _all_props(schemas: dict, name: str, seen=None) -> dict:
    seen = seen or set()
    if name in seen or name not in schemas:
        return {}
    seen.add(name)
    s = schemas[name]
    out: dict = {}
    for part in s.get("allOf", []):
        if "$ref" in part:
            out.update(_all_props(schemas, part["$ref"].rsplit("/", 1)[-1], seen))
        else:
            out.update(part.get("properties", {}))
    out.update(s.get("properties", {}))
    return out


def gen_body_schema(r: random.Random, o: Opts, schemas: dict) -> dict:
    objs = [n for n, s in schemas.items() if s.get("type") == "object" or "allOf" in s]
    k = r.random()
    if objs and k < 0.6:
        return _ref(r.choice(objs))
    if objs and k < 0.75:
        return {"type": "array", "items": _ref(r.choice(objs))}
    if k < 0.85:
        return {"type": "array", "items": _prim(r, o, False)}
    if k < 0.93:
        return {"type": "object", "properties": {"name": {"type": "string"}, "count": {"type": "integer"}}, "required": ["name"]}
    return _prim(r, o, False)


def gen_operation(r: random.Random, o: Opts, schemas: dict, path_vars: list[str], path_level: list[dict], idx: int) -> dict:
    op: dict = {}
    k = r.random()
    if k < 0.75 or o.always_opid:
        op["operationId"] = r.choice(["get", "list", "create", "update", "delete", "fetch", "search"]) + r.choice(["User", "Pets", "_order", "Item", "Report", "-thing"]) + (str(idx) if not o.dup_opids or r.random() < 0.6 else "")
    if r.random() < 0.8:
        t = r.choice(TAGS)
        tags = [t]
        if o.tag_variants and t in TAG_VARIANTS and r.random() < 0.5:
            tags = [r.choice(TAG_VARIANTS[t])]
        if o.multi_tags and r.random() < 0.3:
            tags.append(r.choice([x for x in TAGS if x != t]))
        op["tags"] = tags
    if r.random() < 0.5:
        op["summary"] = f"Operation number {idx}"
    params = []
    declared_at_path = {p["name"] for p in path_level}
    for v in path_vars:
        if v not in declared_at_path:
            params.append({"name": v, "in": "path", "required": True, "schema": r.choice([{"type": "string"}, {"type": "integer"}] + ([{"type": "string", "format": "date-time"}, {"type": "string", "format": "date"}] if "date" in o.formats else []))})
    used = {v for v in path_vars}
    for _ in range(r.randint(0, 3)):
        loc = r.choice(["query", "query", "header"] + (["cookie"] if o.cookie_params else []))
        name = r.choice(QNAMES if loc != "header" else HNAMES)
        san = re.sub(r"[^a-z0-9]+", "_", re.sub(r"([a-z0-9])([A-Z])", r"\1_\2", name).lower()).strip("_")
        if san in used or san in ("body", "files", "form_data", "bytes_content", "content_type"):
            continue
        used.add(san)
        sch = _prim(r, o, allow_enum=o.enum_params)
        if sch.get("format") == "byte":
            sch.pop("format")
        if loc == "header" and not o.typed_headers:
            sch = {"type": "string"}
        if o.array_params and loc == "query" and r.random() < 0.25:
            sch = {"type": "array", "items": r.choice([{"type": "string"}, {"type": "string", "format": "date"}] if "date" in o.formats else [{"type": "string"}])}
        p = {"name": name, "in": loc, "schema": sch}
        if r.random() < 0.3:
            p["required"] = True
        params.append(p)
    if o.component_params:
        # the parameters whose schema is promoted to a model (inline enum array, inline object) are the interesting ones: each
        # operation takes each of them with probability 1/2, so that most documents share one between several operations
        for cname in [c for c in sorted(COMPONENT_PARAMS) if r.random() < (0.5 if c in ("StateFilter", "Window", "Mode") else 0.25)]:
            cp = COMPONENT_PARAMS[cname]
            san = re.sub(r"[^a-z0-9]+", "_", re.sub(r"([a-z0-9])([A-Z])", r"\1_\2", cp["name"]).lower()).strip("_")
            if san in used:
                continue
            used.add(san)
            params.append({"$ref": f"#/components/parameters/{cname}"})
    if params:
        op["parameters"] = params
    return op


COMPONENT_PARAMS = {
    "StateFilter": {"name": "state", "in": "query", "schema": {"type": "array", "items": {"type": "string", "enum": ["open", "paid", "void"]}}},
    "PageSize": {"name": "pageSize", "in": "query", "schema": {"type": "integer"}},
    "Window": {"name": "window", "in": "query", "schema": {"type": "object", "properties": {"from": {"type": "string"}, "to": {"type": "string"}}}},
    "Mode": {"name": "mode", "in": "query", "required": True, "schema": {"type": "string", "enum": ["fast", "slow"]}},
    "Trace": {"name": "X-Trace-Level", "in": "header", "schema": {"type": "string"}},
}


COMPONENT_RESPONSES = {
    "Problem": {"description": "a problem", "content": {"application/json": {"schema": {"type": "object", "properties": {"title": {"type": "string"}, "status": {"type": "integer"}}}}}},
    "Empty": {"description": "no body"},
}

STREAM_TYPES = ("application/octet-stream", "text/event-stream", "application/x-ndjson")


def is_stream_content(content: dict) -> bool:
    for mt, m in (content or {}).items():
        if mt.lower() in STREAM_TYPES + ("application/json-seq", "multipart/mixed"):
            return True
        if isinstance(m, dict) and isinstance(m.get("schema"), dict) and m["schema"].get("format") == "binary":
            return True
    return False


def gen_responses(r: random.Random, o: Opts, schemas: dict) -> dict:
    resp: dict = {}
    stream_op = False
    k0 = r.random()
    if o.text_binary and k0 < 0.07:
        stream_op = True
        resp[r.choice(["200", "201"])] = {"description": "binary", "content": {"application/octet-stream": {"schema": {"type": "string", "format": "binary"}}}}
    elif o.streaming and k0 < 0.2:
        stream_op = True
        resp["200"] = {"description": "stream", "content": {r.choice(["text/event-stream", "application/x-ndjson"] if o.ndjson else ["text/event-stream"]): {"schema": gen_body_schema(r, o, schemas)}}}
    error_only = o.error_only_ops and not stream_op and r.random() < 0.2
    if error_only:
        pass
    elif not stream_op or not o.mainstream:
        n2 = r.choice([1, 1, 1, 2]) if not o.multi_2xx else r.choice([2, 2, 3])
        k2x = r.random()
        codes2 = r.sample(["200", "201", "202", "204"], n2) if k2x < 0.85 else (["206"] if k2x < 0.9 else r.sample(["203", "204", "206", "207", "226"], 2))
        for c in codes2:
            if c in resp:
                continue
            if c == "204" or r.random() < 0.12:
                resp[c] = {"description": f"status {c}"}
                continue
            if o.yaml_media and r.random() < 0.3:
                content = {r.choice(["application/yaml", "application/x-yaml", "application/vnd.acme+yaml"]): {"schema": gen_body_schema(r, o, schemas)}}
            elif r.random() < 0.85 or not o.text_binary:
                content = {"application/json": {"schema": gen_body_schema(r, o, schemas)}}
                if o.multi_media_resp and r.random() < 0.35:
                    extra = r.choice([("text/plain", {"type": "string"}), ("application/vnd.acme.v2+json", gen_body_schema(r, o, schemas)),
                                      ("application/problem+json", {"type": "object", "properties": {"title": {"type": "string"}, "status": {"type": "integer"}}})])
                    content[extra[0]] = {"schema": extra[1]}
                    if r.random() < 0.4:
                        content = dict(reversed(list(content.items())))
            else:
                content = {"text/plain": {"schema": {"type": "string"}}}
            resp[c] = {"description": f"status {c}", "content": content}
    if o.error_responses:
        for c in (r.sample(["400", "404", "500"], r.randint(1, 2)) if o.shared_error_codes else
                  r.sample(["400", "401", "403", "404", "409", "418", "422", "429", "500", "501", "502", "503"], r.randint(0, 3))):
            resp[c] = {"description": f"error {c}"}
            if o.component_responses and r.random() < 0.7:
                resp[c] = {"$ref": "#/components/responses/" + r.choice(sorted(COMPONENT_RESPONSES))}
            elif r.random() < 0.3:
                resp[c]["content"] = {"application/json": {"schema": {"type": "object", "properties": {"message": {"type": "string"}}}}}
    if o.redirects and r.random() < 0.4:
        resp[r.choice(["301", "302", "304", "101"])] = {"description": "redirect"}
    if error_only and not resp:
        resp["404"] = {"description": "error 404"}
    if o.default_response and r.random() < 0.25 and not (stream_op and o.mainstream) and not error_only:
        resp["default"] = {"description": "unexpected"}
    return dict(sorted(resp.items(), key=lambda kv: r.random())) if r.random() < 0.3 else resp


def gen_spec(r: random.Random, o: Opts | None = None) -> dict:
    o = o or Opts()
    schemas = gen_schemas(r, o)
    paths: dict = {}
    nops = 0 if (o.no_ops and r.random() < 0.3) else r.randint(o.min_ops, o.max_ops)
    idx = 0
    attempts = 0
    while idx < nops and attempts < 50:
        attempts += 1
        nseg = r.randint(1, 3)
        segs, pvars = [], []
        for _ in range(nseg):
            if r.random() < 0.35:
                v = r.choice([p for p in PVARS if p not in pvars] or ["zz"])
                pvars.append(v)
                segs.append("{" + v + "}")
            else:
                segs.append(r.choice(SEGS))
        path = "/" + "/".join(segs)
        if paths and r.random() < 0.3:
            path = r.choice(list(paths))        # another operation on an existing path item (shares path-level parameters)
            pvars = re.findall(r"\{([^}]+)\}", path)
        item = paths.setdefault(path, {})
        path_level = item.get("parameters", [])
        if not item and o.path_level_params and pvars and r.random() < 0.4:
            path_level = [{"name": v, "in": "path", "required": True, "schema": {"type": "string"}} for v in pvars]
            item["parameters"] = path_level
        free = [m for m in METHODS if m not in item]
        if not free:
            continue
        m = r.choice(free)
        op = gen_operation(r, o, schemas, pvars, path_level, idx)
        if m in ("post", "put", "patch") and r.random() < 0.8:
            k = r.random()
            if k < 0.75 or not o.forms:
                content = {"application/json": {"schema": gen_body_schema(r, o, schemas)}}
            elif k < 0.85:
                content = {"application/x-www-form-urlencoded": {"schema": {"type": "object", "properties": {"a": {"type": "string"}, "b": {"type": "integer"}}}}}
            elif k < 0.93:
                content = {"multipart/form-data": {"schema": {"type": "object", "properties": {"file": {"type": "string", "format": "binary"}}}}}
            else:
                content = {"application/octet-stream": {"schema": {"type": "string", "format": "binary"}}}
            if o.multi_content and r.random() < 0.3:
                content["multipart/form-data"] = {"schema": {"type": "object", "properties": {"file": {"type": "string", "format": "binary"}}}}
                content.setdefault("application/json", {"schema": gen_body_schema(r, o, schemas)})
            op["requestBody"] = {"required": r.random() < 0.8, "content": content}
        op["responses"] = gen_responses(r, o, schemas)
        item[m] = op
        idx += 1
    doc = {"openapi": "3.0.3", "info": {"title": r.choice(["Test API", "Shop", "My Service"]), "version": "1.0.0"},
           "paths": paths, "components": {"schemas": schemas}}
    if o.component_params:
        doc["components"]["parameters"] = copy.deepcopy(COMPONENT_PARAMS)
    if o.component_responses:
        doc["components"]["responses"] = copy.deepcopy(COMPONENT_RESPONSES)
    return doc


# --------------------------------------------------------------------------------------------- instances
def resolve(doc: dict, s: dict) -> dict:
    seen = 0
    while "$ref" in s and seen < 50:
        s = doc["components"]["schemas"][s["$ref"].rsplit("/", 1)[-1]]
        seen += 1
    return s


def effective_object(doc: dict, s: dict) -> tuple[dict, set]:
    """(properties, required) of an object schema including allOf parts."""
    s = resolve(doc, s)
    props: dict = {}
    req: set = set()
    for part in s.get("allOf", []):
        p, q = effective_object(doc, part)
        for k, v in p.items():
            props.setdefault(k, v)
        req |= q
    for k, v in s.get("properties", {}).items():
        props.setdefault(k, v) if s.get("allOf") else props.__setitem__(k, v)
    req |= set(s.get("required", []))
    return props, req


STRS = ["", "a", "hello world", "Zoë", "x/y?z=1&w", "漢字", "  pad ", "a,b", "100%", "line1\nline2", "q\"uote", "back\\slash"]


def gen_instance(r: random.Random, doc: dict, s: dict, depth=0, all_optional=None):
    """A JSON value conforming to schema `s`."""
    s0 = s
    s = resolve(doc, s)
    if s.get("nullable") and r.random() < 0.2:
        return None
    if "default" in s and isinstance(s["default"], (str, int, float, bool)) and r.random() < 0.4:
        # a document that spells out the value the schema names as the default (round 5, C03-7: `omit_if_default` loses the key)
        return s["default"]
    for key in ("oneOf", "anyOf"):
        if key in s:
            return gen_instance(r, doc, r.choice(s[key]), depth + 1)
    t = s.get("type")
    if "allOf" in s or t == "object" or (t is None and "properties" in s):
        props, req = effective_object(doc, s0)
        out = {}
        for k, v in props.items():
            present = k in req or (r.random() < (0.6 if depth < 3 else 0.1))
            if present:
                out[k] = gen_instance(r, doc, v, depth + 1)
        ap = s.get("additionalProperties")
        if isinstance(ap, dict) and not props:
            for k in r.sample(["k1", "key-2", "Key3", "zeta"], r.randint(0, 3)):
                out[k] = gen_instance(r, doc, ap, depth + 1)
        return out
    if t == "array":
        n = r.randint(0, 3) if depth < 3 else 0
        return [gen_instance(r, doc, s.get("items", {}), depth + 1) for _ in range(n)]
    if "enum" in s:
        return r.choice(s["enum"])
    if t == "string":
        f = s.get("format")
        if f == "date-time":
            return r.choice(["2024-01-31T12:30:45+00:00", "1999-12-31T23:59:59+02:00", "2030-06-01T00:00:00.250000+00:00", "2021-03-04T05:06:07Z"])
        if f == "date":
            return r.choice(["2024-02-29", "1970-01-01", "2031-12-31"])
        if f == "byte":
            import base64
            return base64.b64encode(bytes(r.randint(0, 255) for _ in range(r.randint(0, 6)))).decode()
        if f == "uuid":
            return r.choice(["123e4567-e89b-12d3-a456-426614174000", "00000000-0000-0000-0000-000000000000"])
        if f == "time":
            return r.choice(["12:30:45", "00:00:00"])
        if f == "binary":
            return "rawbytes"
        return r.choice(STRS)
    if t == "integer":
        return r.choice([0, 1, -1, 42, 2**31, -7, 1000000007])
    if t == "number":
        return r.choice([0.5, 1.25, -3.75, 100.0, 2.0])
    if t == "boolean":
        return r.random() < 0.5
    return r.choice([1, "x", {"a": 1}, [1, 2]])
