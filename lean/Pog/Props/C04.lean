import Pog.Lemmas.GenCode
import Pog.Props.Loader
import Pog.Lemmas.SanIdem
/-
  C04 — request fidelity of an emitted endpoint method.

  FULL STATEMENT: for every operation and every well-typed argument assignment, awaiting the generated method
  issues exactly one HTTP request with the operation's method, the path template with each path parameter
  substituted by the caller's value, each supplied query and header parameter under its original spec name, and
  a body whose content type and JSON equal the serialised argument.  Optional arguments left as None are
  omitted; no supplied argument is silently dropped or sent in a different location.

  Model: `Pog.GenCode.buildRequest` (Pog/Model/GenCode.lean) = parameter_processor + signature_generator +
  url_args_generator + request_generator (+ overload_generator / `_generate_implementation_method` for ≥ 2
  request media types), tied to the emitted code by `corr_gencode.py`.   `✗` = FALSE of the current code.

    at most one request, always                                                    (full)    `exactly_one_request`
    exactly one request for a well-typed call of a single-media operation          (partial) `exactly_one_request`
    … of an operation with several media types (all positionals, one body keyword)  (partial) `exactly_one_request_multi`
    the twice-sanitised signature name = the once-sanitised URL name               (full)    `ident_eq` (`Pog.sanMethod_idempotent`)
    the URL f-string of the single-media method never reads an unbound name         (full)    `url_ok`
    method / substituted path / query / headers / cookies / body                    (partial) `request_fidelity_partial`
    optional argument left as None is omitted                                      (full)    `optional_none_omitted`
    ≥ 2 request media types: an optional request body can be omitted               full      `optional_body_omitted_former_witness` (F62 repaired),
                                                                                              `optional_body_can_be_omitted`
    cookie parameters are sent                                                     full      `cookie_sent_former_witness` (F11 repaired), the cookie
                                                                                              entries of `request_fidelity_partial`
    every query / header / cookie entry stems from a parameter declared there       (full)    `no_entry_without_parameter`
    ≥ 2 request media types: query and header arguments are sent                   ✗         `multi_content_drops_query_counterexample`, `multi_content_drops_query`
    an operation-level parameter overrides the path-level one of the same name     full      `path_level_override_former_witness` (F4 repaired), `irParams_no_duplicate_key`
    an integer / number / boolean header argument is sent in its string form       full      `nonstr_header_former_witness` (F39 repaired),
                                                                                              `typed_header_is_str`; the entries of `request_fidelity_partial`
    ≥ 2 media types: optional parameters are optional / undeclared path variables work  ✗     `multi_content_optional_is_required_counterexample`,
                                                                                              `multi_content_undeclared_path_var_counterexample`
    a declared parameter named `body` and the JSON body are distinct                ✗         `body_name_collision_counterexample`
-/
/-
  C04 at the loader (Pog/Model/Loader.lean; claimed from Pog/Props/Loader.lean):
    parameters_order_and_count             the parameters of an operation are the path-level ones no operation-level parameter overrides (in
                                           order) followed by the operation-level ones (in order), each parsed with THIS operation's id
    parameters_operation_level_wins        an operation-level parameter replaces the path-level one with the same (name, in) (F4 repaired;
                                           `parameters_override_former_witness` was `parameters_not_merged`)
-/
-- INDEX Pog.LoaderProps: parameters_order_and_count, parameters_carry_operation_id, parameters_operation_level_wins, parameters_override_former_witness, parameters_override_is_python_eq
namespace Pog.C04
open Pog Pog.GenCode

/-! ## the hypotheses of the partial theorems -/

/-- A well-typed call of a single-media (or body-less) operation whose module can be imported.
    Every field is one excluded input class. -/
structure StdCall (op : Op) (args : GArgs) : Prop where
  /-- sanitised names distinct, aliases exist, … : the emitted module imports (`moduleOk`) -/
  importable : moduleOk op = true
  /-- at most one request media type (`singleMedia`) -/
  single : isMulti op = false
  /-- only keywords of the signature, every required one present -/
  bound : bindOk (sigOf op) args = true
  /-- well-typed: the argument of a header or cookie parameter that is NOT declared integer / number / boolean is a
      string (httpx rejects anything else), unless optional and left out.  (F39 repaired: a parameter declared integer /
      number / boolean takes any value - it is sent as `str(value)`.) -/
  headerStr : ∀ p ∈ op.params, p.loc = .header ∨ p.loc = .cookie → p.kind = .plain →
    (argVal args p.ident).isStr = true ∨ (p.required = false ∧ argVal args p.ident = .none)
  /-- not the `multipart/form-data; boundary=…` media-type key that makes the method read an unbound name -/
  bodyKnown : ∀ b mt, op.body = some b → primaryBody b.media = some (mt, .bytes) → GenCode.isInfix mtMultipart mt = false

/-- No parameter with an unknown `in` (the loader copies `in` verbatim; only path / query / header / cookie have a place
    in a request) and every declared path parameter occurs in the template.  (F11 repaired: cookie parameters are no
    longer excluded.) -/
structure AllSendable (op : Op) : Prop where
  knownLoc : ∀ p ∈ op.params, p.loc = .path ∨ p.loc = .query ∨ p.loc = .header ∨ p.loc = .cookie
  pathUsed : ∀ p ∈ op.params, p.loc = .path → p.name ∈ pathVars op.path

/-- The signature sanitises a parameter name twice, the URL f-string once: the same identifier, because
    `sanitize_method_name` is idempotent (`Pog.sanMethod_idempotent`). -/
theorem ident_eq (p : GParam) : p.ident = sanMethod p.name := sanMethod_idempotent p.name

theorem toS_query : GLoc.query.toS ≠ SLoc.path := by decide
theorem toS_header : GLoc.header.toS ≠ SLoc.path := by decide
theorem toS_cookie : GLoc.cookie.toS ≠ SLoc.path := by decide

theorem stdBody_ok {op : Op} {args : GArgs} (h : StdCall op args) : ∃ b, stdBody op args = .ok b := by
  unfold stdBody
  cases hb : op.body with
  | none => exact ⟨_, rfl⟩
  | some b =>
    simp only
    cases hp : primaryBody b.media with
    | none => exact ⟨_, rfl⟩
    | some mk =>
      obtain ⟨mt, k⟩ := mk
      cases k with
      | json => exact ⟨_, rfl⟩
      | files => exact ⟨_, rfl⟩
      | form => exact ⟨_, rfl⟩
      | bytes =>
        have := h.bodyKnown b mt hb hp
        simp only [this]
        exact ⟨_, rfl⟩

/-- The values written through `_string_value_expr` for a well-typed call are all `str`. -/
theorem strEntries_isStr {op : Op} {args : GArgs} (h : StdCall op args) (loc : GLoc) (hl : loc.toS ≠ .path)
    (hloc : loc = .header ∨ loc = .cookie) :
    ∀ e ∈ strEntries loc.toS (orderedParams op) args, e.2.isStr = true := by
  intro e he
  obtain ⟨p, hp, hpl, rfl, hreq⟩ := (mem_strEntries_iff op args loc hl e).mp he
  cases hk : p.kind with
  | plain =>
    simp only [strValue]
    rcases h.headerStr p hp (by rw [hpl]; exact hloc) hk with hs | ⟨hr, hn⟩
    · exact hs
    · rcases hreq with hreq | hreq
      · rw [hr] at hreq; cases hreq
      · exact absurd hn hreq
  | num => rfl
  | bool => rfl

theorem headers_ok {op : Op} {args : GArgs} (h : StdCall op args) : headerValuesOk (stdHeaders op args) = true := by
  unfold stdHeaders headerValuesOk
  split
  · rfl
  · next es hes =>
    split at hes
    · simp only [Option.some.injEq] at hes
      subst hes
      rw [List.all_eq_true]
      exact strEntries_isStr h .header toS_header (Or.inl rfl)
    · cases hes

theorem cookies_ok {op : Op} {args : GArgs} (h : StdCall op args) : cookieValuesOk (stdCookies op args) = true := by
  unfold stdCookies cookieValuesOk
  split
  · rfl
  · next es hes =>
    split at hes
    · simp only [Option.some.injEq] at hes
      subst hes
      rw [List.all_eq_true]
      intro e he
      have := strEntries_isStr h .cookie toS_cookie (Or.inr rfl) e he
      cases hv : e.2 <;> simp_all [GValue.isStr, GValue.isOther]
    · cases hes

/-- In the single-media method every `{var}` of the template is a parameter of the method (declared, or added
    by `_ensure_path_variables_as_params`): the URL f-string never reads an unbound name. -/
theorem url_ok (op : Op) (args : GArgs) :
    urlPieces ((orderedParams op).map (·.ident)) args op.path = .ok (substPath args op.path) := by
  apply urlPieces_ok
  intro v hv
  obtain ⟨q, hq, hqn⟩ := pathVar_has_param op v hv
  rw [← sanMethod_idempotent v]
  exact List.mem_map.mpr ⟨q, hq, by simp [PInfo.ident, hqn]⟩

/-- The request of a well-typed call of a single-media operation, in closed form. -/
theorem buildRequest_std {op : Op} {args : GArgs} (h : StdCall op args) :
    ∃ b, stdBody op args = .ok b ∧
      buildRequest op args =
        .ok (⟨op.method, substPath args op.path, stdQuery op args, stdHeaders op args, b, stdCookies op args⟩ : Request) := by
  obtain ⟨b, hb⟩ := stdBody_ok h
  refine ⟨b, hb, ?_⟩
  unfold buildRequest
  simp only [h.importable, h.single, Bool.not_true, Bool.false_eq_true, if_false]
  unfold buildStd
  simp only [h.bound, Bool.not_true, Bool.false_eq_true, if_false, url_ok op args, hb, headers_ok h, cookies_ok h]

/-! ## exactly one request -/

/-- Awaiting the method reaches the transport AT MOST once — for every operation and every argument
    assignment; and exactly once for a well-typed call of a single-media operation. -/
theorem exactly_one_request (op : Op) (args : GArgs) :
    (wire op args).length ≤ 1 ∧ (StdCall op args → (wire op args).length = 1) := by
  constructor
  · unfold wire; split <;> simp
  · intro h
    obtain ⟨b, _, hb⟩ := buildRequest_std h
    unfold wire
    rw [hb]
    rfl

/-- A well-typed call of an operation with several request media types (every positional parameter given,
    every path variable declared, and a body keyword given or - F62 repaired - the requestBody optional) also sends
    exactly one request. -/
theorem exactly_one_request_multi (op : Op) (args : GArgs) (hm : moduleOk op = true) (hmulti : isMulti op = true)
    (hb : bindOk (sigOf op) args = true)
    (hv : ∀ v ∈ pathVars op.path, sanMethod v ∈ (sigOf op).map (·.1))
    (hbody : (∃ b, dispatchBody args ((op.body.map (·.media)).getD []) = some b) ∨
      (op.body.map (·.required)).getD true = false) :
    (wire op args).length = 1 := by
  unfold wire buildRequest
  simp only [hm, hmulti, Bool.not_true, Bool.false_eq_true, if_false, if_true]
  unfold buildOvl
  simp only [hb, Bool.not_true, Bool.false_eq_true, if_false, urlPieces_ok _ args op.path hv]
  rcases hbody with ⟨b, hbd⟩ | hopt
  · simp only [hbd]
    rfl
  · cases hd : dispatchBody args ((op.body.map (·.media)).getD []) with
    | none => simp only [hopt, Bool.false_eq_true, if_false]; rfl
    | some b => rfl

/-- `PATCH /docs/{id}` whose OPTIONAL requestBody has two media types. -/
def exOptBody : Op :=
  ⟨"PATCH".toList, [.lit "/docs/".toList, .var "id".toList], [⟨"id".toList, .path, true, .plain⟩],
   some ⟨false, [mtJson, mtMultipart]⟩, [⟨.num 200, []⟩]⟩

/-- (an optional argument left as None is omitted)  The FORMER WITNESS of F62: called with the path argument only, the
    runtime dispatch used to end in `raise ValueError("One of the content-type parameters must be provided")` and no
    request was sent.  Since the repair the `else:` branch of an operation whose requestBody is not required sends the
    request without a body; with `required: true` the ValueError remains. -/
theorem optional_body_omitted_former_witness :
    buildRequest exOptBody [("id_".toList, .str "7".toList)] = .ok
      { method := "PATCH".toList, path := [.lit "/docs/".toList, .val (.str "7".toList)], query := none, headers := none,
        body := .none } ∧
    buildRequest { exOptBody with body := some ⟨true, [mtJson, mtMultipart]⟩ } [("id_".toList, .str "7".toList)]
      = .error .valueError := by
  decide +kernel

/-- The repair in general: a well-typed call (every positional parameter given, every path variable declared) of an
    operation with several request media types whose requestBody is OPTIONAL, made without any body keyword, sends the
    request without a body. -/
theorem optional_body_can_be_omitted (op : Op) (args : GArgs) (hm : moduleOk op = true) (hmulti : isMulti op = true)
    (hb : bindOk (sigOf op) args = true)
    (hv : ∀ v ∈ pathVars op.path, sanMethod v ∈ (sigOf op).map (·.1))
    (hopt : (op.body.map (·.required)).getD true = false)
    (hnone : dispatchBody args ((op.body.map (·.media)).getD []) = none) :
    buildRequest op args = .ok
      { method := op.method, path := substPath args op.path, query := none, headers := none, body := .none } := by
  unfold buildRequest
  simp only [hm, hmulti, Bool.not_true, Bool.false_eq_true, if_false, if_true]
  unfold buildOvl
  simp only [hb, Bool.not_true, Bool.false_eq_true, if_false, urlPieces_ok _ args op.path hv, hnone, hopt]

example : moduleOk exOptBody = true ∧ isMulti exOptBody = true ∧
    bindOk (sigOf exOptBody) [("id_".toList, .str "7".toList)] = true ∧
    (∀ v ∈ pathVars exOptBody.path, sanMethod v ∈ (sigOf exOptBody).map (·.1)) ∧
    (exOptBody.body.map (·.required)).getD true = false ∧
    dispatchBody [("id_".toList, .str "7".toList)] ((exOptBody.body.map (·.media)).getD []) = none := by
  decide +kernel

/-- A `GET /pets/{petId}` with a path-level header, an optional and a required query parameter and a JSON body. -/
def exOp : Op :=
  ⟨"POST".toList, parsePath "/pets/{petId}/toys".toList,
   irParams [⟨"X-Trace".toList, .header, false, .plain⟩]
     [⟨"petId".toList, .path, true, .num⟩, ⟨"limit".toList, .query, false, .num⟩, ⟨"sort-by".toList, .query, true, .plain⟩,
      ⟨"X-Depth".toList, .header, false, .num⟩],
   some ⟨true, [mtJson]⟩, [⟨.num 200, []⟩]⟩

def exArgs : GArgs :=
  [("pet_id".toList, .other "7".toList), ("sort_by".toList, .str "name".toList), ("x_depth".toList, .other "3".toList),
   ("body".toList, .other "B".toList)]

theorem exOp_stdCall : StdCall exOp exArgs where
  importable := by decide +kernel
  single := by decide
  bound := by decide +kernel
  headerStr := by decide +kernel
  bodyKnown := by
    intro b mt hb hp
    have hb' : b = ⟨true, [mtJson]⟩ := by
      have : exOp.body = some ⟨true, [mtJson]⟩ := rfl
      rw [this] at hb
      exact (Option.some.inj hb).symm
    subst hb'
    have h2 : primaryBody [mtJson] = some (mtJson, .json) := by decide
    rw [h2] at hp
    cases hp

example : buildRequest exOp exArgs = .ok
    { method := "POST".toList,
      path := [.lit "/pets/".toList, .val (.other "7".toList), .lit "/toys".toList],
      query := some [("sort-by".toList, .str "name".toList)],
      headers := some [("X-Depth".toList, .str "3".toList)],
      body := .json (.other "B".toList) } := by decide +kernel

/-! ## the three dicts in terms of the declared parameters -/

/-- The entries of `params`: one per query parameter that is required or was given a non-None value. -/
theorem mem_stdQuery_iff (op : Op) (args : GArgs) (e : Str × GValue) :
    e ∈ (stdQuery op args).getD [] ↔
      ∃ p ∈ op.params, p.loc = .query ∧ e = (p.name, argVal args p.ident) ∧
        (p.required = true ∨ argVal args p.ident ≠ .none) := by
  rw [← mem_entries_iff op args .query toS_query e]
  unfold stdQuery
  split
  · rfl
  · next hn =>
    simp only [Option.getD_none, List.not_mem_nil, false_iff]
    intro he
    obtain ⟨p, hp, hpl, _⟩ := (mem_entries_iff op args .query toS_query e).mp he
    exact hn ((any_loc_iff op .query toS_query).mpr ⟨p, hp, hpl⟩)

/-- The entries of `headers`: one per header parameter that is required or was given a non-None value, the value
    written through `_string_value_expr`. -/
theorem mem_stdHeaders_iff (op : Op) (args : GArgs) (e : Str × GValue) :
    e ∈ (stdHeaders op args).getD [] ↔
      ∃ p ∈ op.params, p.loc = .header ∧ e = (p.name, strValue p.kind (argVal args p.ident)) ∧
        (p.required = true ∨ argVal args p.ident ≠ .none) := by
  rw [← mem_strEntries_iff op args .header toS_header e]
  unfold stdHeaders
  split
  · rfl
  · next hn =>
    simp only [Option.getD_none, List.not_mem_nil, false_iff]
    intro he
    obtain ⟨p, hp, hpl, _⟩ := (mem_strEntries_iff op args .header toS_header e).mp he
    exact hn ((any_loc_iff op .header toS_header).mpr ⟨p, hp, hpl⟩)

/-- The entries of `cookies` (F11 repaired): one per cookie parameter that is required or was given a non-None value. -/
theorem mem_stdCookies_iff (op : Op) (args : GArgs) (e : Str × GValue) :
    e ∈ (stdCookies op args).getD [] ↔
      ∃ p ∈ op.params, p.loc = .cookie ∧ e = (p.name, strValue p.kind (argVal args p.ident)) ∧
        (p.required = true ∨ argVal args p.ident ≠ .none) := by
  rw [← mem_strEntries_iff op args .cookie toS_cookie e]
  unfold stdCookies
  split
  · rfl
  · next hn =>
    simp only [Option.getD_none, List.not_mem_nil, false_iff]
    intro he
    obtain ⟨p, hp, hpl, _⟩ := (mem_strEntries_iff op args .cookie toS_cookie e).mp he
    exact hn ((any_loc_iff op .cookie toS_cookie).mpr ⟨p, hp, hpl⟩)

/-- What a request of the single-media method is made of. -/
theorem buildStd_ok {op : Op} {args : GArgs} {r : Request} (h : buildStd op args = .ok r) :
    r.method = op.method ∧ r.query = stdQuery op args ∧ r.headers = stdHeaders op args ∧
      r.cookies = stdCookies op args := by
  unfold buildStd at h
  split at h
  · cases h
  · split at h
    · cases h
    · split at h
      · cases h
      · split at h
        · cases h
        · split at h
          · cases h
          · simp only [Except.ok.injEq] at h
            subst h
            exact ⟨rfl, rfl, rfl, rfl⟩

/-- What a request of the implementation method for several media types is made of: no query, no headers, no cookies. -/
theorem buildOvl_ok {op : Op} {args : GArgs} {r : Request} (h : buildOvl op args = .ok r) :
    r.method = op.method ∧ r.query = none ∧ r.headers = none ∧ r.cookies = none := by
  unfold buildOvl at h
  split at h
  · cases h
  · split at h
    · cases h
    · split at h
      · split at h
        · cases h
        · simp only [Except.ok.injEq] at h
          subst h
          exact ⟨rfl, rfl, rfl, rfl⟩
      · simp only [Except.ok.injEq] at h
        subst h
        exact ⟨rfl, rfl, rfl, rfl⟩

/-- In an importable single-media method the entries of a dict that stem from declared parameters (each required or given
    a non-None value) have no entry under the name of an optional parameter left as `None`: two declared parameters
    with the same original name are the same entry of `ordered_params`. -/
theorem no_entry_for_none {op : Op} {args : GArgs} (hm : moduleOk op = true) (hs : isMulti op = false)
    {p : GParam} (hp : p ∈ op.params) (hopt : p.required = false) (hnone : argVal args p.ident = .none)
    (val : GParam → GValue) {es : List (Str × GValue)}
    (hes : ∀ e ∈ es, ∃ p' ∈ op.params, e = (p'.name, val p') ∧ (p'.required = true ∨ argVal args p'.ident ≠ .none)) :
    ∀ e ∈ es, e.1 ≠ p.name := by
  intro e he hname
  obtain ⟨p', hp', rfl, hreq⟩ := hes e he
  have hi : p'.info = p.info :=
    ordered_ident_inj hm hs (info_mem_ordered op p' hp') (info_mem_ordered op p hp)
      (by simp [info_ident, GParam.ident, show p'.name = p.name from hname])
  have hreq' : p'.required = p.required := by
    have := congrArg PInfo.required hi; simpa [GParam.info] using this
  have hid : p'.ident = p.ident := by simp [GParam.ident, show p'.name = p.name from hname]
  rw [hreq', hid, hopt] at hreq
  rcases hreq with hreq | hreq
  · cases hreq
  · exact hreq hnone

/-! ## fidelity -/

/-- C04 for the inputs the generator gets right: a well-typed call of a single-media operation yields ONE
    request with
    * the operation's method,
    * the path template with every `{v}` replaced by the value bound to `sanitize_method_name(v)`,
    * a query (header, cookie) entry `original name ↦ value` for every query (header, cookie) parameter that is required
      or was given a non-None value - a header or cookie value in its string form when the parameter is declared integer /
      number / boolean -, no entry for an optional one left as None, and nothing else,
    * the body keyword of the primary media type carrying the value of the body parameter;
    and, when every parameter has one of the four locations and every path parameter occurs in the template, no supplied
    argument is dropped: every non-None value of a declared parameter is in the location the spec names. -/
theorem request_fidelity_partial (op : Op) (args : GArgs) (h : StdCall op args) :
    ∃ r, buildRequest op args = .ok r ∧ wire op args = [r] ∧
      r.method = op.method ∧
      r.path = substPath args op.path ∧
      -- query
      (∀ p ∈ op.params, p.loc = .query → (p.required = true ∨ argVal args p.ident ≠ .none) →
          (p.name, argVal args p.ident) ∈ r.query.getD []) ∧
      (∀ p ∈ op.params, p.loc = .query → p.required = false → argVal args p.ident = .none →
          ∀ e ∈ r.query.getD [], e.1 ≠ p.name) ∧
      (∀ e ∈ r.query.getD [], ∃ p ∈ op.params, p.loc = .query ∧ e = (p.name, argVal args p.ident)) ∧
      -- headers
      (∀ p ∈ op.params, p.loc = .header → (p.required = true ∨ argVal args p.ident ≠ .none) →
          (p.name, strValue p.kind (argVal args p.ident)) ∈ r.headers.getD []) ∧
      (∀ p ∈ op.params, p.loc = .header → p.required = false → argVal args p.ident = .none →
          ∀ e ∈ r.headers.getD [], e.1 ≠ p.name) ∧
      (∀ e ∈ r.headers.getD [], ∃ p ∈ op.params, p.loc = .header ∧ e = (p.name, strValue p.kind (argVal args p.ident))) ∧
      -- cookies
      (∀ p ∈ op.params, p.loc = .cookie → (p.required = true ∨ argVal args p.ident ≠ .none) →
          (p.name, strValue p.kind (argVal args p.ident)) ∈ r.cookies.getD []) ∧
      (∀ p ∈ op.params, p.loc = .cookie → p.required = false → argVal args p.ident = .none →
          ∀ e ∈ r.cookies.getD [], e.1 ≠ p.name) ∧
      (∀ e ∈ r.cookies.getD [], ∃ p ∈ op.params, p.loc = .cookie ∧ e = (p.name, strValue p.kind (argVal args p.ident))) ∧
      -- body
      stdBody op args = .ok r.body ∧
      (∀ b k mt, op.body = some b → primaryBody b.media = some (mt, k) →
          r.body = mkBody (match k with | .json => BodyArg.json | .files => .files | .form => .data | .bytes => .data)
            (argVal args k.param)) ∧
      (op.body = none → r.body = .none) ∧
      -- nothing dropped
      (AllSendable op → ∀ p ∈ op.params, argVal args p.ident ≠ .none →
          (p.loc = .path ∧ Piece.val (argVal args p.ident) ∈ r.path) ∨
          (p.loc = .query ∧ (p.name, argVal args p.ident) ∈ r.query.getD []) ∨
          (p.loc = .header ∧ (p.name, strValue p.kind (argVal args p.ident)) ∈ r.headers.getD []) ∨
          (p.loc = .cookie ∧ (p.name, strValue p.kind (argVal args p.ident)) ∈ r.cookies.getD [])) := by
  obtain ⟨b, hb, hr⟩ := buildRequest_std h
  have hq := mem_stdQuery_iff op args
  have hh := mem_stdHeaders_iff op args
  have hc := mem_stdCookies_iff op args
  have habsent : ∀ (val : GParam → GValue) (es : List (Str × GValue)),
      (∀ e ∈ es, ∃ p' ∈ op.params, e = (p'.name, val p') ∧ (p'.required = true ∨ argVal args p'.ident ≠ .none)) →
      ∀ p ∈ op.params, p.required = false → argVal args p.ident = .none → ∀ e ∈ es, e.1 ≠ p.name :=
    fun val es hes p hp hopt hnone => no_entry_for_none h.importable h.single hp hopt hnone val hes
  refine ⟨_, hr, by unfold wire; rw [hr], rfl, rfl, ?_, ?_, ?_, ?_, ?_, ?_, ?_, ?_, ?_, hb, ?_, ?_, ?_⟩
  · intro p hp hpl hreq
    exact (hq _).mpr ⟨p, hp, hpl, rfl, hreq⟩
  · intro p hp _ hopt hnone
    refine habsent (fun p => argVal args p.ident) _ (fun e he => ?_) p hp hopt hnone
    obtain ⟨p', hp', _, he', hreq⟩ := (hq e).mp he
    exact ⟨p', hp', he', hreq⟩
  · intro e he
    obtain ⟨p, hp, hpl, rfl, _⟩ := (hq e).mp he
    exact ⟨p, hp, hpl, rfl⟩
  · intro p hp hpl hreq
    exact (hh _).mpr ⟨p, hp, hpl, rfl, hreq⟩
  · intro p hp _ hopt hnone
    refine habsent (fun p => strValue p.kind (argVal args p.ident)) _ (fun e he => ?_) p hp hopt hnone
    obtain ⟨p', hp', _, he', hreq⟩ := (hh e).mp he
    exact ⟨p', hp', he', hreq⟩
  · intro e he
    obtain ⟨p, hp, hpl, rfl, _⟩ := (hh e).mp he
    exact ⟨p, hp, hpl, rfl⟩
  · intro p hp hpl hreq
    exact (hc _).mpr ⟨p, hp, hpl, rfl, hreq⟩
  · intro p hp _ hopt hnone
    refine habsent (fun p => strValue p.kind (argVal args p.ident)) _ (fun e he => ?_) p hp hopt hnone
    obtain ⟨p', hp', _, he', hreq⟩ := (hc e).mp he
    exact ⟨p', hp', he', hreq⟩
  · intro e he
    obtain ⟨p, hp, hpl, rfl, _⟩ := (hc e).mp he
    exact ⟨p, hp, hpl, rfl⟩
  · intro bd k mt hbd hpb
    unfold stdBody at hb
    simp only [hbd, hpb] at hb
    cases k with
    | json => simp only [Except.ok.injEq] at hb; exact hb.symm
    | files => simp only [Except.ok.injEq] at hb; exact hb.symm
    | form => simp only [Except.ok.injEq] at hb; exact hb.symm
    | bytes =>
      simp only [h.bodyKnown bd mt hbd hpb, Bool.false_eq_true, if_false, Except.ok.injEq] at hb
      exact hb.symm
  · intro hnb
    unfold stdBody at hb
    simp only [hnb, Except.ok.injEq] at hb
    exact hb.symm
  · intro hs p hp hv
    rcases hs.knownLoc p hp with hl | hl | hl | hl
    · left
      refine ⟨hl, ?_⟩
      have hmem := hs.pathUsed p hp hl
      have : argVal args p.ident = argVal args (sanMethod p.name) := by
        simp [GParam.ident, sanMethod_idempotent]
      rw [this]
      exact mem_substPath args op.path p.name hmem
    · right; left
      exact ⟨hl, (hq _).mpr ⟨p, hp, hl, rfl, Or.inr hv⟩⟩
    · right; right; left
      exact ⟨hl, (hh _).mpr ⟨p, hp, hl, rfl, Or.inr hv⟩⟩
    · right; right; right
      exact ⟨hl, (hc _).mpr ⟨p, hp, hl, rfl, Or.inr hv⟩⟩

example : StdCall exOp exArgs ∧ AllSendable exOp :=
  ⟨exOp_stdCall, ⟨by decide +kernel, by decide +kernel⟩⟩

/-- An optional query / header / cookie argument left as `None` never appears in the request — for EVERY operation
    (single- or multi-media) and every call that reaches the transport. -/
theorem optional_none_omitted (op : Op) (args : GArgs) (r : Request) (h : buildRequest op args = .ok r)
    (p : GParam) (hp : p ∈ op.params) (hopt : p.required = false) (hnone : argVal args p.ident = .none) :
    (p.loc = .query → ∀ e ∈ r.query.getD [], e.1 ≠ p.name) ∧
    (p.loc = .header → ∀ e ∈ r.headers.getD [], e.1 ≠ p.name) ∧
    (p.loc = .cookie → ∀ e ∈ r.cookies.getD [], e.1 ≠ p.name) := by
  unfold buildRequest at h
  split at h
  · cases h
  · next hm =>
    have hm : moduleOk op = true := by simpa using hm
    split at h
    · -- several media types: `params=None, headers=None`, no `cookies`
      obtain ⟨_, h1, h2, h3⟩ := buildOvl_ok h
      rw [h1, h2, h3]
      exact ⟨fun _ e he => (by simp at he), fun _ e he => (by simp at he), fun _ e he => (by simp at he)⟩
    · next hs =>
      have hs : isMulti op = false := by simpa using hs
      obtain ⟨_, h1, h2, h3⟩ := buildStd_ok h
      rw [h1, h2, h3]
      refine ⟨fun _ => ?_, fun _ => ?_, fun _ => ?_⟩
      · refine no_entry_for_none hm hs hp hopt hnone (fun p => argVal args p.ident) (fun e he => ?_)
        obtain ⟨p', hp', _, he', hreq⟩ := (mem_stdQuery_iff op args e).mp he
        exact ⟨p', hp', he', hreq⟩
      · refine no_entry_for_none hm hs hp hopt hnone (fun p => strValue p.kind (argVal args p.ident)) (fun e he => ?_)
        obtain ⟨p', hp', _, he', hreq⟩ := (mem_stdHeaders_iff op args e).mp he
        exact ⟨p', hp', he', hreq⟩
      · refine no_entry_for_none hm hs hp hopt hnone (fun p => strValue p.kind (argVal args p.ident)) (fun e he => ?_)
        obtain ⟨p', hp', _, he', hreq⟩ := (mem_stdCookies_iff op args e).mp he
        exact ⟨p', hp', he', hreq⟩

/-! ## cookie parameters (F11 repaired) -/

/-- `GET /me` with a required cookie parameter `session` and an optional integer one. -/
def exCookie : Op :=
  ⟨"GET".toList, [.lit "/me".toList],
   [⟨"session".toList, .cookie, true, .plain⟩, ⟨"page-size".toList, .cookie, false, .num⟩], none, [⟨.num 200, []⟩]⟩

/-- (cookie parameters are sent)  The FORMER WITNESS of F11: the cookie argument used to be accepted by the method and
    then dropped (no query, no headers, no body, no `cookies=` keyword).  Since the repair the method builds a `cookies`
    dict - the optional one left out when `None`, an integer in its string form - and passes `cookies=cookies`. -/
theorem cookie_sent_former_witness :
    buildRequest exCookie [("session".toList, .str "SECRET".toList)] = .ok
      { method := "GET".toList, path := [.lit "/me".toList], query := none, headers := none, body := .none,
        cookies := some [("session".toList, .str "SECRET".toList)] } ∧
    buildRequest exCookie [("session".toList, .str "SECRET".toList), ("page_size".toList, .other "20".toList)] = .ok
      { method := "GET".toList, path := [.lit "/me".toList], query := none, headers := none, body := .none,
        cookies := some [("session".toList, .str "SECRET".toList), ("page-size".toList, .str "20".toList)] } := by
  decide +kernel

/-- Nothing reaches the transport that the spec does not name — for EVERY operation and EVERY call: every query entry
    stems from a parameter declared `in: query`, every header entry from one declared `in: header`, every cookie entry
    from one declared `in: cookie` (no argument is sent in a different location). -/
theorem no_entry_without_parameter (op : Op) (args : GArgs) (r : Request) (h : buildRequest op args = .ok r) :
    (∀ e ∈ r.query.getD [], ∃ p ∈ op.params, p.loc = .query ∧ e = (p.name, argVal args p.ident)) ∧
    (∀ e ∈ r.headers.getD [], ∃ p ∈ op.params, p.loc = .header ∧ e = (p.name, strValue p.kind (argVal args p.ident))) ∧
    (∀ e ∈ r.cookies.getD [], ∃ p ∈ op.params, p.loc = .cookie ∧ e = (p.name, strValue p.kind (argVal args p.ident))) := by
  unfold buildRequest at h
  split at h
  · cases h
  · split at h
    · obtain ⟨_, h1, h2, h3⟩ := buildOvl_ok h
      rw [h1, h2, h3]
      exact ⟨fun e he => (by simp at he), fun e he => (by simp at he), fun e he => (by simp at he)⟩
    · obtain ⟨_, h1, h2, h3⟩ := buildStd_ok h
      rw [h1, h2, h3]
      refine ⟨fun e he => ?_, fun e he => ?_, fun e he => ?_⟩
      · obtain ⟨p, hp, hpl, rfl, _⟩ := (mem_stdQuery_iff op args e).mp he
        exact ⟨p, hp, hpl, rfl⟩
      · obtain ⟨p, hp, hpl, rfl, _⟩ := (mem_stdHeaders_iff op args e).mp he
        exact ⟨p, hp, hpl, rfl⟩
      · obtain ⟨p, hp, hpl, rfl, _⟩ := (mem_stdCookies_iff op args e).mp he
        exact ⟨p, hp, hpl, rfl⟩

/-! ## ✗ several request media types -/

/-- `POST /upload` with a required query and a required header parameter and two request media types. -/
def exMulti : Op :=
  ⟨"POST".toList, [.lit "/upload".toList],
   [⟨"folder".toList, .query, true, .plain⟩, ⟨"X-Token".toList, .header, true, .plain⟩], some ⟨true, [mtJson, mtMultipart]⟩,
   [⟨.num 200, []⟩]⟩

/-- ✗ C04: with ≥ 2 request media types the implementation method sends `params=None, headers=None` —
    the supplied query and header arguments are dropped. -/
theorem multi_content_drops_query_counterexample :
    buildRequest exMulti
      [("folder".toList, .str "inbox".toList), ("x_token".toList, .str "t0k".toList), ("body".toList, .other "B".toList)]
    = .ok { method := "POST".toList, path := [.lit "/upload".toList], query := none, headers := none,
            body := .json (.other "B".toList) } := by
  decide +kernel

/-- The general defect: EVERY request of an operation with ≥ 2 request media types has neither query nor headers. -/
theorem multi_content_drops_query (op : Op) (args : GArgs) (r : Request) (hm : isMulti op = true)
    (h : buildRequest op args = .ok r) : r.query = none ∧ r.headers = none := by
  unfold buildRequest at h
  split at h
  · cases h
  · obtain ⟨_, h1, h2, _⟩ := buildOvl_ok h
    exact ⟨h1, h2⟩

/-- ✗ … and an OPTIONAL parameter of such an operation has no default: leaving it out is a `TypeError`. -/
theorem multi_content_optional_is_required_counterexample :
    buildRequest ⟨"POST".toList, [.lit "/upload".toList], [⟨"folder".toList, .query, false, .plain⟩],
        some ⟨true, [mtJson, mtMultipart]⟩, [⟨.num 200, []⟩]⟩ [("body".toList, .other "B".toList)]
      = .error .typeError := by
  decide +kernel

/-- ✗ … and a path variable without a parameter object is an unbound name (`NameError`) there, while the
    single-media method adds it as a required `str` parameter. -/
theorem multi_content_undeclared_path_var_counterexample :
    buildRequest ⟨"POST".toList, [.lit "/a/".toList, .var "id".toList], [],
        some ⟨true, [mtJson, mtMultipart]⟩, [⟨.num 200, []⟩]⟩ [("body".toList, .other "B".toList)]
      = .error .nameError ∧
    buildRequest ⟨"POST".toList, [.lit "/a/".toList, .var "id".toList], [],
        some ⟨true, [mtJson]⟩, [⟨.num 200, []⟩]⟩ [("id_".toList, .str "7".toList), ("body".toList, .other "B".toList)]
      = .ok { method := "POST".toList, path := [.lit "/a/".toList, .val (.str "7".toList)], query := none,
              headers := none, body := .json (.other "B".toList) } := by
  decide +kernel

/-! ## ✗ further excluded classes, each with a witness -/

/-- (OpenAPI: an operation-level parameter overrides the path-level one with the same name and location)  The FORMER
    WITNESS of F4: the loader used to concatenate both lists, the emitted `def` had a duplicate argument and the module
    did not compile.  Since the repair `irParams` drops the overridden path-level entry: the module compiles and the
    call is sent. -/
theorem path_level_override_former_witness :
    let op : Op := ⟨"GET".toList, [.lit "/a/".toList, .var "id".toList],
      irParams [⟨"id".toList, .path, true, .plain⟩] [⟨"id".toList, .path, true, .plain⟩], none, [⟨.num 200, []⟩]⟩
    op.params = [⟨"id".toList, .path, true, .plain⟩] ∧ moduleOk op = true ∧
    buildRequest op [("id_".toList, .str "7".toList)]
      = .ok { method := "GET".toList, path := [.lit "/a/".toList, .val (.str "7".toList)], query := none,
              headers := none, body := .none } := by
  decide +kernel

/-- `irParams` yields no duplicate (name, location) when neither list has one: the source of duplicate arguments that
    remains is two DIFFERENT parameters whose names sanitise to one identifier (`moduleOk`). -/
theorem irParams_no_duplicate_key (pl ol : List GParam)
    (hp : pl.Pairwise (fun a b => ¬ (a.name = b.name ∧ a.loc = b.loc)))
    (ho : ol.Pairwise (fun a b => ¬ (a.name = b.name ∧ a.loc = b.loc))) :
    (irParams pl ol).Pairwise (fun a b => ¬ (a.name = b.name ∧ a.loc = b.loc)) := by
  refine List.pairwise_append.mpr ⟨hp.sublist List.filter_sublist, ho, ?_⟩
  intro a ha b hb
  simp only [List.mem_filter, Bool.not_eq_true', List.any_eq_false, Bool.and_eq_true, beq_iff_eq] at ha
  exact ha.2 b hb

example : ([⟨"id".toList, .path, true, .plain⟩, ⟨"id".toList, .query, false, .plain⟩] : List GParam).Pairwise
    (fun a b => ¬ (a.name = b.name ∧ a.loc = b.loc)) := by decide

/-- (every supplied header parameter is sent)  The FORMER WITNESS of F39: an integer-typed header argument used to be
    handed to httpx as an `int` (`TypeError`, nothing sent).  Since the repair the headers dict is written with
    `str(…)` for a parameter declared integer / number (`str(…).lower()` for boolean): the request goes out with the
    value's string form - and a boolean as `true`. -/
theorem nonstr_header_former_witness :
    buildRequest ⟨"GET".toList, [.lit "/a".toList],
        [⟨"X-Count".toList, .header, true, .num⟩, ⟨"X-Dry".toList, .header, false, .bool⟩], none, [⟨.num 200, []⟩]⟩
      [("x_count".toList, .other "5".toList), ("x_dry".toList, .other "True".toList)]
      = .ok { method := "GET".toList, path := [.lit "/a".toList], query := none,
              headers := some [("X-Count".toList, .str "5".toList), ("X-Dry".toList, .str "true".toList)],
              body := .none } := by
  decide +kernel

/-- The repair in general: whatever the caller passes for a header parameter declared integer / number / boolean, the
    value written into the headers dict is a `str` - httpx's `Header value must be str or bytes` cannot be raised for
    it. -/
theorem typed_header_is_str (k : PKind) (v : GValue) (hk : k ≠ .plain) : (strValue k v).isStr = true := by
  cases k with
  | plain => exact absurd rfl hk
  | num => rfl
  | bool => rfl

/-- What remains of the class: a NON-string value for a header parameter that is not declared integer / number /
    boolean (an ill-typed call - `StdCall.headerStr` excludes it) is still rejected by httpx. -/
theorem nonstr_value_for_string_header_witness :
    buildRequest ⟨"GET".toList, [.lit "/a".toList], [⟨"X-Name".toList, .header, true, .plain⟩], none, [⟨.num 200, []⟩]⟩
      [("x_name".toList, .other "5".toList)] = .error .headerTypeError := by
  decide +kernel

/-- ✗ (a body whose content type …) a declared parameter named `body` takes the place of the JSON body
    parameter: its value is sent in the query AND as the JSON body. -/
theorem body_name_collision_counterexample :
    buildRequest ⟨"POST".toList, [.lit "/a".toList], [⟨"body".toList, .query, true, .plain⟩], some ⟨true, [mtJson]⟩,
        [⟨.num 200, []⟩]⟩ [("body".toList, .str "Q".toList)]
      = .ok { method := "POST".toList, path := [.lit "/a".toList], query := some [("body".toList, .str "Q".toList)],
              headers := none, body := .json (.str "Q".toList) } := by
  decide +kernel

end Pog.C04
