#!/usr/bin/env python3
"""(Re)build props_index.json entries from lean/Pog/Props/Cxx.lean theorem names.  Usage: index_props.py C07 "trusted text" ..."""
import json, re, sys, os
V = os.path.dirname(os.path.dirname(os.path.abspath(__file__)))
p = os.path.join(V, "props_index.json")
d = json.load(open(p))
def kind(n):
    # `…_former_witness…` = the witness of a REPAIRED defect now behaves: a positive statement that must keep holding (never salvaged)
    if "former_witness" in n:
        return "full"
    return "counterexample" if ("counterexample" in n or n.endswith("_witness") or n.endswith("_tight")) else "partial" if "_partial" in n else "full"
pid = sys.argv[1]
trusted = sys.argv[2:]
src = open(os.path.join(V, "lean", "Pog", "Props", pid + ".lean")).read()
names = re.findall(r"^theorem ([A-Za-z0-9_']+)", src, re.M)
old = d.get(pid, {})
ths = {f"Pog.{pid}.{n}": kind(n) for n in names}
# theorems proved in a shared Props module (imported by this file) that this property claims:  -- INDEX Pog.ResolveProps: a, b, c
for ns, lst in re.findall(r"^-- INDEX ([A-Za-z0-9_.]+):\s*(.+)$", src, re.M):
    for n in [x.strip() for x in lst.split(",") if x.strip()]:
        ths[f"{ns}.{n}"] = kind(n)
mods = [f"Pog.Props.{pid}"] + re.findall(r"^-- MODULE ([A-Za-z0-9_.]+)\s*$", src, re.M)   # modules that import this one and prove claimed theorems
d[pid] = {"modules": mods, "theorems": ths, "trusted": trusted or old.get("trusted", [])}
json.dump(d, open(p, "w"), indent=1)
print(pid, len(ths), "theorems")
