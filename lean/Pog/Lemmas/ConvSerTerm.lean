import Pog.Lemmas.ConvSer
import Pog.Lemmas.ConvRound
/-
  C16 `serializer_terminates_partial`: on an ACYCLIC heap (`Ranked`) both cattrs (`hUnstr`) and
  `DataclassSerializer.serialize` (`serF`) finish within some budget, for every registry.
  Everything is phrased with `Eventually P` = "∃ N, ∀ fuel ≥ N, ∀ reg, P fuel reg", so that no explicit bound is needed.
-/
namespace Pog

/-- "for every large enough budget, whatever the registry". -/
def Eventually (P : Nat → List Str → Prop) : Prop := ∃ N, ∀ fuel, N ≤ fuel → ∀ reg, P fuel reg

theorem eventually_forall_mem {α : Type} (xs : List α) (P : α → Nat → List Str → Prop)
    (h : ∀ x ∈ xs, Eventually (P x)) : Eventually (fun fuel reg => ∀ x ∈ xs, P x fuel reg) := by
  induction xs with
  | nil => exact ⟨0, fun _ _ _ x hx => by cases hx⟩
  | cons x xs ih =>
    obtain ⟨N1, h1⟩ := h x (by simp)
    obtain ⟨N2, h2⟩ := ih (fun y hy => h y (by simp [hy]))
    refine ⟨max N1 N2, fun fuel hf reg y hy => ?_⟩
    rcases List.mem_cons.mp hy with e | hm
    · subst e; exact h1 fuel (by omega) reg
    · exact h2 fuel (by omega) reg y hm

theorem mapE_ne_fuel {α β : Type} (f : α → Except UErr β) (xs : List α) (h : ∀ x ∈ xs, f x ≠ .error .fuel) :
    mapE f xs ≠ .error .fuel := by
  induction xs with
  | nil => simp [mapE]
  | cons x xs ih =>
    have hx := h x (by simp)
    have ih' := ih (fun y hy => h y (by simp [hy]))
    simp only [mapE]
    cases hfx : f x with
    | error e => simp only [ne_eq, Except.error.injEq]; intro he; exact hx (by rw [hfx, he])
    | ok y =>
      cases hm : mapE f xs with
      | error e => simp only [ne_eq, Except.error.injEq]; intro he; exact ih' (by rw [hm, he])
      | ok ys => simp

theorem mapValsE_ne_fuel {α β : Type} (f : α → Except UErr β) (kvs : List (Str × α))
    (h : ∀ kv ∈ kvs, f kv.2 ≠ .error .fuel) : mapValsE f kvs ≠ .error .fuel := by
  induction kvs with
  | nil => simp [mapValsE]
  | cons kv rest ih =>
    obtain ⟨k, x⟩ := kv
    have hx := h (k, x) (by simp)
    have ih' := ih (fun y hy => h y (by simp [hy]))
    simp only [mapValsE]
    cases hfx : f x with
    | error e => simp only [ne_eq, Except.error.injEq]; intro he; exact hx (by simp [hfx, he])
    | ok y =>
      cases hm : mapValsE f rest with
      | error e => simp only [ne_eq, Except.error.injEq]; intro he; exact ih' (by rw [hm, he])
      | ok ys => simp

theorem hUnstrFields_ne_fuel (rec : Ty → HVal → Except UErr PV) (cd : ClassDecl) (useDump : Bool)
    (attrs : List (Str × HVal)) (fs : List Field)
    (h : ∀ f ∈ fs, ∀ v, aget attrs f.pyName = some v → rec f.ty v ≠ .error .fuel) :
    hUnstrFields rec cd useDump attrs fs ≠ .error .fuel := by
  induction fs with
  | nil => simp [hUnstrFields]
  | cons f fs ih =>
    have ih' := ih (fun g hg => h g (by simp [hg]))
    cases ha : aget attrs f.pyName with
    | none => simp [hUnstrFields, ha]
    | some v =>
      have hv := h f (by simp) v ha
      cases hr : rec f.ty v with
      | error e =>
        simp only [hUnstrFields, ha, hr, ne_eq, Except.error.injEq]
        intro he; exact hv (by rw [hr, he])
      | ok j =>
        cases hm : hUnstrFields rec cd useDump attrs fs with
        | error e =>
          simp only [hUnstrFields, ha, hr, hm, ne_eq, Except.error.injEq]
          intro he; exact ih' (by rw [hm, he])
        | ok rest => simp [hUnstrFields, ha, hr, hm]

theorem exceptMap_ne_fuel {α β : Type} (f : α → β) (r : Except UErr α) (h : r ≠ .error .fuel) :
    r.map f ≠ .error .fuel := by
  cases r with
  | error e => simp only [Except.map, ne_eq, Except.error.injEq]; intro he; exact h (by rw [he])
  | ok x => simp [Except.map]

theorem hIdentity_ne_fuel (heap : Heap) (v : HVal) : hIdentity heap v ≠ .error .fuel := by
  unfold hIdentity
  split
  · split <;> simp
  · split <;> simp

theorem hUnstrIso_ne_fuel (c : Codecs) (v : HVal) : hUnstrIso c v ≠ .error .fuel := by
  unfold hUnstrIso
  split <;> simp

theorem hUnstrLeaf_ne_fuel (c : Codecs) (heap : Heap) (l : Leaf) (v : HVal) : hUnstrLeaf c heap l v ≠ .error .fuel := by
  unfold hUnstrLeaf
  split
  · exact hIdentity_ne_fuel heap v
  · split
    · split <;> simp
    · exact hUnstrIso_ne_fuel c v
    · exact hUnstrIso_ne_fuel c v
    · exact hUnstrIso_ne_fuel c v
    · split <;> simp
    · exact hIdentity_ne_fuel heap v

end Pog

namespace Pog

/-- "cattrs terminates on `x` for every large enough budget". -/
def UnstrEv (c : Codecs) (heap : Heap) (decls : Decls) (t : Option Ty) (x : HVal) : Prop :=
  Eventually (fun fuel reg => hUnstr c fuel heap reg decls t x ≠ .error .fuel)

/-- What the induction on the rank provides about the values an object holds. -/
def KidsEv (c : Codecs) (heap : Heap) (decls : Decls) (v : HVal) : Prop :=
  ∀ id o, v = .ref id → heap.get id = some o → ∀ x ∈ o.children, ∀ t, UnstrEv c heap decls t x

theorem hAttrs_children (heap : Heap) (v : HVal) (name : Str) (x : HVal) (h : aget (hAttrs heap v) name = some x) :
    ∃ id o, v = .ref id ∧ heap.get id = some o ∧ x ∈ o.children := by
  cases v with
  | ref id =>
    simp only [hAttrs] at h
    cases hg : heap.get id with
    | none => simp [hg, aget] at h
    | some o =>
      cases o with
      | inst cls attrs =>
        simp only [hg] at h
        exact ⟨id, _, rfl, hg, by simp only [HObj.children]; exact List.mem_map_of_mem (f := Prod.snd) (aget_mem _ _ _ h)⟩
      | list _ => simp [hg, aget] at h
      | dict _ => simp [hg, aget] at h
  | _ => simp [hAttrs, aget] at h

/-- A field-by-field dataclass unstructure terminates when the attribute values do. -/
theorem unstr_dc_ev (c : Codecs) (heap : Heap) (decls : Decls) (v : HVal) (hk : KidsEv c heap decls v) (name : Str) :
    UnstrEv c heap decls (some (.dc name)) v := by
  cases hcd : aget decls name with
  | none => exact ⟨1, fun fuel hf reg => by obtain ⟨n, rfl⟩ : ∃ n, fuel = n + 1 := ⟨fuel - 1, by omega⟩; simp [hUnstr, hcd]⟩
  | some cd =>
    -- a uniform budget for the attribute values that exist
    have hfields : ∀ f ∈ cd.fields, Eventually (fun fuel reg =>
        ∀ x, aget (hAttrs heap v) f.pyName = some x → hUnstr c fuel heap reg decls (some f.ty) x ≠ .error .fuel) := by
      intro f _
      cases ha : aget (hAttrs heap v) f.pyName with
      | none => exact ⟨0, fun _ _ _ x hx => by cases hx⟩
      | some x =>
        obtain ⟨id, o, hv, hg, hx⟩ := hAttrs_children heap v f.pyName x ha
        obtain ⟨N, hN⟩ := hk id o hv hg x hx (some f.ty)
        exact ⟨N, fun fuel hf reg y hy => by cases hy; exact hN fuel hf reg⟩
    obtain ⟨N, hN⟩ := eventually_forall_mem cd.fields _ hfields
    refine ⟨N + 1, fun fuel hf reg => ?_⟩
    obtain ⟨n, rfl⟩ : ∃ n, fuel = n + 1 := ⟨fuel - 1, by omega⟩
    simp only [hUnstr, hcd]
    apply exceptMap_ne_fuel
    apply hUnstrFields_ne_fuel
    intro f hf x hx
    exact hN n (by omega) reg f hf x hx

/-- Runtime-class dispatch. -/
theorem unstr_dyn_ev (c : Codecs) (heap : Heap) (decls : Decls) (v : HVal) (hk : KidsEv c heap decls v) :
    UnstrEv c heap decls none v := by
  have one : ∀ (P : Nat → List Str → Prop), (∀ n reg, P (n + 1) reg) → Eventually P :=
    fun P h => ⟨1, fun fuel hf reg => by obtain ⟨n, rfl⟩ : ∃ n, fuel = n + 1 := ⟨fuel - 1, by omega⟩; exact h n reg⟩
  cases v with
  | ref id =>
    cases hg : heap.get id with
    | none => exact one _ (fun n reg => by simp [hUnstr, hg])
    | some o =>
      cases o with
      | list items =>
        obtain ⟨N, hN⟩ := eventually_forall_mem items _ (fun x hx => hk id _ rfl hg x (by simpa [HObj.children] using hx) none)
        refine ⟨N + 1, fun fuel hf reg => ?_⟩
        obtain ⟨n, rfl⟩ : ∃ n, fuel = n + 1 := ⟨fuel - 1, by omega⟩
        simp only [hUnstr, hg]
        exact exceptMap_ne_fuel _ _ (mapE_ne_fuel _ _ (fun x hx => hN n (by omega) reg x hx))
      | dict kvs =>
        obtain ⟨N, hN⟩ := eventually_forall_mem kvs (fun kv fuel reg => hUnstr c fuel heap reg decls none kv.2 ≠ .error .fuel)
          (fun kv hkv => hk id _ rfl hg kv.2 (by simp only [HObj.children]; exact List.mem_map_of_mem (f := Prod.snd) hkv) none)
        refine ⟨N + 1, fun fuel hf reg => ?_⟩
        obtain ⟨n, rfl⟩ : ∃ n, fuel = n + 1 := ⟨fuel - 1, by omega⟩
        simp only [hUnstr, hg]
        exact exceptMap_ne_fuel _ _ (mapValsE_ne_fuel _ _ (fun kv hkv => hN n (by omega) reg kv hkv))
      | inst cls attrs =>
        obtain ⟨N, hN⟩ := unstr_dc_ev c heap decls (.ref id) hk cls
        refine ⟨N + 1, fun fuel hf reg => ?_⟩
        obtain ⟨n, rfl⟩ : ∃ n, fuel = n + 1 := ⟨fuel - 1, by omega⟩
        simp only [hUnstr, hg]
        exact hN n (by omega) reg
  | _ => exact one _ (fun n reg => by simp [hUnstr])

end Pog

namespace Pog

theorem eventually_one (P : Nat → List Str → Prop) (h : ∀ n reg, P (n + 1) reg) : Eventually P :=
  ⟨1, fun fuel hf reg => by obtain ⟨n, rfl⟩ : ∃ n, fuel = n + 1 := ⟨fuel - 1, by omega⟩; exact h n reg⟩

theorem eventually_succ (P Q : Nat → List Str → Prop) (hQ : Eventually Q) (h : ∀ n reg, Q n reg → P (n + 1) reg) :
    Eventually P := by
  obtain ⟨N, hN⟩ := hQ
  exact ⟨N + 1, fun fuel hf reg => by
    obtain ⟨n, rfl⟩ : ∃ n, fuel = n + 1 := ⟨fuel - 1, by omega⟩
    exact h n reg (hN n (by omega) reg)⟩

/-- Unstructuring by a declared type (`Optional` unwraps the type and keeps the value: recursion on the type). -/
theorem unstr_static_ev (c : Codecs) (heap : Heap) (decls : Decls) (v : HVal) (hk : KidsEv c heap decls v) :
    ∀ t : Ty, UnstrEv c heap decls (some t) v
  | .leaf l => eventually_one _ (fun n reg => by simp only [hUnstr]; exact hUnstrLeaf_ne_fuel c heap l v)
  | .none => eventually_one _ (fun n reg => by simp only [hUnstr]; exact hIdentity_ne_fuel heap v)
  | .fwd _ => eventually_one _ (fun n reg => by simp only [hUnstr]; exact hIdentity_ne_fuel heap v)
  | .any => eventually_succ _ _ (unstr_dyn_ev c heap decls v hk) (fun n reg h => by simp only [hUnstr]; exact h)
  | .union _ _ => eventually_succ _ _ (unstr_dyn_ev c heap decls v hk) (fun n reg h => by simp only [hUnstr]; exact h)
  | .dc name => unstr_dc_ev c heap decls v hk name
  | .enum _ members => eventually_one _ (fun n reg => by
      simp only [hUnstr]
      split
      · exact hIdentity_ne_fuel heap v
      · split <;> simp)
  | .optional t' => by
    cases v with
    | none => exact eventually_one _ (fun n reg => by simp [hUnstr])
    | ref id => exact eventually_succ _ _ (unstr_static_ev c heap decls (.ref id) hk t') (fun n reg h => by simp only [hUnstr]; exact h)
    | bool b => exact eventually_succ _ _ (unstr_static_ev c heap decls _ hk t') (fun n reg h => by simp only [hUnstr]; exact h)
    | int b => exact eventually_succ _ _ (unstr_static_ev c heap decls _ hk t') (fun n reg h => by simp only [hUnstr]; exact h)
    | str b => exact eventually_succ _ _ (unstr_static_ev c heap decls _ hk t') (fun n reg h => by simp only [hUnstr]; exact h)
    | bytes b => exact eventually_succ _ _ (unstr_static_ev c heap decls _ hk t') (fun n reg h => by simp only [hUnstr]; exact h)
    | bytearray b => exact eventually_succ _ _ (unstr_static_ev c heap decls _ hk t') (fun n reg h => by simp only [hUnstr]; exact h)
    | datetime b => exact eventually_succ _ _ (unstr_static_ev c heap decls _ hk t') (fun n reg h => by simp only [hUnstr]; exact h)
    | date b => exact eventually_succ _ _ (unstr_static_ev c heap decls _ hk t') (fun n reg h => by simp only [hUnstr]; exact h)
    | time b => exact eventually_succ _ _ (unstr_static_ev c heap decls _ hk t') (fun n reg h => by simp only [hUnstr]; exact h)
    | uuid b => exact eventually_succ _ _ (unstr_static_ev c heap decls _ hk t') (fun n reg h => by simp only [hUnstr]; exact h)
    | enum cl b => exact eventually_succ _ _ (unstr_static_ev c heap decls _ hk t') (fun n reg h => by simp only [hUnstr]; exact h)
    | «opaque» k b => exact eventually_succ _ _ (unstr_static_ev c heap decls _ hk t') (fun n reg h => by simp only [hUnstr]; exact h)
  | .list t' => by
    cases v with
    | ref id =>
      cases hg : heap.get id with
      | none => exact eventually_one _ (fun n reg => by simp [hUnstr, hg])
      | some o =>
        cases o with
        | list items =>
          obtain ⟨N, hN⟩ := eventually_forall_mem items _
            (fun x hx => hk id _ rfl hg x (by simpa [HObj.children] using hx) (some t'))
          refine ⟨N + 1, fun fuel hf reg => ?_⟩
          obtain ⟨n, rfl⟩ : ∃ n, fuel = n + 1 := ⟨fuel - 1, by omega⟩
          simp only [hUnstr, hg]
          exact exceptMap_ne_fuel _ _ (mapE_ne_fuel _ _ (fun x hx => hN n (by omega) reg x hx))
        | dict _ => exact eventually_one _ (fun n reg => by simp [hUnstr, hg])
        | inst _ _ => exact eventually_one _ (fun n reg => by simp [hUnstr, hg])
    | _ => exact eventually_one _ (fun n reg => by simp [hUnstr])
  | .dict t' => by
    cases v with
    | ref id =>
      cases hg : heap.get id with
      | none => exact eventually_one _ (fun n reg => by simp [hUnstr, hg])
      | some o =>
        cases o with
        | dict kvs =>
          obtain ⟨N, hN⟩ := eventually_forall_mem kvs
            (fun kv fuel reg => hUnstr c fuel heap reg decls (some t') kv.2 ≠ .error .fuel)
            (fun kv hkv => hk id _ rfl hg kv.2
              (by simp only [HObj.children]; exact List.mem_map_of_mem (f := Prod.snd) hkv) (some t'))
          refine ⟨N + 1, fun fuel hf reg => ?_⟩
          obtain ⟨n, rfl⟩ : ∃ n, fuel = n + 1 := ⟨fuel - 1, by omega⟩
          simp only [hUnstr, hg]
          exact exceptMap_ne_fuel _ _ (mapValsE_ne_fuel _ _ (fun kv hkv => hN n (by omega) reg kv hkv))
        | list _ => exact eventually_one _ (fun n reg => by simp [hUnstr, hg])
        | inst _ _ => exact eventually_one _ (fun n reg => by simp [hUnstr, hg])
    | _ => exact eventually_one _ (fun n reg => by simp [hUnstr])

/-- cattrs terminates on every value of an acyclic heap, at every type. -/
theorem unstr_ev_of_ranked (c : Codecs) (heap : Heap) (decls : Decls) (rank : Nat → Nat) (hr : Ranked heap rank) :
    ∀ r v, rankV rank v ≤ r → ∀ t, UnstrEv c heap decls t v := by
  intro r
  induction r with
  | zero =>
    intro v hv t
    have hk : KidsEv c heap decls v := by
      intro id o hvid _ _ _ _
      subst hvid; simp [rankV] at hv
    cases t with
    | none => exact unstr_dyn_ev c heap decls v hk
    | some t => exact unstr_static_ev c heap decls v hk t
  | succ r ih =>
    intro v hv t
    have hk : KidsEv c heap decls v := by
      intro id o hvid hg x hx t'
      subst hvid
      simp only [rankV] at hv
      exact ih x (Nat.le_trans (hr id o hg x hx) (by omega)) t'
    cases t with
    | none => exact unstr_dyn_ev c heap decls v hk
    | some t => exact unstr_static_ev c heap decls v hk t

end Pog

namespace Pog

theorem mem_leaksList (ps : List PV) (id : Nat) (h : id ∈ PV.leaksList ps) : ∃ p ∈ ps, id ∈ p.leaks := by
  induction ps with
  | nil => simp [PV.leaksList] at h
  | cons p ps ih =>
    simp only [PV.leaksList, List.mem_append] at h
    rcases h with h | h
    · exact ⟨p, by simp, h⟩
    · obtain ⟨q, hq, hid⟩ := ih h; exact ⟨q, by simp [hq], hid⟩

theorem mem_leaksKvs (kvs : List (Str × PV)) (id : Nat) (h : id ∈ PV.leaksKvs kvs) : ∃ kv ∈ kvs, id ∈ kv.2.leaks := by
  induction kvs with
  | nil => simp [PV.leaksKvs] at h
  | cons kv rest ih =>
    obtain ⟨k, p⟩ := kv
    simp only [PV.leaksKvs, List.mem_append] at h
    rcases h with h | h
    · exact ⟨(k, p), by simp, h⟩
    · obtain ⟨q, hq, hid⟩ := ih h; exact ⟨q, by simp [hq], hid⟩

theorem mem_aset {α : Type} (d : List (Str × α)) (k : Str) (v : α) (kv : Str × α) (h : kv ∈ aset d k v) :
    kv ∈ d ∨ kv = (k, v) := by
  induction d with
  | nil => simp [aset] at h; exact Or.inr h
  | cons e rest ih =>
    obtain ⟨k', v'⟩ := e
    simp only [aset] at h
    by_cases hk : k' = k
    · simp only [hk, if_true, List.mem_cons] at h
      rcases h with h | h
      · exact Or.inr (by rw [h])
      · exact Or.inl (by simp [h])
    · simp only [hk, if_false, List.mem_cons] at h
      rcases h with h | h
      · exact Or.inl (by simp [h])
      · rcases ih h with h' | h'
        · exact Or.inl (by simp [h'])
        · exact Or.inr h'

theorem mem_aofPairs {α : Type} (kvs : List (Str × α)) (kv : Str × α) (h : kv ∈ aofPairs kvs) : kv ∈ kvs := by
  unfold aofPairs at h
  have key : ∀ (l acc : List (Str × α)), kv ∈ l.foldl (fun a e => aset a e.1 e.2) acc → kv ∈ acc ∨ kv ∈ l := by
    intro l
    induction l with
    | nil => intro acc h; exact Or.inl h
    | cons e rest ih =>
      intro acc h
      simp only [List.foldl_cons] at h
      rcases ih _ h with h' | h'
      · rcases mem_aset acc e.1 e.2 kv h' with h'' | h''
        · exact Or.inl h''
        · exact Or.inr (by simp [h''])
      · exact Or.inr (by simp [h'])
  rcases key kvs [] h with h' | h'
  · cases h'
  · exact h'

theorem mapE_mem {α β ε : Type} (f : α → Except ε β) (xs : List α) (ys : List β) (h : mapE f xs = .ok ys) :
    ∀ y ∈ ys, ∃ x ∈ xs, f x = .ok y := by
  induction xs generalizing ys with
  | nil => simp [mapE] at h; subst h; simp
  | cons x xs ih =>
    simp only [mapE] at h
    cases hx : f x with
    | error e => simp [hx] at h
    | ok y0 =>
      cases hm : mapE f xs with
      | error e => simp [hx, hm] at h
      | ok ys0 =>
        simp only [hx, hm, Except.ok.injEq] at h
        subst h
        intro y hy
        rcases List.mem_cons.mp hy with e | hmem
        · subst e; exact ⟨x, by simp, hx⟩
        · obtain ⟨x', hx', hfx'⟩ := ih ys0 hm y hmem
          exact ⟨x', by simp [hx'], hfx'⟩

theorem mapValsE_mem {α β ε : Type} (f : α → Except ε β) (xs : List (Str × α)) (ys : List (Str × β))
    (h : mapValsE f xs = .ok ys) : ∀ y ∈ ys, ∃ x ∈ xs, f x.2 = .ok y.2 := by
  induction xs generalizing ys with
  | nil => simp [mapValsE] at h; subst h; simp
  | cons x xs ih =>
    obtain ⟨k, a⟩ := x
    simp only [mapValsE] at h
    cases hx : f a with
    | error e => simp [hx] at h
    | ok y0 =>
      cases hm : mapValsE f xs with
      | error e => simp [hx, hm] at h
      | ok ys0 =>
        simp only [hx, hm, Except.ok.injEq] at h
        subst h
        intro y hy
        rcases List.mem_cons.mp hy with e | hmem
        · subst e; exact ⟨(k, a), by simp, hx⟩
        · obtain ⟨x', hx', hfx'⟩ := ih ys0 hm y hmem
          exact ⟨x', by simp [hx'], hfx'⟩

theorem hUnstrFields_mem (rec : Ty → HVal → Except UErr PV) (cd : ClassDecl) (useDump : Bool)
    (attrs : List (Str × HVal)) (fs : List Field) (kvs : List (Str × PV))
    (h : hUnstrFields rec cd useDump attrs fs = .ok kvs) :
    ∀ kv ∈ kvs, ∃ f ∈ fs, ∃ x, aget attrs f.pyName = some x ∧ rec f.ty x = .ok kv.2 := by
  induction fs generalizing kvs with
  | nil => simp [hUnstrFields] at h; subst h; simp
  | cons f fs ih =>
    simp only [hUnstrFields] at h
    cases ha : aget attrs f.pyName with
    | none => simp [ha] at h
    | some x =>
      cases hr : rec f.ty x with
      | error e => simp [ha, hr] at h
      | ok j =>
        cases hm : hUnstrFields rec cd useDump attrs fs with
        | error e => simp [ha, hr, hm] at h
        | ok rest =>
          simp only [ha, hr, hm, Except.ok.injEq] at h
          subst h
          intro kv hkv
          rcases List.mem_cons.mp hkv with e | hmem
          · subst e; exact ⟨f, by simp, x, ha, hr⟩
          · obtain ⟨g, hg, y, hy1, hy2⟩ := ih rest hm kv hmem
            exact ⟨g, by simp [hg], y, hy1, hy2⟩

end Pog

namespace Pog

def LeakBound (rank : Nat → Nat) (b : Nat) (p : PV) : Prop := ∀ id ∈ p.leaks, rank id + 1 ≤ b

theorem leakBound_mono (rank : Nat → Nat) (b b' : Nat) (p : PV) (h : LeakBound rank b p) (hb : b ≤ b') :
    LeakBound rank b' p := fun id hid => Nat.le_trans (h id hid) hb

theorem enumPV_leaks (m : JsonV) : (enumPV m).leaks = [] := by cases m <;> rfl

theorem immediatePV_leaks (v : HVal) (p : PV) (h : immediatePV v = some p) : p.leaks = [] := by
  cases v <;> simp [immediatePV] at h <;> subst h <;> first | rfl | exact enumPV_leaks _

theorem hIdentity_leaks (rank : Nat → Nat) (heap : Heap) (v : HVal) (p : PV) (h : hIdentity heap v = .ok p) :
    LeakBound rank (rankV rank v) p := by
  unfold hIdentity at h
  split at h
  · rename_i id
    split at h
    · cases h; intro i hi; simp [PV.leaks] at hi; subst hi; simp [rankV]
    · cases h
  · split at h
    · rename_i q hq
      cases h
      intro i hi; rw [immediatePV_leaks _ _ hq] at hi; cases hi
    · cases h

theorem hUnstrIso_leaks (c : Codecs) (rank : Nat → Nat) (v : HVal) (p : PV)
    (h : hUnstrIso c v = .ok p) : LeakBound rank (rankV rank v) p := by
  unfold hUnstrIso at h
  split at h
  · cases h; intro i hi; simp [PV.leaks] at hi
  · cases h; intro i hi; simp [PV.leaks] at hi
  · cases h; intro i hi; simp [PV.leaks] at hi
  · cases h

theorem hUnstrLeaf_leaks (c : Codecs) (rank : Nat → Nat) (heap : Heap) (l : Leaf) (v : HVal) (p : PV)
    (h : hUnstrLeaf c heap l v = .ok p) : LeakBound rank (rankV rank v) p := by
  unfold hUnstrLeaf at h
  split at h
  · exact hIdentity_leaks rank heap v p h
  · split at h
    · split at h
      · cases h; intro i hi; simp [PV.leaks] at hi
      · cases h
    · exact hUnstrIso_leaks c rank v p h
    · exact hUnstrIso_leaks c rank v p h
    · exact hUnstrIso_leaks c rank v p h
    · split at h
      · cases h; intro i hi; simp [PV.leaks] at hi
      · cases h; intro i hi; simp [PV.leaks] at hi
      · cases h; intro i hi; simp [PV.leaks] at hi
      · cases h; intro i hi; simp [PV.leaks] at hi
      · cases h; intro i hi; simp [PV.leaks] at hi
      · cases h
    · exact hIdentity_leaks rank heap v p h

/-- Every instance leaked by cattrs is the value itself or lies strictly below it. -/
theorem hUnstr_leaks (c : Codecs) (heap : Heap) (decls : Decls) (rank : Nat → Nat) (hr : Ranked heap rank) :
    ∀ n reg t v p, hUnstr c n heap reg decls t v = .ok p → LeakBound rank (rankV rank v) p := by
  intro n
  induction n with
  | zero => intro reg t v p h; simp [hUnstr] at h
  | succ n ih =>
    intro reg t v p h
    -- the three container shapes, shared by the static and the dynamic dispatch
    have hlist : ∀ id items (t' : Option Ty), v = .ref id → heap.get id = some (.list items) →
        (mapE (hUnstr c n heap reg decls t') items).map PV.arr = .ok p → LeakBound rank (rankV rank v) p := by
      intro id items t' hv hg hm
      cases hme : mapE (hUnstr c n heap reg decls t') items with
      | error e => simp [hme, Except.map] at hm
      | ok ps =>
        simp only [hme, Except.map, Except.ok.injEq] at hm
        subst hm; subst hv
        intro i hi
        simp only [PV.leaks] at hi
        obtain ⟨q, hq, hiq⟩ := mem_leaksList ps i hi
        obtain ⟨x, hx, hfx⟩ := mapE_mem _ _ _ hme q hq
        have := ih reg t' x q hfx i hiq
        have hrx := hr id _ hg x (by simpa [HObj.children] using hx)
        simp only [rankV]; omega
    have hdict : ∀ id kvs (t' : Option Ty), v = .ref id → heap.get id = some (.dict kvs) →
        (mapValsE (hUnstr c n heap reg decls t') kvs).map PV.obj = .ok p → LeakBound rank (rankV rank v) p := by
      intro id kvs t' hv hg hm
      cases hme : mapValsE (hUnstr c n heap reg decls t') kvs with
      | error e => simp [hme, Except.map] at hm
      | ok ps =>
        simp only [hme, Except.map, Except.ok.injEq] at hm
        subst hm; subst hv
        intro i hi
        simp only [PV.leaks] at hi
        obtain ⟨q, hq, hiq⟩ := mem_leaksKvs ps i hi
        obtain ⟨x, hx, hfx⟩ := mapValsE_mem _ _ _ hme q hq
        have := ih reg t' x.2 q.2 hfx i hiq
        have hrx := hr id _ hg x.2 (by simp only [HObj.children]; exact List.mem_map_of_mem (f := Prod.snd) hx)
        simp only [rankV]; omega
    have hdc : ∀ name, hUnstr c (n + 1) heap reg decls (some (.dc name)) v = .ok p → LeakBound rank (rankV rank v) p := by
      intro name hh
      simp only [hUnstr] at hh
      cases hcd : aget decls name with
      | none => simp [hcd] at hh
      | some cd =>
        simp only [hcd] at hh
        cases hf : hUnstrFields (fun ft fv => hUnstr c n heap reg decls (some ft) fv) cd (reg.contains name)
            (hAttrs heap v) cd.fields with
        | error e => rw [hf] at hh; simp only [Except.map] at hh; cases hh
        | ok kvs =>
          simp only [hf, Except.map, Except.ok.injEq] at hh
          subst hh
          intro i hi
          simp only [PV.leaks] at hi
          obtain ⟨kv, hkv, hikv⟩ := mem_leaksKvs _ i hi
          obtain ⟨f, _, x, hax, hrx⟩ := hUnstrFields_mem _ _ _ _ _ _ hf kv (mem_aofPairs _ _ hkv)
          obtain ⟨id, o, hv, hg, hxo⟩ := hAttrs_children heap v f.pyName x hax
          have := ih reg (some f.ty) x kv.2 hrx i hikv
          have hrk := hr id o hg x hxo
          subst hv
          simp only [rankV]; omega
    cases t with
    | none =>
      cases v with
      | ref id =>
        simp only [hUnstr] at h
        cases hg : heap.get id with
        | none => simp [hg] at h
        | some o =>
          cases o with
          | list items => simp only [hg] at h; exact hlist id items none rfl hg h
          | dict kvs => simp only [hg] at h; exact hdict id kvs none rfl hg h
          | inst cls attrs =>
            simp only [hg] at h
            cases n with
            | zero => simp [hUnstr] at h
            | succ m => exact ih reg (some (.dc cls)) (.ref id) p h
      | enum cl m => simp [hUnstr] at h; subst h; intro i hi; rw [enumPV_leaks] at hi; cases hi
      | _ => simp [hUnstr] at h; subst h; intro i hi; simp [PV.leaks] at hi
    | some t =>
      cases t with
      | leaf l => simp only [hUnstr] at h; exact hUnstrLeaf_leaks c rank heap l v p h
      | any => simp only [hUnstr] at h; exact ih reg none v p h
      | none => simp only [hUnstr] at h; exact hIdentity_leaks rank heap v p h
      | fwd _ => simp only [hUnstr] at h; exact hIdentity_leaks rank heap v p h
      | union _ _ => simp only [hUnstr] at h; exact ih reg none v p h
      | dc name => exact hdc name h
      | enum _ ms =>
        simp only [hUnstr] at h
        split at h
        · exact hIdentity_leaks rank heap v p h
        · split at h
          · cases h; intro i hi; rw [enumPV_leaks] at hi; cases hi
          · cases h
      | optional t' =>
        simp only [hUnstr] at h
        split at h
        · cases h; intro i hi; simp [PV.leaks] at hi
        · exact ih reg (some t') v p h
      | list t' =>
        simp only [hUnstr] at h
        split at h
        · rename_i id
          split at h
          · rename_i items hg; exact hlist id items (some t') rfl hg h
          · cases h
        · cases h
      | dict t' =>
        simp only [hUnstr] at h
        split at h
        · rename_i id
          split at h
          · rename_i kvs hg; exact hdict id kvs (some t') rfl hg h
          · cases h
        · cases h

end Pog

namespace Pog

mutual
theorem ensureWith_ne_fuel (track : List Str → Nat → Except UErr (PV × List Str)) :
    ∀ (p : PV) (reg : List Str), (∀ id ∈ p.leaks, ∀ r, track r id ≠ .error .fuel) →
      PV.ensureWith track reg p ≠ .error .fuel
  | .leak id, reg, h => by simp only [PV.ensureWith]; exact h id (by simp [PV.leaks]) reg
  | .null, _, _ => by simp [PV.ensureWith]
  | .bool _, _, _ => by simp [PV.ensureWith]
  | .int _, _, _ => by simp [PV.ensureWith]
  | .str _, _, _ => by simp [PV.ensureWith]
  | .opaque _ _, _, _ => by simp [PV.ensureWith]
  | .arr xs, reg, h => by
    have := ensureListWith_ne_fuel track xs reg (by simpa [PV.leaks] using h)
    simp only [PV.ensureWith]
    cases hm : PV.ensureListWith track reg xs with
    | error e => simp only [ne_eq, Except.error.injEq]; intro he; exact this (by rw [hm, he])
    | ok r => simp
  | .obj kvs, reg, h => by
    have := ensureKvsWith_ne_fuel track kvs reg (by simpa [PV.leaks] using h)
    simp only [PV.ensureWith]
    cases hm : PV.ensureKvsWith track reg kvs with
    | error e => simp only [ne_eq, Except.error.injEq]; intro he; exact this (by rw [hm, he])
    | ok r => simp
theorem ensureListWith_ne_fuel (track : List Str → Nat → Except UErr (PV × List Str)) :
    ∀ (xs : List PV) (reg : List Str), (∀ id ∈ PV.leaksList xs, ∀ r, track r id ≠ .error .fuel) →
      PV.ensureListWith track reg xs ≠ .error .fuel
  | [], _, _ => by simp [PV.ensureListWith]
  | x :: xs, reg, h => by
    have h1 := ensureWith_ne_fuel track x reg (fun id hid => h id (by simp [PV.leaksList, hid]))
    simp only [PV.ensureListWith]
    cases hx : PV.ensureWith track reg x with
    | error e => simp only [ne_eq, Except.error.injEq]; intro he; exact h1 (by rw [hx, he])
    | ok r =>
      obtain ⟨p, reg1⟩ := r
      have h2 := ensureListWith_ne_fuel track xs reg1 (fun id hid => h id (by simp [PV.leaksList, hid]))
      simp only
      cases hm : PV.ensureListWith track reg1 xs with
      | error e => simp only [ne_eq, Except.error.injEq]; intro he; exact h2 (by rw [hm, he])
      | ok r2 => simp
theorem ensureKvsWith_ne_fuel (track : List Str → Nat → Except UErr (PV × List Str)) :
    ∀ (kvs : List (Str × PV)) (reg : List Str), (∀ id ∈ PV.leaksKvs kvs, ∀ r, track r id ≠ .error .fuel) →
      PV.ensureKvsWith track reg kvs ≠ .error .fuel
  | [], _, _ => by simp [PV.ensureKvsWith]
  | (k, x) :: rest, reg, h => by
    simp only [PV.ensureKvsWith]
    split
    · exact ensureKvsWith_ne_fuel track rest reg (fun id hid => h id (by simp [PV.leaksKvs, hid]))
    · have h1 := ensureWith_ne_fuel track x reg (fun id hid => h id (by simp [PV.leaksKvs, hid]))
      cases hx : PV.ensureWith track reg x with
      | error e => simp only [ne_eq, Except.error.injEq]; intro he; exact h1 (by rw [hx, he])
      | ok r =>
        obtain ⟨p, reg1⟩ := r
        have h2 := ensureKvsWith_ne_fuel track rest reg1 (fun id hid => h id (by simp [PV.leaksKvs, hid]))
        simp only
        cases hm : PV.ensureKvsWith track reg1 rest with
        | error e => simp only [ne_eq, Except.error.injEq]; intro he; exact h2 (by rw [hm, he])
        | ok r2 => simp
end

theorem mapSt_ne_fuel {α β : Type} (f : List Str → α → Except UErr (β × List Str)) (xs : List α)
    (h : ∀ x ∈ xs, ∀ r, f r x ≠ .error .fuel) : ∀ reg, mapSt f reg xs ≠ .error .fuel := by
  induction xs with
  | nil => intro reg; simp [mapSt]
  | cons x xs ih =>
    intro reg
    have hx := h x (by simp) reg
    simp only [mapSt]
    cases hfx : f reg x with
    | error e => simp only [ne_eq, Except.error.injEq]; intro he; exact hx (by rw [hfx, he])
    | ok r =>
      obtain ⟨y, reg1⟩ := r
      have ih' := ih (fun z hz => h z (by simp [hz])) reg1
      simp only
      cases hm : mapSt f reg1 xs with
      | error e => simp only [ne_eq, Except.error.injEq]; intro he; exact ih' (by rw [hm, he])
      | ok r2 => simp

end Pog

namespace Pog

theorem heap_get_mem (heap : Heap) (id : Nat) (o : HObj) (h : heap.get id = some o) : id ∈ heap.map Prod.fst := by
  induction heap with
  | nil => simp [Heap.get] at h
  | cons e rest ih =>
    obtain ⟨i, o'⟩ := e
    simp only [Heap.get] at h
    by_cases hi : i = id
    · simp [hi]
    · simp only [hi, if_false] at h
      simp [ih h]

/-- Values that are not references: one step, plus cattrs on an immediate. -/
theorem serF_ev_imm (c : Codecs) (heap : Heap) (decls : Decls) (rank : Nat → Nat) (hr : Ranked heap rank)
    (v : HVal) (hv : rankV rank v = 0) (visited : List Nat) :
    Eventually (fun fuel reg => serF c fuel heap decls visited reg v ≠ .error .fuel) := by
  have helse : (∀ n reg, serF c (n + 1) heap decls visited reg v =
      match hUnstr c n heap reg decls none v with
      | .error e => .error e
      | .ok result => .ok (result.removeNone, reg)) →
      Eventually (fun fuel reg => serF c fuel heap decls visited reg v ≠ .error .fuel) := by
    intro hs
    obtain ⟨N, hN⟩ := unstr_ev_of_ranked c heap decls rank hr 0 v (by omega) none
    refine ⟨N + 1, fun fuel hf reg => ?_⟩
    obtain ⟨n, rfl⟩ : ∃ n, fuel = n + 1 := ⟨fuel - 1, by omega⟩
    have := hN n (by omega) reg
    rw [hs]
    cases hu : hUnstr c n heap reg decls none v with
    | error e => simp only [ne_eq, Except.error.injEq]; intro he; exact this (by rw [hu, he])
    | ok p => simp
  cases v with
  | ref id => simp [rankV] at hv
  | none => exact eventually_one _ (fun n reg => by simp [serF])
  | bool _ => exact eventually_one _ (fun n reg => by simp [serF])
  | int _ => exact eventually_one _ (fun n reg => by simp [serF])
  | str _ => exact eventually_one _ (fun n reg => by simp [serF])
  | enum _ _ => exact eventually_one _ (fun n reg => by simp [serF])
  | bytearray _ => exact eventually_one _ (fun n reg => by simp [serF])
  | bytes b => exact helse (fun n reg => by simp only [serF]; rfl)
  | datetime b => exact helse (fun n reg => by simp only [serF]; rfl)
  | date b => exact helse (fun n reg => by simp only [serF]; rfl)
  | time b => exact helse (fun n reg => by simp only [serF]; rfl)
  | uuid b => exact helse (fun n reg => by simp only [serF]; rfl)
  | «opaque» k b => exact helse (fun n reg => by simp only [serF]; rfl)

/-- `DataclassSerializer.serialize` terminates on every value of an acyclic heap. -/
theorem serF_ev_of_ranked (c : Codecs) (heap : Heap) (decls : Decls) (rank : Nat → Nat) (hr : Ranked heap rank) :
    ∀ r v, rankV rank v ≤ r → ∀ visited,
      Eventually (fun fuel reg => serF c fuel heap decls visited reg v ≠ .error .fuel) := by
  intro r
  induction r with
  | zero => intro v hv visited; exact serF_ev_imm c heap decls rank hr v (by omega) visited
  | succ r ih =>
    intro v hv visited
    cases v with
    | ref id =>
      simp only [rankV] at hv
      by_cases hvis' : visited.contains id = true
      · exact eventually_one _ (fun n reg => by simp only [serF, hvis', if_true]; simp)
      · have hvis : visited.contains id = false := by simpa using hvis'
        cases hg : heap.get id with
        | none => exact eventually_one _ (fun n reg => by simp only [serF, hvis, hg]; simp)
        | some o =>
          cases o with
          | list items =>
            obtain ⟨N, hN⟩ := eventually_forall_mem items
              (fun x fuel reg => serF c fuel heap decls (id :: visited) reg x ≠ .error .fuel)
              (fun x hx => ih x (Nat.le_trans (hr id _ hg x (by simpa [HObj.children] using hx)) (by omega)) (id :: visited))
            refine ⟨N + 1, fun fuel hf reg => ?_⟩
            obtain ⟨n, rfl⟩ : ∃ n, fuel = n + 1 := ⟨fuel - 1, by omega⟩
            simp only [serF, hvis, hg, Bool.false_eq_true, if_false]
            have := mapSt_ne_fuel (fun r item => serF c n heap decls (id :: visited) r item) items
              (fun x hx r' => hN n (by omega) r' x hx) reg
            cases hm : mapSt (fun r item => serF c n heap decls (id :: visited) r item) reg items with
            | error e => simp only [ne_eq, Except.error.injEq]; intro he; exact this (by rw [hm, he])
            | ok pr => simp
          | dict kvs =>
            obtain ⟨N, hN⟩ := unstr_ev_of_ranked c heap decls rank hr (r + 1) (.ref id) (by simp [rankV]; omega) none
            refine ⟨N + 1, fun fuel hf reg => ?_⟩
            obtain ⟨n, rfl⟩ : ∃ n, fuel = n + 1 := ⟨fuel - 1, by omega⟩
            have := hN n (by omega) reg
            simp only [serF, hvis, hg, Bool.false_eq_true, if_false]
            cases hu : hUnstr c n heap reg decls none (.ref id) with
            | error e => simp only [ne_eq, Except.error.injEq]; intro he; exact this (by rw [hu, he])
            | ok p => simp
          | inst cls attrs =>
            -- cattrs on the instance
            obtain ⟨N1, hN1⟩ := unstr_ev_of_ranked c heap decls rank hr (r + 1) (.ref id) (by simp [rankV]; omega)
              (some (.dc cls))
            -- every object strictly below it, uniformly
            obtain ⟨N2, hN2⟩ := eventually_forall_mem (heap.map Prod.fst)
              (fun i fuel reg => rank i + 1 ≤ rank id → serF c fuel heap decls (id :: visited) reg (.ref i) ≠ .error .fuel)
              (fun i _ => by
                by_cases hi : rank i + 1 ≤ rank id
                · obtain ⟨N, hN⟩ := ih (.ref i) (by simp [rankV]; omega) (id :: visited)
                  exact ⟨N, fun fuel hf reg _ => hN fuel hf reg⟩
                · exact ⟨0, fun _ _ _ h => absurd h hi⟩)
            refine ⟨max N1 N2 + 2, fun fuel hf reg => ?_⟩
            obtain ⟨n, rfl⟩ : ∃ n, fuel = n + 1 := ⟨fuel - 1, by omega⟩
            simp only [serF, hvis, hg, Bool.false_eq_true, if_false]
            have hA := hN1 n (by omega) ((regTy n decls [] (.dc cls)).foldl insertName reg)
            cases hu : hUnstr c n heap ((regTy n decls [] (.dc cls)).foldl insertName reg) decls (some (.dc cls)) (.ref id) with
            | error e => simp only [ne_eq, Except.error.injEq]; intro he; exact hA (by rw [hu, he])
            | ok p =>
              simp only
              -- the leaks of `p` lie strictly below `id`
              have hleaks : ∀ i ∈ p.leaks, rank i + 1 ≤ rank id := by
                obtain ⟨m, rfl⟩ : ∃ m, n = m + 1 := ⟨n - 1, by omega⟩
                intro i hi
                simp only [hUnstr] at hu
                cases hcd : aget decls cls with
                | none => simp [hcd] at hu
                | some cd =>
                  simp only [hcd] at hu
                  cases hf : hUnstrFields (fun ft fv => hUnstr c m heap
                      ((regTy (m + 1) decls [] (.dc cls)).foldl insertName reg) decls (some ft) fv) cd
                      (((regTy (m + 1) decls [] (.dc cls)).foldl insertName reg).contains cls)
                      (hAttrs heap (.ref id)) cd.fields with
                  | error e => rw [hf] at hu; simp only [Except.map] at hu; cases hu
                  | ok kvs =>
                    simp only [hf, Except.map, Except.ok.injEq] at hu
                    subst hu
                    simp only [PV.leaks] at hi
                    obtain ⟨kv, hkv, hikv⟩ := mem_leaksKvs _ i hi
                    obtain ⟨f, _, x, hax, hrx⟩ := hUnstrFields_mem _ _ _ _ _ _ hf kv (mem_aofPairs _ _ hkv)
                    obtain ⟨id', o, hv', hg', hxo⟩ := hAttrs_children heap (.ref id) f.pyName x hax
                    cases hv'
                    have h1 := hUnstr_leaks c heap decls rank hr m _ (some f.ty) x kv.2 hrx i hikv
                    have h2 := hr id o hg' x hxo
                    omega
              have hE := ensureWith_ne_fuel (fun r' i => serF c n heap decls (id :: visited) r' (.ref i)) p
                ((regTy n decls [] (.dc cls)).foldl insertName reg)
                (fun i hi r' => by
                  by_cases hmem : i ∈ heap.map Prod.fst
                  · exact hN2 n (by omega) r' i hmem (hleaks i hi)
                  · -- not an object of the heap at all: the lookup fails, which is not a budget failure
                    obtain ⟨m, rfl⟩ : ∃ m, n = m + 1 := ⟨n - 1, by omega⟩
                    have hgi : heap.get i = none := by
                      cases hgi : heap.get i with
                      | none => rfl
                      | some o' => exact absurd (heap_get_mem heap i o' hgi) hmem
                    simp only [serF, hgi]
                    split <;> simp)
              cases he : PV.ensureWith (fun r' i => serF c n heap decls (id :: visited) r' (.ref i))
                  ((regTy n decls [] (.dc cls)).foldl insertName reg) p with
              | error e => simp only [ne_eq, Except.error.injEq]; intro hee; exact hE (by rw [he, hee])
              | ok pr => simp
    | none => exact serF_ev_imm c heap decls rank hr _ rfl visited
    | bool _ => exact serF_ev_imm c heap decls rank hr _ rfl visited
    | int _ => exact serF_ev_imm c heap decls rank hr _ rfl visited
    | str _ => exact serF_ev_imm c heap decls rank hr _ rfl visited
    | enum _ _ => exact serF_ev_imm c heap decls rank hr _ rfl visited
    | bytearray _ => exact serF_ev_imm c heap decls rank hr _ rfl visited
    | bytes b => exact serF_ev_imm c heap decls rank hr _ rfl visited
    | datetime b => exact serF_ev_imm c heap decls rank hr _ rfl visited
    | date b => exact serF_ev_imm c heap decls rank hr _ rfl visited
    | time b => exact serF_ev_imm c heap decls rank hr _ rfl visited
    | uuid b => exact serF_ev_imm c heap decls rank hr _ rfl visited
    | «opaque» k b => exact serF_ev_imm c heap decls rank hr _ rfl visited

end Pog
