#!/bin/sh
# every thorough command once, serially (run from the /verif checkout or a `vp run` snapshot of it): builds first, evidence/replays to scratch
cd "$(dirname "$0")/.." || exit 2
OUT=${1:-/tmp/thorough-all}; rm -rf "$OUT"; mkdir -p "$OUT"
/venv/bin/python -m vf.extract_tables >/dev/null && (cd lean && lake build Pog driver >/dev/null 2>&1) || { echo "setup failed"; exit 2; }
for i in 01 02 03 04 05 06 07 08 09 10 11 12 13 14 15 16 17 18 19 20; do
  S=$(date +%s)
  VERIF_EVIDENCE_DIR=$OUT/ev VERIF_OUT_DIR=$OUT/out ./check C$i --tier thorough > $OUT/C$i.log 2>&1
  echo "C$i rc=$? ($(( $(date +%s) - S ))s) $(grep -c '^VIOLATION' $OUT/C$i.log) violations"
  grep -A1 '^VIOLATION' $OUT/C$i.log | cut -c1-300
done
