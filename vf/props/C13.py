"""C13 — endpoint clients, their Protocols and their mocks have identical surfaces."""
from __future__ import annotations

from .. import findings
from . import _generic as g

PROP = "C13"
CORR = "vf.corr.c13"
# F47 (classes `mock-asyncgen-nature`, `protocol-async-dropped`: a coroutine returning `AsyncIteratorResult`) and F23 (classes
# `mock-groups-by-first-raw-tag`, `mock-tag-case-variants-collide`, and on the client skeletons `mock-client-props-order`,
# `mock-client-props-differ`, `mock-client-duplicate-argument`: the mocks emitter grouped by first raw tag) are repaired: those classes
# are still computed by the oracles, a recurrence is a violation
CLASSES: dict[str, str] = {}


def check(run, ctx) -> None:
    known = findings.Known(run, PROP)
    g.run_corr(run, ctx, CORR, "Surface (protoStub, toMock, grouping on real generated method texts)", quick=0.8, thorough=6.0)
    g.run_oracle(run, ctx, known, CORR, "C13 by introspection of the imported package (client vs Protocol vs mock)", CLASSES, quick=0.8, thorough=6.0)
    g.run_corr(run, ctx, "vf.corr.client", "ClientGen (APIClient / APIClientProtocol / MockAPIClient skeletons vs Pog.ClientGen)", quick=0.3, thorough=3.0)
    # F64 (a tag named like one of APIClient's own members) is repaired: its classes (property-shadowed-by-method, tag-client-unreachable,
    # property-named-like-instance-attribute, api-client-construction-fails, private-attr-collision, duplicate-property-name,
    # mock-client-self-argument) map to no finding - a recurrence is a violation.  The `-nonascii` classes (collisions between two tag
    # clients that only non-ASCII tags produce) are reported as a new finding by the F64 work package, listed as F68.
    g.run_oracle(run, ctx, g.Informational(known), "vf.corr.client", "client.py / mock_client.py skeletons on the real ClientVisitor / MocksEmitter",
                 {k: (v if v in ['F68'] or v.startswith("-") else '-' + v) for k, v in {"mock-client-empty-init": "F31", "property-name-not-identifier": "F29", "client-syntax-error": "F29",
                  "mock-client-syntax-error": "F29", "duplicate-property-name-nonascii": "F68", "private-attr-collision-nonascii": "F68",
                  "api-client-construction-fails-nonascii": "F68", "tag-client-unreachable-nonascii": "F68", "mock-client-duplicate-property-name": "F68"}.items()}, quick=0.5, thorough=4.0)
    known.report_unreplayed()


def search(run, ctx) -> None:
    check(run, ctx)


def replay(run, ctx, rec) -> bool:
    return g.replay_generic(rec)
