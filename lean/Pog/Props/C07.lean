import Pog.Lemmas.Ops
import Pog.Props.ClientGen
/-
  C07 (operation side) — every (path, method) operation of an accepted document is callable as exactly one
  async method on the client of each of its tags (or of `default`); distinct operations never collapse into
  one method; method names are valid, unique per client and follow the selected naming strategy; an operation
  that cannot be represented makes generation fail visibly instead of being omitted.
  C19 (rendering part) — the same document supplied as JSON or as an equivalent YAML rendering (quoted vs.
  unquoted status codes) produces the same client.

  Model: `Pog.Ops` (Pog/Model/Ops.lean) = parser.py loop + responses/parser.py checks + endpoints_emitter.py
  de-duplication and tag grouping + the number of `emit` calls made by client_generator.py.

  What is proved.  `✗` marks full statements that are FALSE of the current code; they appear as a
  `_counterexample` (concrete witness, `decide`) and a `_partial` whose hypothesis is the excluded class.

    ids follow the strategy        full      `derived_id_follows_strategy`, `parsed_operation_fields`
    every recognised pair is an IR operation or a warning            full   `parse_partition`
    … is an IR operation (nothing omitted)                           ✗      `parse_keeps_all_partial`,
          exact dropped class `dropped_iff` (F44 repaired: the empty operationId is no reason any more,
          `empty_operation_id_former_witness`, `operation_id_never_empty`); witness
          `bad_status_key_drops_operation_counterexample`; general `bad_status_key_operation_is_invisible`
    JSON ≡ YAML rendering (C19), unquoted numeric status codes         full   `status_key_typing`, `int_status_key_is_parsed` (F16 repaired)
          float / bool / null keys                                    ✗      `status_key_typing_counterexample`,
          `unquoted_reading_only_loses_operations`
    derived (PATH) ids distinct for distinct operations               ✗      `derived_ids_distinct_counterexample`
    final method names pairwise distinct                              full   `method_names_distinct` (F17 repaired; one emit
          pass or two: `emit_passes_irrelevant`), former witnesses `method_names_distinct_former_witness`,
          `dedup_suffix_collision_former_witness`
    exactly one method per tag client                                 full   `one_method_per_tag_client` (F45 repaired: an
          operation tagged with two spellings of one tag is appended once), former witness `duplicate_tag_former_witness`;
          with the parser: `reachable_exactly_once_partial`
    method names are valid identifiers                                ✗      `method_names_valid` (partial: ids with an
          ASCII alphanumeric), full for the PATH strategy `path_strategy_method_names_valid`,
          witness `method_names_valid_counterexample`
-/
/-
  C07, "the tag client is reachable as a property of APIClient" (Pog/Model/ClientGen.lean mirrors `ClientVisitor.visit`,
  `_generate_client_implementation`, `generate_client_protocol`, `generate_client_mock_class` as class SKELETONS; tied by vf/corr/client.py;
  proved in Pog/Props/ClientGen.lean, claimed here):
    every_tag_group_has_a_property         every tag of every operation (or `default`) has the property `tagAttr(sanModule(canonical tag))`
                                           returning `sanClass(canonical)+"Client"`; one property per distinct normalised key (`property_count`)
    tag_clients_are_properties             the properties are a permutation of the emitter's tag clients (`_tag_attr_name(module)`, class)
    property_names (F64 repaired)          for EVERY input no property is named like one of APIClient's own members (`request`, `close`,
                                           `transport`, `config`, `_base_url`, the dunder methods, `self`); `tag_attr_unchanged_iff`: ordinary
                                           tags keep their names
    properties_not_shadowed_by_methods     for every input no property is replaced by a method of the class body
    properties_survive_partial             every property survives in the finished class for ASCII tags (the exclusion of `request` / `close` is gone)
    property_shadowed_former_witness / property_names_former_witness   the tags `request` / `close` / `Transport` are `request_` / `close_` / `transport_`
-/
-- INDEX Pog.ClientGenProps: visit_never_raises, tag_tuples_one_per_key, tag_tuples_sorted_by_key, every_tag_group_has_a_property, property_count, tag_clients_are_properties, tag_attr_unchanged_iff, property_names_are_tag_attrs, property_names, properties_not_shadowed_by_methods, properties_survive_partial, property_shadowed_former_witness, property_names_former_witness
namespace Pog.C07
open Pog Pog.Ops

/-! ## Concrete documents used as witnesses -/

private def s (x : String) : Str := x.toList

/-- `paths: {/a: {get: {operationId: x, responses: {"200": …}}}}` — the JSON reading. -/
def docQuoted : Paths :=
  [(s "/a", [(s "get", { operationId := some (s "x"), responses := [.strKey (s "200")] })])]

/-- The same document as YAML with the unquoted key `200:` (what `yaml.safe_load` returns). -/
def docUnquoted : Paths :=
  [(s "/a", [(s "get", { operationId := some (s "x"), responses := [.intKey 200] })])]

/-! ## The operation id follows the naming strategy -/

/-- `OPERATION_ID` keeps a declared NON-EMPTY id verbatim, `PATH` ignores it, `CLEAN` is the FastAPI cleaner applied
    to it, and a missing or empty id (F44 repaired) is always derived from method and path. -/
theorem derived_id_follows_strategy (mu path id : Str) (d : Option Str) (hid : id ≠ []) :
    chooseOpId .operationId mu path (some id) = id ∧
    chooseOpId .clean mu path (some id) = cleanOpId id mu path ∧
    chooseOpId .path mu path d = deriveOpIdU mu path ∧
    (∀ st, chooseOpId st mu path none = deriveOpIdU mu path) ∧
    (∀ st, chooseOpId st mu path (some []) = deriveOpIdU mu path) := by
  refine ⟨?_, ?_, ?_, ?_, ?_⟩
  · simp only [chooseOpId, declaredId_of_ne_nil hid]
  · simp only [chooseOpId, declaredId_of_ne_nil hid]
  · unfold chooseOpId; cases declaredId d <;> rfl
  · intro st; cases st <;> rfl
  · intro st; cases st <;> rfl

example : ("listPets".toList : Str) ≠ [] := by decide

/-- The id an operation is parsed with is never empty (F44 repaired) - every strategy, path, declared id. -/
theorem operation_id_never_empty (st : Naming) (mu path : Str) (d : Option Str) (h : mu ∈ httpMethods) :
    chooseOpId st mu path d ≠ [] :=
  chooseOpId_ne_nil st mu path d h

/-- Every IR operation produced for a path-item entry carries the path, the upper-cased method key, the id
    chosen by the strategy and `list(tags)`. -/
theorem parsed_operation_fields (u : UInfo) (st : Naming) (path key : Str) (op : RawOp) (o : IROp)
    (h : parseOne u st path key op = .parsed o) :
    recognised u key = true ∧ o.path = path ∧ o.method = u.upperS key ∧
      o.opId = chooseOpId st (u.upperS key) path op.operationId ∧ o.tags = tagsList op.tags := by
  obtain ⟨hr, rfl⟩ := parseOne_parsed_fields u st path key op o h
  exact ⟨hr, rfl, rfl, rfl, rfl⟩

/-- The three strategies on FastAPI's `create_details_details_post` at `POST /details`. -/
example :
    chooseOpId .operationId (s "POST") (s "/details") (some (s "create_details_details_post"))
      = s "create_details_details_post" ∧
    chooseOpId .clean (s "POST") (s "/details") (some (s "create_details_details_post")) = s "create_details" ∧
    chooseOpId .path (s "POST") (s "/details") (some (s "create_details_details_post")) = s "post_details" := by
  decide

/-- Method keys are matched case-insensitively (`mu = method.upper()`): `get`, `GET` and `Get` in one path
    item are three IR operations with the same (path, method). -/
example :
    (parseOps UInfo.ascii .operationId [(s "/a", [(s "get", {}), (s "GET", {}), (s "parameters", {}), (s "x-y", {})])]).1.map
      IROp.key = [(s "/a", s "GET"), (s "/a", s "GET")] := by decide

/-! ## Nothing is omitted -/

/-- Every recognised (path, method) pair of the document is accounted for: it is an IR operation or it
    produced a warning (the parser never loses an operation without a trace) — all inputs. -/
theorem parse_partition (u : UInfo) (st : Naming) (paths : Paths) :
    (parseOps u st paths).1.length + (parseOps u st paths).2.length = (allPairs u paths).length :=
  parseOps_partition u st paths

/-- EXACTLY which operations end in the `except Exception: warn; continue` branch (F44 repaired: a declared empty operationId
    no longer is among the reasons). -/
theorem dropped_iff (u : UInfo) (st : Naming) (path key : Str) (op : RawOp) :
    opRaises u st path key op = true ↔
      recognised u key = true ∧ (op.parseRaises = true ∨ op.responses.any StatusKey.isBad = true) :=
  opRaises_iff u st path key op

/-- No warning ever carries `operation_id_for_promo must be provided`: that `raise` of the response parser is unreachable from the
    operations parser. -/
theorem never_dropped_for_empty_id (u : UInfo) (st : Naming) (path key : Str) (op : RawOp) (w : OpWarning)
    (h : parseOne u st path key op = .dropped w) : w.reason ≠ .emptyOpId :=
  parseOne_never_emptyOpId u st path key op w h

/-- ✗ FULL: `(parseOps u st paths).1.map key = allPairs u paths` for every document.
    PARTIAL: when no operation raises (see `dropped_iff` for the exact class), `parse_operations` yields exactly
    one IR operation per (path, method) pair with a recognised HTTP method, in document order, and no warning. -/
theorem parse_keeps_all_partial (u : UInfo) (st : Naming) (paths : Paths)
    (h : parseSucceeds u st paths = true) :
    (parseOps u st paths).1.map IROp.key = allPairs u paths ∧ (parseOps u st paths).2 = [] :=
  parseOps_keeps_all u st paths h

example : parseSucceeds UInfo.ascii .clean
    [(s "/details", [(s "post", { operationId := some (s "create_details_details_post"),
                                   tags := .list [s "Details"], responses := [.strKey (s "201"), .strKey (s "default")] }),
                     (s "parameters", {}),
                     (s "get", { responses := [.strKey (s "200")] })])] = true := by decide

/-- The document with a float key `1.5:` (the only kind of non-string key that still raises). -/
def docBadKey : Paths :=
  [(s "/a", [(s "get", { operationId := some (s "x"), responses := [.badKey (s "1.5")] })])]

/-- F16 repaired: the operation with the unquoted YAML key `200:` is an IR operation like its quoted twin, no warning. -/
theorem int_status_key_is_parsed :
    parseOps UInfo.ascii .operationId docUnquoted = ([⟨s "/a", s "GET", s "x", []⟩], []) ∧
    parseOps UInfo.ascii .operationId docUnquoted = parseOps UInfo.ascii .operationId docQuoted := by decide

/-- ✗ witness of what remains: a status key that is neither a string nor an integer (`1.5:`, `true:`, `~:`) still drops the
    operation with only a warning. -/
theorem bad_status_key_drops_operation_counterexample :
    parseOps UInfo.ascii .operationId docBadKey = ([], [⟨s "GET", s "/a", .codeNotStr⟩]) ∧
    allPairs UInfo.ascii docBadKey = [(s "/a", s "GET")] := by decide

/-- General form, one entry: an operation with such a key is never an IR operation,
    whatever the strategy, the key spelling, its id or its other members. -/
theorem bad_status_key_never_parsed (u : UInfo) (st : Naming) (path key : Str) (op : RawOp)
    (h : op.responses.any StatusKey.isBad = true) (o : IROp) : parseOne u st path key op ≠ .parsed o :=
  parseOne_bad_key u st path key op h o

/-- General form, whole document: the IR operations are those of the document with every operation that has
    such a key deleted — such an operation is invisible to everything downstream. -/
theorem bad_status_key_operation_is_invisible (u : UInfo) (st : Naming) (paths : Paths) :
    (parseOps u st paths).1 = (parseOps u st (eraseBadKeyOps paths)).1 :=
  (parseOps_erase u st paths).symm

/-- The former witness of F44: `operationId: ""` with a declared response used to be dropped with the warning
    `operation_id_for_promo must be provided`; it now is the operation `get_a`, exactly like its twin without `operationId`
    (and the PATH strategy always gave that). -/
theorem empty_operation_id_former_witness :
    parseOps UInfo.ascii .operationId
      [(s "/a", [(s "get", { operationId := some [], responses := [.strKey (s "200")] })])]
      = ([⟨s "/a", s "GET", s "get_a", []⟩], []) ∧
    parseOps UInfo.ascii .clean
      [(s "/a", [(s "get", { operationId := some [], responses := [.strKey (s "200")] })])]
      = parseOps UInfo.ascii .clean [(s "/a", [(s "get", { responses := [.strKey (s "200")] })])] := by decide

/-! ## C19: quoted vs. unquoted status codes -/

/-- C19 at full strength for unquoted NUMERIC status codes (F16 repaired): for every document whose status keys are strings or
    integers, the JSON reading (every key quoted) and the YAML reading give the same operations and the same warnings. -/
theorem status_key_typing (u : UInfo) (st : Naming) (paths : Paths)
    (h : paths.all (fun p => p.2.all (fun e => !hasBadKey e.2)) = true) :
    parseOps u st (quoteKeys paths) = parseOps u st paths :=
  parseOps_quote u st paths h

/-- `docQuoted` is the JSON reading of `docUnquoted`, and `docUnquoted` (an INTEGER key) satisfies the hypothesis. -/
example : quoteKeys docUnquoted = docQuoted ∧
    docUnquoted.all (fun p => p.2.all (fun e => !hasBadKey e.2)) = true := by decide

/-- ✗ what remains: a float / bool / null key is read differently by the two renderings. -/
theorem status_key_typing_counterexample :
    parseOps UInfo.ascii .operationId (quoteKeys docBadKey) ≠ parseOps UInfo.ascii .operationId docBadKey ∧
    (parseOps UInfo.ascii .operationId (quoteKeys docBadKey)).1 = [⟨s "/a", s "GET", s "x", []⟩] ∧
    (parseOps UInfo.ascii .operationId docBadKey).1 = [] := by decide

/-- What unquoted keys can do (all inputs): the YAML reading never adds or alters an operation, it only
    LOSES operations relative to the JSON reading of the same document. -/
theorem unquoted_reading_only_loses_operations (u : UInfo) (st : Naming) (paths : Paths) :
    (parseOps u st paths).1.Sublist (parseOps u st (quoteKeys paths)).1 :=
  parseOps_quote_sublist u st paths

/-! ## Derived ids -/

/-- A derived id is a valid identifier for every path (all inputs). -/
theorem derived_id_valid (mu path : Str) (h : mu ∈ httpMethods) :
    isPyIdent (deriveOpIdU mu path) = true ∧ isKeyword (deriveOpIdU mu path) = false :=
  deriveOpIdU_valid mu path h

/-- ✗ FULL: `(m₁, p₁) ≠ (m₂, p₂) → deriveOpIdU m₁ p₁ ≠ deriveOpIdU m₂ p₂`.
    Witnesses: templated vs. literal segment, `-` vs. `_` vs. `/`, camelCase vs. snake_case, trailing slash. -/
theorem derived_ids_distinct_counterexample :
    deriveOpIdU (s "GET") (s "/a/{b}") = deriveOpIdU (s "GET") (s "/a/b") ∧
    deriveOpIdU (s "GET") (s "/a-b") = deriveOpIdU (s "GET") (s "/a_b") ∧
    deriveOpIdU (s "GET") (s "/a_b") = deriveOpIdU (s "GET") (s "/a/b") ∧
    deriveOpIdU (s "GET") (s "/userProfile") = deriveOpIdU (s "GET") (s "/user_profile") ∧
    deriveOpIdU (s "GET") (s "/a/") = deriveOpIdU (s "GET") (s "/a") ∧
    deriveOpIdU (s "GET") (s "/users/{id}") ≠ deriveOpIdU (s "GET") (s "/users/{user_id}") := by
  decide

/-! ## Final method names -/

/-- Documents of bare `get` operations on the given paths. -/
def bareGets (ps : List String) : Paths := ps.map (fun p => (s p, [(s "get", ({} : RawOp))]))

/-- `method_names_distinct` at full strength (F17 repaired): the final method names of EVERY list of IR operations are pairwise
    distinct - declared, cleaned or derived ids, colliding or not, one `emit` pass (diff path) or two. -/
theorem method_names_distinct (direct : Bool) (ops : List IROp) : (finalMethodNames direct ops).Nodup :=
  finalMethodNames_nodup direct ops

/-- The number of `emit` passes over the same operation objects does not matter any more: the pass is idempotent. -/
theorem emit_passes_irrelevant (ops : List IROp) : finalMethodNames true ops = finalMethodNames false ops := by
  rw [finalMethodNames_eq, finalMethodNames_eq]

/-- Operation `i` is named after ITS OWN id: `sanitize_method_name(id_i)` or `sanitize_method_name(f"{id_i}_{n}")`. -/
theorem method_name_follows_own_id (direct : Bool) (ops : List IROp) :
    ∀ p ∈ ops.zip (finalMethodNames direct ops),
      p.2 = sanMethod p.1.opId ∨ ∃ n, p.2 = sanMethod (sufId p.1.opId n) :=
  finalMethodNames_shape direct ops

/-- The former witnesses of F17, PATH strategy, no operationId anywhere:
    * diff path (one `emit`): `/a/b`, `/a/{b}`, `/a/b_2` used to give `get_a_b, get_a_b_2, get_a_b_2`;
    * direct path (`emit` twice): `/a/b`, `/a/{b}`, `/a/b_2`, `/a/b_2_2` used to give `get_a_b, get_a_b_2, get_a_b_2_2, get_a_b_2_2`. -/
theorem method_names_distinct_former_witness :
    finalMethodNames false (parseOps UInfo.ascii .path (bareGets ["/a/b", "/a/{b}", "/a/b_2"])).1
      = [s "get_a_b", s "get_a_b_2", s "get_a_b_2_2"] ∧
    finalMethodNames true (parseOps UInfo.ascii .path (bareGets ["/a/b", "/a/{b}", "/a/b_2", "/a/b_2_2"])).1
      = [s "get_a_b", s "get_a_b_2", s "get_a_b_2_2", s "get_a_b_2_2_2"] := by
  decide

/-- The same with declared ids (`foo, foo, foo_2` / `foo, foo, foo_2, foo_2_2`), on the ids alone. -/
theorem dedup_suffix_collision_former_witness :
    finalMethodNames false [⟨[], [], s "foo", []⟩, ⟨[], [], s "foo", []⟩, ⟨[], [], s "foo_2", []⟩]
      = [s "foo", s "foo_2", s "foo_2_2"] ∧
    finalMethodNames true [⟨[], [], s "foo", []⟩, ⟨[], [], s "foo", []⟩, ⟨[], [], s "foo_2", []⟩, ⟨[], [], s "foo_2_2", []⟩]
      = [s "foo", s "foo_2", s "foo_2_2", s "foo_2_2_2"] := by
  decide

/-- The de-duplication never drops or adds an operation: one method name per IR operation (all inputs). -/
theorem dedup_keeps_every_operation (direct : Bool) (ops : List IROp) :
    (finalMethodNames direct ops).length = ops.length :=
  finalMethodNames_length direct ops

/-- The former witness of F45: an operation tagged `Pets` and `pets` used to be defined TWICE in the one client `pets`; two
    spellings next to a different tag, and an operation that shares only the key. -/
theorem duplicate_tag_former_witness :
    clients UInfo.ascii true [⟨s "/a", s "GET", s "x", [s "Pets", s "pets"]⟩] = [(s "pets", [s "x"])] ∧
    clients UInfo.ascii false [⟨s "/a", s "GET", s "x", [s "Data Sources", s "admin", s "data_sources"]⟩,
                               ⟨s "/a", s "PUT", s "y", [s "data-sources"]⟩]
      = [(s "datasources", [s "x", s "y"]), (s "admin", [s "x"])] := by
  decide

/-- `exactly one method per tag client` at full strength (F17 and F45 repaired) - EVERY list of IR operations, one emit pass or
    two: the final method name of an operation (pairwise distinct, `method_names_distinct`) is defined exactly ONCE in the client
    of every key one of its tags (or `default`) normalises to - however many spellings of the tag it carries - and not at all in
    any other client. -/
theorem one_method_per_tag_client (u : UInfo) (direct : Bool) (ops : List IROp)
    (p : IROp × Str) (hp : p ∈ ops.zip (finalMethodNames direct ops)) (key : Str) :
    (clientMethods u direct ops key).count p.2 = if key ∈ (opTags p.1).map (normTagKey u) then 1 else 0 :=
  clientMethods_count_zip u direct ops key p hp

example : ((⟨s "/a", s "GET", s "x", [s "Pets", s "pets"]⟩ : IROp), s "x") ∈
    [(⟨s "/a", s "GET", s "x", [s "Pets", s "pets"]⟩ : IROp)].zip
      (finalMethodNames true [⟨s "/a", s "GET", s "x", [s "Pets", s "pets"]⟩]) := by decide

/-- Each normalised tag key names exactly one client (all inputs). -/
theorem clients_are_keyed_uniquely (u : UInfo) (direct : Bool) (ops : List IROp) :
    ((clients u direct ops).map (·.1)).Nodup :=
  clients_keys_nodup u direct ops

/-- PARTIAL (`reachable_exactly_once`): when no operation raises (F17, F45 repaired: the sanitised ids may collide and an
    operation may carry several spellings of one tag) then — on the direct and on the diff path alike —
    * there is one IR operation per recognised (path, method) pair, in document order,
    * there is one final method name per IR operation, the names are pairwise distinct (distinct operations never collapse),
    * operation `i` is named after its own id as the selected strategy derives it (`sanMethod id_i`, or with a numeric suffix),
      and when the sanitised ids are already pairwise distinct the de-duplication changes nothing,
    * for every operation and every client key, the client defines the operation's method exactly ONCE when one of the
      operation's tags (or `default`) normalises to that key, and not at all otherwise. -/
theorem reachable_exactly_once_partial (u : UInfo) (st : Naming) (direct : Bool) (paths : Paths)
    (hs : parseSucceeds u st paths = true) :
    let ops := (parseOps u st paths).1
    let names := finalMethodNames direct ops
    ops.map IROp.key = allPairs u paths ∧
    names.length = ops.length ∧ names.Nodup ∧
    (∀ p ∈ ops.zip names, p.2 = sanMethod p.1.opId ∨ ∃ n, p.2 = sanMethod (sufId p.1.opId n)) ∧
    ((ops.map (fun o => sanMethod o.opId)).Nodup → names = ops.map (fun o => sanMethod o.opId)) ∧
    ∀ p ∈ ops.zip names, ∀ key,
      (clientMethods u direct ops key).count p.2 = if key ∈ (opTags p.1).map (normTagKey u) then 1 else 0 := by
  intro ops names
  exact ⟨(parseOps_keeps_all u st paths hs).1, finalMethodNames_length direct ops, finalMethodNames_nodup direct ops,
    finalMethodNames_shape direct ops, finalMethodNames_of_nodup direct ops,
    fun p hp key => clientMethods_count_zip u direct ops key p hp⟩

/-- The hypothesis is satisfiable by a document whose ids COLLIDE (`foo, foo, foo_2`, the former F17 witness) and whose tags
    repeat a key (`Pets`, `pets`, the former F45 witness). -/
example : parseSucceeds UInfo.ascii .operationId
    [(s "/a", [(s "get", { operationId := some (s "foo"), responses := [.strKey (s "200")] }),
               (s "put", { operationId := some (s "foo"), responses := [.strKey (s "200")] }),
               (s "post", { operationId := some (s "foo_2"), tags := .list [s "Pets", s "pets"], responses := [.strKey (s "200")] })])] = true := by
  decide

/-- **C07 end to end over three models** (operations parser `Pog.Ops`, de-duplication + grouping of the endpoints emitter,
    `ClientVisitor` `Pog.ClientGen`): when no operation raises, then for EVERY recognised (path, method) operation `o` of the
    document, its final method name `name` (pairwise distinct over the document, `method_names_distinct`; `sanitize_method_name` of
    the id the selected strategy derives, possibly with a numeric suffix, `method_name_follows_own_id`) and EVERY tag `t` of it (or
    `default`):
    * `APIClient` has a property named `_tag_attr_name(sanitize_module_name(c))` (the module name, with a trailing underscore when it
      collides with one of APIClient's own members - F64 repaired, `ClientGenProps.property_names`: the property is never shadowed by a
      member) returning `sanitize_class_name(c) + "Client"`, `c` the canonical
      spelling of `t`'s tag group (same normalised key as `t`), and
    * the client of that tag group defines `name` exactly ONCE.
    What the theorem does not carry: that the class written to `endpoints/<module>.py` is the one the property imports (the import
    lines of `client.py` are part of the ClientGen skeleton correspondence), and the hypothesis' complement (a node that makes the parser raise, a float / bool / null status key - `dropped_iff`). -/
theorem reachable_through_apiclient_partial (u : UInfo) (st : Naming) (direct : Bool) (paths : Paths)
    (hs : parseSucceeds u st paths = true)
    (o : IROp) (name : Str) (ho : (o, name) ∈ (parseOps u st paths).1.zip (finalMethodNames direct (parseOps u st paths).1))
    (t : Str) (ht : t ∈ opTags o) :
    let ops := (parseOps u st paths).1
    let tagss := ops.map (·.tags)
    let c := ClientGen.canonicalTag u tagss (normTagKey u t)
    (ClientGen.tagAttr (sanModule u c), sanClass c ++ kClientSuffix) ∈ (ClientGen.apiClientSkel (ClientGen.tagTuples u tagss)).props ∧
    normTagKey u c = normTagKey u t ∧
    (clientMethods u direct ops (normTagKey u t)).count name = 1 := by
  intro ops tagss c
  have hts : o.tags ∈ tagss := List.mem_map.mpr ⟨o, (List.of_mem_zip ho).1, rfl⟩
  have ht' : t ∈ ClientGen.tagsOr o.tags := ht
  obtain ⟨h1, h2, _⟩ := ClientGenProps.every_tag_group_has_a_property u tagss o.tags hts t ht'
  have h3 := (reachable_exactly_once_partial u st direct paths hs).2.2.2.2.2 (o, name) ho (normTagKey u t)
  refine ⟨h1, h2, ?_⟩
  rw [h3, if_pos (List.mem_map.mpr ⟨t, ht, rfl⟩)]

/-- Corollary in the words of the property: an operation is defined exactly once in each of its clients and not at all in any
    other. -/
theorem reachable_exactly_once_per_client (u : UInfo) (st : Naming) (direct : Bool) (paths : Paths)
    (hs : parseSucceeds u st paths = true)
    (o : IROp) (name : Str) (ho : (o, name) ∈ (parseOps u st paths).1.zip (finalMethodNames direct (parseOps u st paths).1))
    (key : Str) :
    (clientMethods u direct (parseOps u st paths).1 key).count name
      = if key ∈ (opTags o).map (normTagKey u) then 1 else 0 :=
  (reachable_exactly_once_partial u st direct paths hs).2.2.2.2.2 (o, name) ho key

example :
    let paths : Paths := [(s "/pets", [(s "get", { operationId := some (s "listPets"), tags := .list [s "pets"],
                                                    responses := [.strKey (s "200")] }),
                                       (s "post", { operationId := some (s "createPet"), tags := .list [s "pets", s "admin"],
                                                    responses := [.strKey (s "201")] })]),
                          (s "/health", [(s "get", { responses := [.strKey (s "200")] })])]
    parseSucceeds UInfo.ascii .operationId paths = true ∧
    ((parseOps UInfo.ascii .operationId paths).1.map (fun o => sanMethod o.opId)).Nodup ∧
    clients UInfo.ascii true (parseOps UInfo.ascii .operationId paths).1
      = [(s "pets", [s "list_pets", s "create_pet"]), (s "admin", [s "create_pet"]), (s "default", [s "get_health"])] := by
  decide

/-- PARTIAL (`method_names_valid`): every final method name (suffixed or not, one or two passes) is a valid,
    non-keyword identifier when every operation id has an ASCII alphanumeric. -/
theorem method_names_valid (direct : Bool) (ops : List IROp)
    (h : ∀ o ∈ ops, o.opId.any isAlnumA = true) :
    ∀ n ∈ finalMethodNames direct ops, isPyIdent n = true ∧ isKeyword n = false :=
  finalMethodNames_valid direct ops h

/-- FULL for the PATH strategy: every id is derived, so every final method name of every document is a
    valid, non-keyword identifier. -/
theorem path_strategy_method_names_valid (u : UInfo) (direct : Bool) (paths : Paths) :
    ∀ n ∈ finalMethodNames direct (parseOps u .path paths).1, isPyIdent n = true ∧ isKeyword n = false :=
  finalMethodNames_valid direct _ (parseOps_path_alnum u paths)

example : ∀ o ∈ [(⟨s "/a", s "GET", s "getUserById", []⟩ : IROp), ⟨s "/b", s "GET", s "class", []⟩],
    o.opId.any isAlnumA = true := by decide

/-- ✗ witness: `operationId: $` is accepted and yields the method name `""` — `async def (self…` in the client module.
    (The empty id without responses used to do the same; F44 repaired: it now gets the derived id.) -/
theorem method_names_valid_counterexample :
    finalMethodNames true
      (parseOps UInfo.ascii .operationId [(s "/a", [(s "get", { operationId := some (s "$") })])]).1 = [[]] ∧
    finalMethodNames true
      (parseOps UInfo.ascii .operationId [(s "/a", [(s "get", { operationId := some [] })])]).1 = [s "get_a"] := by
  decide

end Pog.C07
