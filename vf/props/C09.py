"""C09 — generation is deterministic; re-running on unchanged input is a no-op.

proof  : Pog.Props.C09 (import rendering / __init__ exports are functions of sets; exact characterisation of _show_diffs;
         force path vs diff path; unsorted set iteration of undeclared path variables)
tie    : vf.corr.plan (real _show_diffs / ImportCollector / generate under an audit hook vs model)
oracle : (a) vf.corr.plan.oracle (generate; generate; perturb; delete) (b) here: the same document generated in fresh
         interpreters with PYTHONHASHSEED in {0,1,2,3,random}, two output roots, cold and warm process -> sha256 of every file.
"""
from __future__ import annotations

import json
import os
import re
import subprocess
from pathlib import Path

from .. import common, e2e, findings
from ..common import Run, rng
from ..gen import spec as gs
from . import _generic as g

PROP = "C09"
CLASSES = {"diff-ignores-missing-file": "F20", "diff-ignores-extra-file": "F20", "diff-ignores-non-py": "F20", "diff-ignores-line-endings": "F20", "url-vars-hash-order": "F18", "shared-core-registry-diff": "F21", "force-double-emit": "F19",
           "rich-init-only-on-force": "F33", "rich-init-literal-backslash-n": "F6"}


def genrun(job: dict, hashseed: str) -> dict:
    jf = Path(job["root"]).parent / (Path(job["root"]).name + "-genjob.json")
    jf.parent.mkdir(parents=True, exist_ok=True)
    jf.write_text(json.dumps(job))
    env = dict(os.environ)
    env["PYTHONHASHSEED"] = hashseed
    env["PYTHONPATH"] = str(common.VERIF)
    p = subprocess.run([common.PY, "-m", "vf.genrun", str(jf)], capture_output=True, text=True, env=env, cwd=str(common.VERIF), timeout=300)
    if p.returncode != 0:
        return {"ok": False, "error": "genrun rc=%d: %s" % (p.returncode, p.stderr[-600:]), "tree": {}}
    return json.loads(p.stdout)


def undeclared_path_vars(doc: dict) -> int:
    worst = 0
    for path, item in (doc.get("paths") or {}).items():
        vars_ = set(re.findall(r"\{([^}]+)\}", path))
        pl = {p["name"] for p in item.get("parameters", []) if p.get("in") == "path"}
        for m, op in item.items():
            if isinstance(op, dict) and m != "parameters":
                decl = pl | {p["name"] for p in op.get("parameters", []) if p.get("in") == "path"}
                worst = max(worst, len(vars_ - decl))
    return worst


def case_fn(case: dict, d):
    spec = d / "spec.json"
    e2e.write_spec(case["doc"], spec)
    warm = d / "warm.json"
    e2e.write_spec(case["warm_doc"], warm)
    runs = {}
    base_job = {"spec": str(spec), "package": case["package"], "core": case.get("core"), "strategy": "operationId"}
    for name, (root, seed, w) in {"h0": ("r0/proj", "0", False), "h1": ("r1/proj", "1", False), "h2": ("r2/proj", "2", False), "h3": ("r3/proj", "3", False),
                                   "hr": ("r4/proj", "random", False), "warm": ("r5/proj", "0", True), "other-root": ("deeper/x/y/proj", "0", False),
                                   # a project root whose ANCESTORS are named like the generator's own sub-packages: nothing may be decided by a directory
                                   # name above the output package
                                   "named-root": ("models/endpoints/core/mocks/proj", "0", False),
                                   "warm-same-path": ("r6/proj", "0", "same")}.items():
        job = {**base_job, "root": str(d / root)}
        if w is True:
            job["warm"] = str(warm)
        if w == "same":
            sp = d / "spec-w.json"
            e2e.write_spec(case["doc"], sp)
            job["spec"] = str(sp)
            job["warm_same_path"] = str(warm)
        if name == "h1" and case.get("rerun"):
            job["rerun"] = True
        runs[name] = genrun(job, seed)
    return runs


def sibling_doc(doc: dict) -> dict:
    """Another version of the SAME API: the same schema names, operation ids, tags and status codes, but every description in other
    words and every named schema of another nature.  Generated first in the warm process: whatever the generator remembers per name
    or per status code across calls (memo tables, registries, module-level dicts) must not leak into the generation that is judged."""
    from .C05 import shadow_doc
    d = shadow_doc(doc)

    def walk(x):
        if isinstance(x, dict):
            for k, v in list(x.items()):
                if k in ("description", "summary", "title") and isinstance(v, str):
                    x[k] = "Formerly " + " ".join(reversed(v.split())) if v else "Formerly"
                else:
                    walk(v)
        elif isinstance(x, list):
            for v in x:
                walk(v)
    walk(d)
    return d


def drop_undeclared_declarations(doc: dict, r) -> dict:
    """Make some path variables undeclared (legal: the generator adds them) - F18's feature."""
    d = json.loads(json.dumps(doc))
    for path, item in d["paths"].items():
        if r.random() < 0.5:
            item.pop("parameters", None)
            for m, op in item.items():
                if isinstance(op, dict) and "parameters" in op:
                    op["parameters"] = [p for p in op["parameters"] if p.get("in") != "path"]
    return d


def check(run: Run, ctx) -> None:
    known = findings.Known(run, PROP)
    try:
        g.run_corr(run, ctx, "vf.corr.plan", "Plan/Diff (generate under audit hook, _show_diffs, import rendering)", quick=0.5, thorough=4.0)
        g.run_oracle(run, ctx, known, "vf.corr.plan", "C09/C10 on the real generator (rerun, perturb, delete, fault)", CLASSES, quick=0.5, thorough=4.0)
    except ModuleNotFoundError:
        run.notes.append("vf.corr.plan not present yet")
    run.cov["rule"] = (run.cov.get("rule") or "") + ("[determinism e2e] each seeded document is generated in 9 fresh interpreters: PYTHONHASHSEED 0,1,2,3,random, a warm process "
                       "(an unrelated document generated first) and a different, deeper project root; sha256 of every emitted file must agree. Distinct by document; non-trivial when >= 2 operations")
    cases = []
    for i in range(ctx.budget(8, 60)):
        r = rng(f"C09:{i}")
        o = gs.Opts(mainstream=True, max_ops=4, unions=(i % 3 == 0), prim_unions=(i % 2 == 0), discriminators=(i % 2 == 1), multi_tags=(i % 2 == 0), streaming=(i % 4 == 0))
        doc = gs.gen_spec(r, o)
        if i % 3 == 1:
            doc = drop_undeclared_declarations(doc, r)
        if i % 2 == 0:
            # unions whose members collapse to one python type (de-duplication must not go through an unordered container)
            prim = [{"type": "string"}, {"type": "integer"}, {"type": "string", "format": "email"}, {"type": "boolean"}, {"type": "string", "format": "uri"},
                    {"type": "number"}, {"type": "string", "format": "hostname"}]
            for n in ("MixedA", "MixedB", "MixedC"):
                doc["components"]["schemas"][n] = {r.choice(["oneOf", "anyOf"]): r.sample(prim, r.randint(3, 6))}
            doc["components"]["schemas"]["MixedHolder"] = {"type": "object", "properties": {
                "value": {"oneOf": r.sample(prim, 4)}, "other": {"anyOf": r.sample(prim, 5)}, "ref": {"$ref": "#/components/schemas/MixedA"}}}
        if i % 2 == 1:
            # class names that differ only in case (a case-insensitive ordering of a set leaves their order to the hash seed) and
            # inline definitions whose contextual name <Parent><Prop> equals a component declared earlier (fidelity there is F37's
            # business; the output must still be the same in every process)
            sch = doc["components"]["schemas"]
            for a, b in r.sample([("UserName", "Username"), ("DataSource", "Datasource"), ("FileName", "Filename"), ("TimeStamp", "Timestamp")], 2):
                sch[a] = {"type": "object", "properties": {"value": {"type": "string"}}}
                sch[b] = {"type": "object", "properties": {"text": {"type": "string"}}}
            sch["CrateTags"] = {"type": "object", "properties": {"label": {"type": "string"}}}
            sch["CrateLid"] = {"type": "string", "enum": ["on", "off"]}
            sch["Crate"] = {"type": "object", "properties": {
                "tags": {"type": "array", "items": {"type": "object", "properties": {"k": {"type": "string"}, "v": {"type": "integer"}}}},
                "lid": {"type": "object", "properties": {"hinged": {"type": "boolean"}}},
                "label": {"type": "string"}}}
        if i % 2 == 0:
            # an operation tagged with the name of the schema it returns: the endpoint module and the model module share a file name
            sch_names = [n for n, sc in doc["components"]["schemas"].items() if isinstance(sc, dict) and sc.get("type") == "object" and n.isalnum()]
            if sch_names:
                n0 = r.choice(sch_names)
                doc["paths"][f"/by-name/{n0.lower()}"] = {"get": {"operationId": f"fetch{n0}ByName", "tags": [n0.lower()], "responses": {"200": {"description": "ok", "content": {
                    "application/json": {"schema": {"$ref": f"#/components/schemas/{n0}"}}}}}}}
        # error statuses that the generator's own status table does not know, described in the document's words
        for item in doc["paths"].values():
            for m, op in item.items():
                if isinstance(op, dict) and m != "parameters" and r.random() < 0.5:
                    op.setdefault("responses", {})[r.choice(["499", "520", "599", "430"])] = {"description": r.choice(["Client Closed Request", "Origin Error", "Quota Frozen", "Gone Fishing"])}
        pkg, core = [("pkg.client", None), ("client", "core"), ("a.b.client", "a.b.core")][i % 3]
        # generate ; generate(force=False) is checked where no recorded finding makes it fail: embedded core (F33/F21), no duplicate ids (F19)
        cases.append({"id": f"c09-{i}", "doc": doc, "warm_doc": gs.gen_spec(rng(f"C09:warm:{i}"), gs.Opts(mainstream=True)) if i % 2 else sibling_doc(doc), "package": pkg, "core": core,
                      "undeclared_path_vars": undeclared_path_vars(doc), "rerun": core is None})
    results = e2e.run_cases("vf.props.C09:case_fn", cases, workers=8)
    for case, res in zip(cases, results):
        if "infra_error" in res:
            run.infra_errors.append(res["infra_error"])
            continue
        nops = sum(1 for it in case["doc"]["paths"].values() for m in it if m != "parameters")
        run.count({"doc": case["doc"], "pkg": case["package"]}, nontrivial=nops >= 2, n=len(res))
        run.cov["traces_validated_against_impl"] += len(res)
        base = res["h0"]
        if not base.get("ok"):
            run.dist("generation", "rejected")
            continue
        fails = []
        for name, o in res.items():
            if name == "h0":
                continue
            if not o.get("ok"):
                fails.append((name, f"{name}: generation failed here but not with PYTHONHASHSEED=0: {o.get('error')}"))
            elif o["tree"] != base["tree"]:
                diff = sorted(f for f in set(o["tree"]) | set(base["tree"]) if o["tree"].get(f) != base["tree"].get(f))
                fails.append((name, f"{name}: {len(diff)} files differ from the PYTHONHASHSEED=0 run: {diff[:5]}"))
        rr = res.get("h1", {}).get("rerun")
        if rr is not None:
            run.dist("rerun", "checked")
            if not rr["ok"]:
                fails.append(("rerun", f"rerun: generate; generate(force=False) on an unchanged document failed: {rr['error']}"))
            elif rr["touched"]:
                fails.append(("rerun", f"rerun: the no-op re-run touched files: {rr['touched'][:4]}"))
        run.dist("undeclared_path_vars", str(case["undeclared_path_vars"]))
        if not fails:
            run.sample({"id": case["id"], "package": case["package"], "files": len(base["tree"]), "runs": sorted(res)}, limit=3)
        for name, msg in fails:
            # F18: >= 2 undeclared path variables of one operation are appended in set-iteration order
            if case["undeclared_path_vars"] >= 2 and name.startswith("h") and known.listed("F18") and all("endpoints" in f or "mocks" in f for f in re.findall(r"'([^']+)'", msg)):
                known.hit("F18", {"id": case["id"], "msg": msg})
            elif len(run.violations) < 5:
                run.violation("input", {"doc": case["doc"], "package": case["package"], "core": case.get("core"), "warm_doc": case["warm_doc"]}, observed=msg,
                              expected="byte-identical trees for every hash seed, process state and output root", what=msg[:400])
    # the former witness of F18 (four undeclared path variables): always replayed - a regression is a violation now that F18 is repaired
    wd = {"openapi": "3.0.3", "info": {"title": "W", "version": "1"}, "components": {"schemas": {}},
          "paths": {"/a/{x}/b/{y}/c/{z}/d/{w}": {"get": {"operationId": "getIt", "responses": {"200": {"description": "ok"}}}}}}
    wres = e2e.run_cases("vf.props.C09:case_fn", [{"id": "w", "doc": wd, "warm_doc": wd, "package": "pkg.client", "core": None}], workers=1)[0]
    trees = {json.dumps(o.get("tree"), sort_keys=True) for k, o in wres.items() if k.startswith("h") and isinstance(o, dict)}
    run.cov.setdefault("known_findings_replayed", {})["F18"] = len(trees) > 1
    if len(trees) > 1:
        if known.listed("F18"):
            run.known("F18", known.entries["F18"]["what"])
        else:
            run.violation("input", {"doc": wd, "package": "pkg.client", "core": None, "warm_doc": wd}, observed=f"{len(trees)} different trees over the hash seeds",
                          expected="byte-identical trees for every hash seed", what="undeclared path variables: the generated tree depends on PYTHONHASHSEED")
    known.report_unreplayed()


def search(run: Run, ctx) -> None:
    check(run, ctx)


def replay(run: Run, ctx, rec) -> bool:
    case = rec["case"]
    if "module" in case:
        return g.replay_generic(rec)
    res = e2e.run_cases("vf.props.C09:case_fn", [{"id": "replay", **case}], workers=1)[0]
    base = res["h0"]
    return any(o.get("tree") != base.get("tree") for o in res.values())
