"""Correspondence for M-gencode (Pog/Model/GenCode.lean): random operation shapes -> OpenAPI document -> the REAL generator
-> the emitted client imported in a fresh interpreter and called against httpx.MockTransport (rig in /verif/vf, imported
read-only) -> canonicalised captured request / outcome  vs  the Lean model's `buildRequest` / `handle` (compiled driver).

No work at import time; `pyopenapi_gen` is only imported inside functions (through the rig).
"""
from __future__ import annotations

import base64
import json
import os
import random
import shutil
import subprocess
import sys
import tempfile
from urllib.parse import parse_qsl, unquote

RIG = "/verif"

METHODS = ["get", "post", "put", "patch", "delete", "options", "head", "trace"]
SEGS = ["users", "pets", "orders", "items", "v1", "reports", "user-groups", "things"]
PVARS = ["id", "user_id", "petId", "order-id", "name", "X", "itemID", "a.b"]
QNAMES = ["limit", "offset", "q", "sort-by", "includeDeleted", "since", "filter", "X-Page", "status", "pageSize", "class", "type"]
HNAMES = ["X-Request-Id", "X-Trace", "Accept-Language", "x-api-version", "If-Match", "X-Count"]
CNAMES = ["session", "csrf-token", "SID"]
ODD_NAMES = ["body", "data", "files", "content_type", "self", "form_data", "bytes_content"]
MODELS = ["Ra", "Rb", "Rc", "Rd", "Rf"]
REQ_SINGLE = ["application/json", "application/x-www-form-urlencoded", "multipart/form-data", "application/octet-stream",
              "text/plain", "application/json; charset=utf-8", "multipart/form-data; boundary=x"]
REQ_MULTI = ["application/json", "multipart/form-data", "application/x-www-form-urlencoded", "application/xml", "application/octet-stream"]
RESP_MEDIA = [("application/json", "model"), ("application/json", "model"), ("application/json", "listModel"), ("application/json", "int"),
              ("application/json", "string"), ("application/json", "noSchema"), ("text/plain", "string"), ("text/html", "string"),
              ("application/octet-stream", "binary"), ("text/event-stream", "model"), ("application/x-ndjson", "model"),
              ("application/pdf", "noSchema"), ("image/png", "binary"), ("application/xml", "model"), ("application/vnd.api+json", "model"),
              ("text/csv", "binary"), ("application/problem+json", "listModel")]
KEYS_2XX = ["200", "201", "202", "204", "206", "203", "250"]
KEYS_ERR = ["400", "401", "403", "404", "409", "418", "422", "429", "451", "500", "501", "502", "503", "599"]
KEYS_BAD = ["301", "302", "304", "101", "600"]
KEYS_OTHER = ["2XX", "4XX", "5XX", "2xx"]
SAMPLE_STATUSES = [100, 101, 199, 200, 201, 202, 203, 204, 206, 250, 299, 300, 301, 302, 304, 399, 400, 401, 403, 404, 409, 418, 422, 429, 451,
                   499, 500, 501, 502, 503, 504, 511, 599]


# ------------------------------------------------------------------------------------------------ op shapes
def gen_shape(r: random.Random, kind: str) -> dict:
    if kind in ("model", "listModel"):
        return {"k": kind, "n": r.choice(MODELS)}
    return {"k": kind}


STREAMY = {"application/octet-stream", "text/event-stream", "application/x-ndjson"}


def gen_content(r: random.Random, multi_ok: bool = True, allow_stream: bool = True) -> list:
    k = r.random()
    if k < 0.22:
        return []
    n = 1 if (k < 0.8 or not multi_ok) else r.choice([2, 2, 3])
    pool = RESP_MEDIA if allow_stream else [(m, s) for m, s in RESP_MEDIA if m not in STREAMY and s != "binary"]
    if n > 1:
        pool = pool + [("application/pdf", "noSchema"), ("image/png", "noSchema"), ("text/plain", "string")]
    out, seen = [], set()
    for _ in range(n):
        mt, kind = r.choice(pool)
        if mt in seen:
            continue
        seen.add(mt)
        out.append({"mt": mt, "shape": gen_shape(r, kind)})
    return out


def gen_responses(r: random.Random) -> list:
    keys = []
    k = r.random()
    if k < 0.05:
        pass
    elif k < 0.15:
        keys += []            # no 2xx at all
    else:
        keys += r.sample(KEYS_2XX, r.choice([1, 1, 1, 2, 2, 3]))
    keys += r.sample(KEYS_ERR, r.choice([0, 0, 1, 1, 2, 3]))
    if r.random() < 0.35:
        keys.append("default")
    if r.random() < 0.12:
        keys.append(r.choice(KEYS_OTHER))
    if r.random() < 0.04:
        keys.append(r.choice(KEYS_BAD))
    r.shuffle(keys)
    out = []
    # a streaming response next to a second numeric 2xx response used to break the module (F35, repaired: the other arm
    # yields its value once / ends the stream): half of the operations with several 2xx responses may stream
    n2 = sum(1 for k2 in keys if k2.isdigit() and k2[0] == "2")
    allow_stream = n2 <= 1 or r.random() < 0.5
    for key in dict.fromkeys(keys):
        if key.isdigit() and key[0] != "2":
            content = gen_content(r, multi_ok=False) if r.random() < 0.3 else []
        elif key == "204":
            content = [] if r.random() < 0.9 else gen_content(r, allow_stream=allow_stream)
        else:
            content = gen_content(r, allow_stream=allow_stream)
        out.append({"key": key, "content": content})
    return out


def gen_op(r: random.Random, idx: int) -> dict:
    method = r.choice(METHODS)
    segs, pvars = [f"o{idx}"], []
    for _ in range(r.randint(0, 3)):
        if r.random() < 0.45:
            v = r.choice([p for p in PVARS if p not in pvars] or ["zz"])
            pvars.append(v)
            segs.append("{" + v + "}")
        else:
            segs.append(r.choice(SEGS))
    path = "/" + "/".join(segs)
    if pvars and r.random() < 0.08:
        path += "/" + "{" + pvars[0] + "}"          # the same variable twice
    path_level, params = [], []
    for v in pvars:
        k = r.random()
        p = {"name": v, "in": "path", "required": r.random() < 0.9, "kind": r.choice(["string", "string", "integer"])}
        if k < 0.25:
            path_level.append(p)
        elif k < 0.8:
            params.append(p)
        # else: undeclared
    if r.random() < 0.15:
        path_level.append({"name": r.choice(HNAMES), "in": "header", "required": r.random() < 0.4, "kind": "string"})
    for _ in range(r.choice([0, 1, 1, 2, 3, 4])):
        loc = r.choice(["query", "query", "query", "header", "header", "cookie"] + (["formData"] if r.random() < 0.1 else []))
        pool = {"query": QNAMES, "header": HNAMES, "cookie": CNAMES, "formData": QNAMES}[loc]
        name = r.choice(pool) if r.random() > 0.04 else r.choice(ODD_NAMES)
        # header, cookie (and query) parameters of every primitive type: an integer / number / boolean header or cookie goes on the wire as str(value)
        # (F39 repaired; a recurrence is a TypeError where the model predicts a request)
        kind = r.choice(["string", "string", "integer"]) if loc not in ("header", "query", "cookie") else r.choice(["string", "string", "string", "integer", "boolean", "number"])
        params.append({"name": name, "in": loc, "required": r.random() < 0.35, "kind": kind})
    if path_level and r.random() < 0.12:
        # operation-level override of a path-level parameter (same name, same `in`; F4 repaired: ONE argument, the operation-level one)
        params.append(dict(path_level[0], required=r.random() < 0.5))
    if r.random() < 0.04 and pvars:
        params.append({"name": pvars[0], "in": "query", "required": False, "kind": "string"})   # same name, other location
    body = None
    k = r.random()
    if k < 0.45:
        body = {"required": r.random() < 0.7, "media": [r.choice(REQ_SINGLE)]}
    elif k < 0.62:
        body = {"required": r.random() < 0.7, "media": r.sample(REQ_MULTI, r.choice([2, 2, 3]))}
    if body is not None and len(body["media"]) == 1:
        # a declared parameter that takes the place of the `files` / `form_data` body parameter would hand a scalar to
        # httpx where it needs a mapping (value level, outside the model): do not generate that collision
        clash = {"multipart/form-data": "files", "application/x-www-form-urlencoded": "form_data"}.get(body["media"][0])
        if clash:
            params = [p for p in params if p["name"] != clash]
    return {"idx": idx, "method": method.upper(), "path": path, "pathParams": path_level, "params": params, "body": body,
            "responses": gen_responses(r)}


def op_json(op: dict) -> dict:
    strip = lambda ps: [{"name": p["name"], "in": p["in"], "required": p["required"], "kind": p["kind"]} for p in ps]
    return {"method": op["method"], "path": op["path"], "pathParams": strip(op["pathParams"]), "params": strip(op["params"]),
            "body": op["body"], "responses": op["responses"]}


# ------------------------------------------------------------------------------------------------ document
def schema_of(shape: dict):
    k = shape["k"]
    if k == "model":
        return {"$ref": "#/components/schemas/" + shape["n"]}
    if k == "listModel":
        return {"type": "array", "items": {"$ref": "#/components/schemas/" + shape["n"]}}
    if k == "int":
        return {"type": "integer"}
    if k == "string":
        return {"type": "string"}
    if k == "binary":
        return {"type": "string", "format": "binary"}
    return None


def param_node(p: dict) -> dict:
    n = {"name": p["name"], "in": p["in"], "schema": {"type": p["kind"]}}
    if p["required"]:
        n["required"] = True
    return n


def req_media_node(mt: str) -> dict:
    if mt.startswith("application/json"):
        return {"schema": {"$ref": "#/components/schemas/Ra"}}
    if mt.startswith("multipart/form-data"):
        return {"schema": {"type": "object", "properties": {"file": {"type": "string", "format": "binary"}}}}
    if mt == "application/x-www-form-urlencoded":
        return {"schema": {"type": "object", "properties": {"a": {"type": "string"}}}}
    if mt == "application/octet-stream":
        return {"schema": {"type": "string", "format": "binary"}}
    return {"schema": {"type": "string"}}


def build_doc(ops: list) -> dict:
    paths: dict = {}
    for op in ops:
        node: dict = {"operationId": f"op{op['idx']}", "tags": [f"T{op['idx']}"], "summary": "s"}
        if op["params"]:
            node["parameters"] = [param_node(p) for p in op["params"]]
        if op["body"] is not None:
            node["requestBody"] = {"required": op["body"]["required"], "content": {mt: req_media_node(mt) for mt in op["body"]["media"]}}
        resps = {}
        for rsp in op["responses"]:
            rn: dict = {"description": "d"}
            if rsp["content"]:
                rn["content"] = {}
                for m in rsp["content"]:
                    sch = schema_of(m["shape"])
                    rn["content"][m["mt"]] = {} if sch is None else {"schema": sch}
            resps[rsp["key"]] = rn
        node["responses"] = resps
        item = paths.setdefault(op["path"], {})
        if op["pathParams"]:
            item["parameters"] = [param_node(p) for p in op["pathParams"]]
        item[op["method"].lower()] = node
    schemas = {m: {"type": "object", "properties": {"a": {"type": "string"}, "n": {"type": "integer"}}} for m in MODELS}
    return {"openapi": "3.0.3", "info": {"title": "T", "version": "1"}, "paths": paths, "components": {"schemas": schemas}}


# ------------------------------------------------------------------------------------------------ call plans
class Tok:
    def __init__(self):
        self.n = 0

    def next(self) -> str:
        self.n += 1
        return f"v{self.n}"


def scalar(r: random.Random, tok: Tok, kind: str):
    """-> (model value, probe arg, wire text)"""
    t = tok.next()
    if kind == "integer":
        n = 1000 + tok.n
        return {"t": "other", "v": str(n)}, {"k": "json", "v": n}, str(n)
    if kind == "number":
        x = 1000.5 + tok.n
        return {"t": "other", "v": str(x)}, {"k": "json", "v": x}, str(x)
    if kind == "boolean":
        # the token of a value is its wire text: httpx writes a query boolean as true / false, and so does the repaired header line
        b = r.random() < 0.5
        return {"t": "other", "v": "true" if b else "false"}, {"k": "json", "v": b}, "true" if b else "false"
    return {"t": "str", "v": t}, {"k": "json", "v": t}, t


def body_value(tok: Tok, how: str):
    """how in dict|files|bytes|text -> (model value, probe arg, python-side description)"""
    t = tok.next()
    if how == "text":
        return {"t": "str", "v": t}, {"k": "json", "v": t}, {"scalar": t}
    if how == "dict":
        return {"t": "other", "v": t}, {"k": "json", "v": {"a": t}}, {"dict": {"a": t}}
    if how == "files":
        return {"t": "other", "v": t}, {"k": "files", "v": {"file": base64.b64encode(t.encode()).decode()}}, {"files": t}
    return {"t": "other", "v": t}, {"k": "bytes", "v": base64.b64encode(t.encode()).decode()}, {"bytes": t}


def plan_args(r: random.Random, op: dict, sig: list, tok: Tok, san, mode: str) -> dict:
    """One keyword assignment for the emitted method.  `sig` = the model's [[ident, required]] (only used to know which
    identifiers exist; the VALUES and which optionals are supplied are random)."""
    multi = op["body"] is not None and len(op["body"]["media"]) > 1
    all_params = op["pathParams"] + op["params"]
    kinds: dict = {}
    for p in all_params:
        ident = san(san(p["name"]))     # (also in the method for several media types since F12 is repaired)
        kinds.setdefault(ident, p["kind"])
    args, model_args, wire = {}, [], {}
    body_idents = {"body", "files", "form_data", "bytes_content", "data"}
    supplied_body = False
    for ident, required in sig:
        if ident == "content_type":
            if r.random() < 0.1:
                args[ident] = {"k": "json", "v": "application/json"}
                model_args.append([ident, {"t": "str", "v": "application/json"}])
            continue
        is_body = ident in body_idents and ident not in kinds
        if is_body:
            if multi:
                continue            # chosen below
            if not required and r.random() < 0.3 and mode != "all":
                continue
            media = op["body"]["media"][0]
            how = {"body": "dict", "files": "files", "form_data": "dict", "bytes_content": "bytes"}[ident]
            mv, pa, desc = body_value(tok, how)
            args[ident], wire[ident] = pa, desc
            model_args.append([ident, mv])
            continue
        if not required and mode != "all" and r.random() < 0.45:
            continue
        if required and mode == "drop" and r.random() < 0.5:
            continue
        mv, pa, w = scalar(r, tok, kinds.get(ident, "string"))
        args[ident], wire[ident] = pa, {"scalar": w}
        model_args.append([ident, mv])
    if multi:
        kws = [i for i, _ in sig if i in ("body", "files", "data") and i not in kinds]
        k = r.random()
        chosen = [] if (k < 0.08 and mode != "all") else r.sample(kws, 2) if (k < 0.16 and len(kws) >= 2) else [r.choice(kws)] if kws else []
        for ident in chosen:
            has_json = "application/json" in op["body"]["media"]
            # (bytes would be base64-encoded by DataclassSerializer.serialize: value level, not modelled)
            how = {"body": "dict" if has_json else "text", "files": "files", "data": "dict"}[ident]
            mv, pa, desc = body_value(tok, how)
            args[ident], wire[ident] = pa, desc
            model_args.append([ident, mv])
    if mode == "extra":
        extra = r.choice(["zzz", "cookie_x"] + [san(p["name"]) for p in all_params if p["in"] in ("cookie", "formData")][:2])
        if extra not in args:
            args[extra] = {"k": "json", "v": "e"}
            model_args.append([extra, {"t": "str", "v": "e"}])
    return {"args": args, "model_args": model_args, "wire": wire}


def reply_plan(r: random.Random, op: dict, status: int) -> dict:
    """status + Content-Type header; the BODY is chosen after the model predicted the arm."""
    ctype = "application/json"
    for rsp in op["responses"]:
        if len(rsp["content"]) > 1 and r.random() < 0.8:
            mt = r.choice([m["mt"] for m in rsp["content"]] + ["application/unknown"])
            v = r.random()
            ctype = mt.upper() if v < 0.15 else mt + "; charset=utf-8" if v < 0.4 else "  " + mt if v < 0.45 else mt
            break
    if r.random() < 0.05:
        ctype = None
    return {"status": status, "ctype": ctype}


def b64(b: bytes) -> str:
    return base64.b64encode(b).decode()


def reply_body(pred: dict, rp: dict) -> dict:
    """The probe reply for the predicted arm (a wrong prediction shows up as a different observed kind)."""
    headers = {} if rp["ctype"] is None else {"content-type": rp["ctype"]}
    status = rp["status"]
    raw = b"{}"
    if pred.get("k") == "returned":
        ret = pred["ret"]
        if ret["k"] == "yieldOnce":       # the arm of another 2xx response in a streaming method: the body its value is decoded from
            ret = ret["item"]
        k = ret["k"]
        if k == "structure":
            raw = b"{}" if ret["ty"]["k"] == "model" else b"[{}]"
        elif k == "cast":
            raw = {"int": b"7", "str": b"\"s\"", "bytes": b"\"b\"", "any": b"{\"z\": 1}"}.get(ret["ty"]["k"], b"{}")
        elif k == "text":
            raw = b"he\"llo"
        elif k == "content":
            raw = b"\x00\x01raw"
        elif k == "streamEnd":
            raw = b"data: {\"i\": 1}\n\n"      # an ordinary body that every stream parser would turn into an item (or choke on)
        elif k == "streamBytes":
            return {"status": status, "headers": headers, "chunks_b64": [b64(b"abc"), b64(b"de")], "raw": "abcde"}
        elif k == "streamSse":
            data = b"data: {\"i\": 1}\n\ndata: {\"i\": 2}\n\n"
            return {"status": status, "headers": headers, "chunks_b64": [b64(data[:9]), b64(data[9:])], "raw": data.decode()}
        elif k == "streamNdjson":
            # newline-delimited JSON (the SSE parser yields nothing for it; iter_ndjson fails on an SSE body): other items than the SSE reply
            data = b"{\"j\": 1}\n\n{\"j\": 2}\n"
            return {"status": status, "headers": headers, "chunks_b64": [b64(data[:5]), b64(data[5:])], "raw": data.decode()}
    return {"status": status, "headers": headers, "body_b64": b64(raw), "raw": raw.decode("latin-1")}


# ------------------------------------------------------------------------------------------------ expectations
def render(v: dict) -> str:
    return "None" if v["t"] == "none" else v["v"]


def expected_request(req: dict) -> dict:
    path = "".join(p["lit"] if "lit" in p else render(p["val"]) for p in req["path"])
    q = sorted((k, "" if v["t"] == "none" else v["v"]) for k, v in (req["query"] or []))
    h = sorted((k.lower(), render(v)) for k, v in (req["headers"] or []))
    # `cookies={name: value}`: one `name=value` pair of the Cookie header each (a None value is written as the bare name)
    c = sorted((k, None if v["t"] == "none" else v["v"]) for k, v in (req.get("cookies") or []))
    return {"method": req["method"], "path": path, "query": [list(x) for x in q], "headers": [list(x) for x in h], "cookies": [list(x) for x in c],
            "body": [req["body"]["kw"], render(req["body"]["v"]) if req["body"]["kw"] != "none" else None]}


DEFAULT_HEADERS = {"host", "accept", "accept-encoding", "connection", "user-agent", "content-length", "content-type", "transfer-encoding"}


def observed_request(rq: dict, wire: dict) -> dict:
    raw = rq["path"].split("?", 1)[0]
    path = unquote(raw)
    if path.startswith("/api"):
        path = path[len("/api"):]
    q = sorted((k, v) for k, v in rq["query"])
    h = sorted((k.lower(), v) for k, v in rq["headers"] if k.lower() not in DEFAULT_HEADERS and k.lower() != "cookie")
    cookies = sorted(tuple(x.strip().split("=", 1)) if "=" in x else (x.strip(), None)
                     for k, v in rq["headers"] if k.lower() == "cookie" for x in v.split(";") if x.strip())
    ctype = next((v for k, v in rq["headers"] if k.lower() == "content-type"), None)
    content = base64.b64decode(rq.get("content_b64") or "")
    # which caller value is in the body: find the token
    tokens = []
    for ident, d in wire.items():
        t = d.get("scalar") or (d.get("dict") or {}).get("a") or d.get("files") or d.get("bytes")
        if t is not None:
            tokens.append(t)
    if not content:
        body = ["none", None]
    else:
        c = (ctype or "").lower()
        kw = "json" if c.startswith("application/json") else "files" if c.startswith("multipart/form-data") else "data"
        tok = None
        if kw == "json":
            try:
                val = json.loads(content.decode("utf-8"))
                tok = val.get("a") if isinstance(val, dict) else str(val)
            except ValueError:
                tok = "<not json>"
        elif kw == "files":
            # the part body sits between the part headers and the next boundary (the boundary itself is random hex)
            tok = next((t for t in sorted(tokens, key=len, reverse=True) if b"\r\n\r\n" + t.encode() + b"\r\n--" in content), "<no token>")
        elif c.startswith("application/x-www-form-urlencoded"):
            tok = dict(parse_qsl(content.decode("utf-8"), keep_blank_values=True)).get("a", "<no a>")
        else:
            tok = content.decode("latin-1")
        body = [kw, tok]
    return {"method": rq["method"], "path": path, "query": [list(x) for x in q], "headers": [list(x) for x in h], "cookies": [list(x) for x in cookies],
            "body": body}


ERR_TYPES = {"typeError": ["TypeError"], "nameError": ["NameError", "UnboundLocalError"], "valueError": ["ValueError"],
             "headerTypeError": ["TypeError"], "cookieTypeError": ["TypeError"], "moduleError": ["SyntaxError", "ImportError", "ModuleNotFoundError", "IndentationError"]}


def ret_label(ret: dict) -> str:
    rk = ret["k"]
    if rk == "structure":
        return f"{ret['ty']['k']}:{ret['ty']['n']}"
    if rk == "cast":
        return "json"
    if rk == "yieldOnce":
        return "yieldOnce(" + ret_label(ret["item"]) + ")"
    return rk


def expected_outcome(pred: dict) -> dict:
    k = pred["k"]
    if k == "moduleError":
        return {"kind": "moduleError"}
    if k == "nameError":
        return {"kind": "nameError"}
    if k == "returned":
        return {"kind": "returned", "ret": ret_label(pred["ret"])}
    return {"kind": "raised", "name": pred["name"], "isClient": pred["isClient"], "isServer": pred["isServer"], "status": pred["status"],
            "response": pred["response"], "why": pred["why"]}


def value_label(tag, val, raw: str) -> str:
    """What kind of value came back (returned, or yielded as the only item of a stream), judged against the body sent."""
    if tag == "None":
        return "none"
    if tag.startswith("dataclass:"):
        return "model:" + tag.split(":", 1)[1]
    if tag.startswith("list[dataclass:"):
        return "listModel:" + tag[len("list[dataclass:"):-1]
    if isinstance(val, dict) and "__bytes__" in val:
        return "content" if base64.b64decode(val["__bytes__"]).decode("latin-1") == raw else "bytes?"
    try:
        parsed = json.loads(raw)
        is_json = True
    except ValueError:
        parsed, is_json = None, False
    if is_json and val == parsed:
        return "json"
    if tag == "str" and val == raw:
        return "text"
    return f"?{tag}"


def observed_outcome(oc: dict, reply: dict) -> dict:
    k = oc.get("kind")
    raw = reply.get("raw", "")
    if k == "returned":
        return {"kind": "returned", "ret": value_label(oc.get("type"), oc.get("json"), raw)}
    if k == "stream":
        items = oc.get("items", [])
        if not items and "chunks_b64" not in reply:
            return {"kind": "returned", "ret": "streamEnd"}      # an async iterator without items, no stream was sent
        if len(items) == 1 and "chunks_b64" not in reply:
            # one item and the reply was an ordinary body: the arm of another 2xx response of a streaming method
            return {"kind": "returned", "ret": "yieldOnce(" + value_label((oc.get("types") or ["?"])[0], items[0], raw) + ")"}
        if items and all(isinstance(i, dict) and "__bytes__" in i for i in items):
            return {"kind": "returned", "ret": "streamBytes"}
        if items == [{"j": 1}, {"j": 2}]:
            return {"kind": "returned", "ret": "streamNdjson"}
        return {"kind": "returned", "ret": "streamSse" if items == [{"i": 1}, {"i": 2}] else f"?stream{json.dumps(items)[:60]}"}
    if k == "raised":
        if oc.get("is_http_error"):
            msg = oc.get("msg", "")
            why = "default" if msg.endswith(": Default error") else "unhandled" if msg.endswith(": Unhandled status code") else None
            return {"kind": "raised", "name": oc.get("type"), "isClient": oc.get("is_client_error"), "isServer": oc.get("is_server_error"),
                    "status": oc.get("status_code"), "response": bool(oc.get("has_response")) and oc.get("response_status") == oc.get("status_code"),
                    "why": why}
        return {"kind": "error", "type": oc.get("type"), "msg": oc.get("msg", "")[:160]}
    return {"kind": str(k)}


def outcomes_agree(exp: dict, obs: dict) -> bool:
    if exp["kind"] == "moduleError":
        return obs["kind"] == "error" and obs["type"] in ERR_TYPES["moduleError"]
    if exp["kind"] == "nameError":
        return obs["kind"] == "error" and obs["type"] == "NameError" and "structure_from_dict" in obs["msg"]
    if exp["kind"] == "returned":
        return obs == exp
    if exp["kind"] == "raised":
        if obs["kind"] != "raised":
            return False
        for f in ("name", "isClient", "isServer", "status", "response"):
            if exp[f] != obs[f]:
                return False
        if exp["why"] in ("default", "unhandled"):
            return obs["why"] == exp["why"]
        return obs["why"] is None
    return False


# ------------------------------------------------------------------------------------------------ worker
def case_fn(case: dict, d):
    """Runs in a pool process: real generator + probe for one document."""
    sys.path.insert(0, RIG)
    from vf import e2e
    root = d / "proj"
    g = e2e.generate(case["doc"], root, package="pkg.client")
    if not g["ok"]:
        return {"gen_ok": False, "gen_error": g["error"]}
    calls = [{"id": i, "module": c["module"], "cls": c["cls"], "method": c["method"], "args": c["args"], "reply": c["reply"],
              "transport": c["transport"]} for i, c in enumerate(case["calls"])]
    pr = e2e.probe(root, "pkg.client", None, [{"task": "calls", "calls": calls}], timeout=300)
    return {"gen_ok": True, "probe": pr}


def drive(driver: str, reqs: list) -> list:
    inp = "".join(json.dumps(q) + "\n" for q in reqs)
    p = subprocess.run([driver], input=inp, capture_output=True, text=True, timeout=600)
    lines = p.stdout.splitlines()
    if len(lines) != len(reqs):
        raise RuntimeError(f"driver answered {len(lines)} of {len(reqs)} requests: {p.stderr[-400:]}")
    return [json.loads(x) for x in lines]


# ------------------------------------------------------------------------------------------------ run
def run(seed: int, scale: float, driver: str) -> dict:
    here = os.path.dirname(os.path.abspath(__file__))
    for p in (RIG, here):
        if p not in sys.path:
            sys.path.insert(0, p)
    base = os.environ.get("VERIF_SCRATCH_DIR", "/tmp")
    work = tempfile.mkdtemp(prefix="corr-gencode-", dir=base)
    saved = {k: os.environ.get(k) for k in ("VERIF_SCRATCH_DIR", "TMPDIR")}
    saved_tmp = tempfile.tempdir
    os.environ["VERIF_SCRATCH_DIR"] = work
    os.environ["TMPDIR"] = work
    tempfile.tempdir = work
    try:
        from vf import common, e2e
        old_scratch = getattr(common, "_scratch", None)
        common._scratch = None
        try:
            common.scratch()
            common.use_repo_src()
            return _run(seed, scale, driver, e2e)
        finally:
            common._scratch = old_scratch
    finally:
        for k, v in saved.items():
            if v is None:
                os.environ.pop(k, None)
            else:
                os.environ[k] = v
        tempfile.tempdir = saved_tmp
        shutil.rmtree(work, ignore_errors=True)


def _run(seed: int, scale: float, driver: str, e2e) -> dict:
    from pyopenapi_gen.core.utils import NameSanitizer
    san = NameSanitizer.sanitize_method_name
    r = random.Random(f"gencode:{seed}")
    n_ops = max(8, int(150 * scale))
    ops = [gen_op(r, i) for i in range(n_ops)]
    # 1. what the model says about each op (signature, importability)
    meta = drive(driver, [q for op in ops for q in ({"f": "gcSigOf", "a": [op_json(op)]}, {"f": "moduleOk", "a": [op_json(op)]})])
    dist: dict = {}

    def bump(k: str, sub: str, n: int = 1):
        dd = dist.setdefault(k, {})
        dd[sub] = dd.get(sub, 0) + n

    plans = []          # (op, call dict)
    dreqs = []
    for i, op in enumerate(ops):
        sig, ok = meta[2 * i], meta[2 * i + 1]
        if isinstance(sig, dict) and "error" in sig:
            raise RuntimeError(f"driver: {sig}")
        op["sig"], op["moduleOk"] = sig, ok
        tok = Tok()
        declared = [int(x["key"]) for x in op["responses"] if x["key"].isdigit()]
        statuses = sorted(set(declared + r.sample(SAMPLE_STATUSES, 6) + [r.randint(100, 599) for _ in range(2)]))
        statuses = [s for s in statuses if 100 <= s <= 599]
        calls = []
        # request-oriented calls: several argument assignments, answered 2xx
        ok_status = next((s for s in declared if 200 <= s < 300), 200)
        for mode in ["all", "some", "some", r.choice(["drop", "extra", "some"])]:
            calls.append((mode, ok_status, r.choice(["bundled", "passthrough"])))
        # response-oriented calls: every sampled status through both transports
        for s in statuses:
            for tr in ("bundled", "passthrough"):
                calls.append(("all", s, tr))
        for mode, status, tr in calls:
            pa = plan_args(r, op, sig, tok, san, mode)
            rp = reply_plan(r, op, status)
            plans.append({"op": op, "mode": mode, "transport": tr, "rp": rp, **pa})
            dreqs.append({"f": "buildRequest", "a": [op_json(op), pa["model_args"]]})
            dreqs.append({"f": "handle", "a": [tr, op_json(op), rp]})
    answers = drive(driver, dreqs)
    for j, pl in enumerate(plans):
        pl["pred_req"], pl["pred_out"] = answers[2 * j], answers[2 * j + 1]
        for a in (pl["pred_req"], pl["pred_out"]):
            if isinstance(a, dict) and "error" in a:
                raise RuntimeError(f"driver: {a}")
        pl["reply"] = reply_body(pl["pred_out"], pl["rp"])
    # 2. documents: ops the model calls importable are grouped, the others get a document of their own
    good = [op for op in ops if op["moduleOk"]]
    bad = [op for op in ops if not op["moduleOk"]]
    groups = [good[i:i + 5] for i in range(0, len(good), 5)] + [[op] for op in bad]
    by_op: dict = {}
    for pl in plans:
        by_op.setdefault(pl["op"]["idx"], []).append(pl)
    cases = []
    for gi, grp in enumerate(groups):
        calls = []
        for op in grp:
            for pl in by_op.get(op["idx"], []):
                calls.append({"module": f"t_{op['idx']}", "cls": f"T{op['idx']}Client", "method": f"op{op['idx']}", "args": pl["args"],
                              "reply": {k: v for k, v in pl["reply"].items() if k != "raw"}, "transport": pl["transport"], "_plan": None})
                pl["_case"], pl["_pos"] = gi, len(calls) - 1
        cases.append({"id": gi, "doc": build_doc(grp), "calls": [{k: v for k, v in c.items() if k != "_plan"} for c in calls]})
    results = e2e.run_cases(f"{__name__}:case_fn", cases)
    # 3. compare
    comparisons, disagreements, samples = 0, [], []
    sampled_ops: set = set()
    nontrivial: set = set()

    def disagree(label, request, model, impl):
        if len(disagreements) < 50:
            disagreements.append({"label": label, "request": request, "model": model, "impl": impl})
        else:
            disagreements.append(None)

    for pl in plans:
        op = pl["op"]
        res = results[pl["_case"]]
        label_op = {"op": op_json(op), "args": pl["model_args"], "reply": pl["rp"], "transport": pl["transport"]}
        if "infra_error" in res:
            raise RuntimeError(res["infra_error"] + res.get("tb", ""))
        if not res.get("gen_ok"):
            comparisons += 1
            disagree("generation failed", label_op, {"moduleOk": op["moduleOk"]}, res.get("gen_error"))
            continue
        pr = res["probe"]
        if not isinstance(pr.get("calls"), list):
            comparisons += 1
            disagree("probe failed", label_op, {"moduleOk": op["moduleOk"]}, json.dumps(pr)[:600])
            continue
        out = pr["calls"][pl["_pos"]]
        oc, reqs = out.get("outcome", {}), out.get("requests", [])
        pred_req, pred_out = pl["pred_req"], pl["pred_out"]
        multi = op["body"] is not None and len(op["body"]["media"]) > 1
        bump("method", op["method"])
        bump("transport", pl["transport"])
        bump("request media", "none" if op["body"] is None else "multi" if multi else op["body"]["media"][0])
        for p in op["pathParams"] + op["params"]:
            bump("param location", p["in"] + ("(path-level)" if p in op["pathParams"] else "") + ("/required" if p["required"] else "/optional"))
            if p["in"] == "header":
                bump("header type", p["kind"])
        # ---- request
        comparisons += 1
        if "err" in pred_req:
            bump("buildRequest", pred_req["err"])
            obs = observed_outcome(oc, pl["reply"])
            okr = (not reqs) and obs["kind"] == "error" and obs["type"] in ERR_TYPES[pred_req["err"]]
            if not okr:
                disagree("buildRequest:error", label_op, pred_req, {"requests": reqs, "outcome": obs})
            else:
                nontrivial.add(json.dumps(["req-err", op_json(op), pl["model_args"]], sort_keys=True))
            continue
        exp_r = expected_request(pred_req["ok"])
        bump("buildRequest", "ok")
        bump("body keyword", exp_r["body"][0])
        if len(reqs) != 1:
            disagree("buildRequest:count", label_op, exp_r, {"requests": reqs, "outcome": oc})
            continue
        obs_r = observed_request(reqs[0], pl["wire"])
        if obs_r != exp_r:
            disagree("buildRequest", label_op, exp_r, obs_r)
        elif pl["model_args"]:
            nontrivial.add(json.dumps(["req", op_json(op), pl["model_args"]], sort_keys=True))
            if len(samples) < 3 and exp_r["query"] and pl["mode"] != "all" and op["idx"] not in sampled_ops:
                sampled_ops.add(op["idx"])
                samples.append({"op": op_json(op), "args": pl["model_args"], "request": obs_r})
        # ---- outcome
        comparisons += 1
        exp_o = expected_outcome(pred_out)
        obs_o = observed_outcome(oc, pl["reply"])
        st = pl["rp"]["status"]
        declared = any(x["key"] == str(st) for x in op["responses"])
        bump("status class", f"{st // 100}xx-{'declared' if declared else 'undeclared'}-{pl['transport']}")
        bump("outcome", exp_o["kind"] + ":" + str(exp_o.get("ret") or exp_o.get("why") or "").split(":")[0])
        if not outcomes_agree(exp_o, obs_o):
            disagree("handle", label_op, exp_o, {**obs_o, "raw": {k: oc.get(k) for k in ("type", "msg", "json") if k in oc}})
        else:
            if not (exp_o["kind"] == "raised" and exp_o.get("why") == "unhandled"):
                nontrivial.add(json.dumps(["out", op_json(op), pl["rp"], pl["transport"]], sort_keys=True))
            if (len(samples) < 6 and len(samples) >= 3 and op["idx"] not in sampled_ops and pl["transport"] == "passthrough"
                    and (exp_o["kind"] == "returned" and pl["rp"]["status"] >= 300 or exp_o["kind"] == "raised" and exp_o["why"] in ("alias", "default"))):
                sampled_ops.add(op["idx"])
                samples.append({"op": op_json(op), "reply": pl["rp"], "transport": pl["transport"], "outcome": obs_o})
    for op in ops:
        bump("module", "importable" if op["moduleOk"] else "model says not importable")
        bump("responses", ",".join(sorted({("default" if x["key"] == "default" else x["key"][0] + "xx" if x["key"].isdigit() else x["key"]) for x in op["responses"]})) or "none")
    n_dis = len(disagreements)
    return {"comparisons": comparisons, "disagreements": [d for d in disagreements if d is not None][:50], "disagreement_count": n_dis,
            "nontrivial": len(nontrivial),
            "rule": ("random operation shapes (8 HTTP methods; path/query/header/cookie/other parameters at path level and operation level, required "
                     "or optional, string or integer (header, cookie and query parameters also number and boolean); undeclared and repeated path variables; name collisions; no / one of 7 / 2-3 of 5 request media "
                     "types; responses drawn from 2xx, 4xx, 5xx, 1xx/3xx/600, 2XX-style and default keys with none, one or several media types of 6 "
                     "schema shapes) -> document -> real generator -> emitted client called in a fresh interpreter with seeded keyword "
                     "assignments (all / some optionals / a required one dropped / an unknown keyword) and a fake server answering every "
                     "declared status plus 8 statuses sampled from 100..599 through the bundled and a pass-through transport; captured "
                     "request (method, path, sorted query, sorted non-default headers, sorted cookies, body keyword + which value) and outcome (returned "
                     "kind | exception class, ClientError/ServerError membership, status, response, arm) compared with buildRequest / handle. "
                     "Non-trivial: a request comparison with at least one argument, or an outcome other than the catch-all 'Unhandled status code'; "
                     "distinct by (op, args) resp. (op, reply, transport)"),
            "samples": samples, "distribution": dist}


def oracle(seed: int, scale: float) -> dict:
    """The end-to-end oracles for C04 / C05 / C06 live in /verif/vf/props on the same rig."""
    return {"evaluations": 0, "failures": []}


def replay(case) -> bool:
    return False


if __name__ == "__main__":
    drv = os.path.join(os.path.dirname(os.path.abspath(__file__)), ".lake", "build", "bin", "driver")
    sc = float(sys.argv[1]) if len(sys.argv) > 1 else 1.0
    sd = int(sys.argv[2]) if len(sys.argv) > 2 else 0
    import time
    t0 = time.time()
    out = run(sd, sc, drv)
    print(json.dumps({k: v for k, v in out.items() if k not in ("disagreements", "samples")}, indent=1)[:6000])
    for dd in out["disagreements"][:12]:
        print(json.dumps(dd)[:1800])
    print(f"{out['comparisons']} comparisons, {out['nontrivial']} nontrivial, {time.time() - t0:.1f}s")
    print(f"{out['disagreement_count']} disagreements")
