#!/venv/bin/python
"""C01 (mechanisms) / C12 (classification) — correspondence of the Lean models with the real Python.

run():    (a) `make_relative_import` vs `relImport`, with CPython (`importlib.util.resolve_name`) as referee for
              `pyResolveRel`, for the importing file taken as a regular module AND as a package `__init__`;
          (a') `RenderContext.calculate_relative_path_for_internal_module` / `get_current_module_dot_path` on a real
              directory tree vs `calcRel` / `moduleDotPath`, again refereed by `resolve_name`;
          (a'') `RenderContext.add_import` (what lands in the ImportCollector) vs `classifyImport`;
          (c) `UnifiedTypeService._format_resolved_type` on random `ResolvedType` records (texts and rendered trees)
              vs `formatText` / `formatResolved` (incl. the optional marker placed inside the quotes of a text that is one
              string literal), `eval` of the text with all names bound as referee for `evalOK`;
              the real `OpenAPISchemaResolver` on small schema trees (primitive / model / self-reference / array /
              anyOf / oneOf) vs `resolveTree`;
          (d) the real `EndpointResponseHandlerGenerator.generate_response_handling` (`raise X(` lines and the names it
              imports from the core package) vs `handlerRaises`/`raisedAliases`, the real `ExceptionVisitor.visit` vs
              `generatedAliases`.
oracle(): not needed for this package (the end-to-end oracle of C01/C12 lives in vf/props) — zero evaluations.

Importable: no work and no `pyopenapi_gen` import at module import time.
"""
from __future__ import annotations

import contextlib
import json
import os
import random
import re
import shutil
import subprocess
import sys
import tempfile

DEFAULT_DRIVER = "/verif/lean/.lake/build/bin/driver"

RULE = (
    "rel: random (cur, tgt) dotted paths of 1-5 components over a 4-letter alphabet, tgt built from a random prefix of cur "
    "(shared prefixes, descendants, siblings, unrelated) -> make_relative_import vs relImport (text), then "
    "importlib.util.resolve_name with package=dir(cur) (regular module) and package=cur (__init__) vs pyResolveRel; "
    "NON-TRIVIAL when up-levels >= 1, or the is_direct_package_import branch fires, or the resolution is wrong/an error. "
    "calc: real tree proj/<root..>/{models,endpoints,mocks/endpoints,core/auth}, current file x target x target-is-dir "
    "-> calculate_relative_path_for_internal_module vs calcRel, get_current_module_dot_path vs moduleDotPath, referee "
    "resolve_name; NON-TRIVIAL when the answer has >= 2 dots, is None, or the current file is an __init__.py. "
    "classify: RenderContext configs (core name dotted/plain, output_package_name set/unset, absolute flag) x module pool "
    "(core, stdlib, builtin, third party, internal, incomplete internal, foreign, pyopenapi_gen.*, relative, empty) x name "
    "(None, '', same-as-module, identifier) -> collector contents vs classifyImport; NON-TRIVIAL when the outcome is not "
    "the plain 'from <requested> import <name>'. "
    "fmt: ResolvedType texts from a pool (bare, quoted, half-quoted, two literals, 'Optional[', '... | None', List/Union/dict) x flags vs formatText; "
    "random annotation trees (fragment the resolver can build) x flags: rendered text vs render, _format_resolved_type vs "
    "formatResolved, eval() vs evalOK; schema trees through the real resolver vs resolveTree; NON-TRIVIAL when a flag is "
    "set or the tree is not a bare name. "
    "alias: random response-code lists (numeric incl. 1xx/3xx/6xx, '2', '20', '2000', zero padded, 'default', '4XX', '') "
    "through the real handler generator and ExceptionVisitor vs handlerRaises/raisedAliases/generatedAliases; NON-TRIVIAL "
    "when some raised code has no generated class or >= 2 codes are raised."
)


# ---------------------------------------------------------------------------------------------- helpers

def _drive(driver: str, reqs: list) -> list:
    """one batch: the driver answers at EOF"""
    if not reqs:
        return []
    inp = "".join(json.dumps({"f": f, "a": list(a)}) + "\n" for f, *a in reqs)
    p = subprocess.run([driver], input=inp, capture_output=True, text=True, timeout=600)
    lines = p.stdout.splitlines()
    assert len(lines) == len(reqs), (len(lines), len(reqs), p.stderr[-2000:])
    res = [json.loads(x) for x in lines]
    for q, r in zip(reqs, res):
        if isinstance(r, dict) and "error" in r and len(r) == 1:
            raise RuntimeError(f"driver error {q}: {r['error']}")
    return res


@contextlib.contextmanager
def _scratch(tag: str):
    base = os.environ.get("VERIF_SCRATCH_DIR", "/tmp")
    os.makedirs(base, exist_ok=True)
    d = os.path.realpath(tempfile.mkdtemp(prefix=f"corr_c01_{tag}_", dir=base))
    old_env, old_td = os.environ.get("TMPDIR"), tempfile.tempdir
    os.makedirs(os.path.join(d, "tmp"))
    os.environ["TMPDIR"] = os.path.join(d, "tmp")
    tempfile.tempdir = os.path.join(d, "tmp")
    try:
        yield d
    finally:
        tempfile.tempdir = old_td
        if old_env is None:
            os.environ.pop("TMPDIR", None)
        else:
            os.environ["TMPDIR"] = old_env
        shutil.rmtree(d, ignore_errors=True)


@contextlib.contextmanager
def _quiet():
    import logging
    import warnings
    prev = logging.root.manager.disable
    logging.disable(logging.CRITICAL)
    try:
        with warnings.catch_warnings():
            warnings.simplefilter("ignore")
            yield
    finally:
        logging.disable(prev)


class _Acc:
    def __init__(self):
        self.comparisons = 0
        self.disagreements = []
        self.nontrivial = set()
        self.samples = []
        self.dist = {}

    def cmp(self, label, request, model, impl, keep_sample=False):
        self.comparisons += 1
        if model != impl:
            if len(self.disagreements) < 50:
                self.disagreements.append({"label": label, "request": request, "model": model, "impl": impl})
        elif keep_sample and len(self.samples) < 6:
            self.samples.append({"label": label, "request": request, "result": impl})

    def count(self, key, n=1):
        self.dist[key] = self.dist.get(key, 0) + n

    def nt(self, key):
        self.nontrivial.add(key)


def _resolve_name(rel: str, package: str):
    import importlib.util
    try:
        return importlib.util.resolve_name(rel, package).split(".")
    except (ImportError, ValueError):
        return None


# ---------------------------------------------------------------------------------------------- (a) make_relative_import

def _rand_paths(rng):
    alpha = ["a", "b", "pkg", "models"]
    cur = [rng.choice(alpha) for _ in range(rng.randint(1, 5))]
    mode = rng.random()
    if mode < 0.2:      # strict descendant of cur
        tgt = cur + [rng.choice(alpha) for _ in range(rng.randint(1, 2))]
    elif mode < 0.3:    # cur itself / an ancestor
        tgt = cur[: rng.randint(1, len(cur))]
    elif mode < 0.85:   # shares a prefix
        k = rng.randint(0, len(cur))
        tgt = cur[:k] + [rng.choice(alpha) for _ in range(rng.randint(0 if k else 1, 3))]
    else:
        tgt = [rng.choice(alpha) for _ in range(rng.randint(1, 5))]
    return cur[:5], (tgt or [rng.choice(alpha)])[:6]


def _part_rel(acc: _Acc, rng, scale, driver):
    from pyopenapi_gen.context.import_collector import make_relative_import
    n = max(20, int(20000 * scale))
    cases = [(["pkg", "sub"], ["pkg", "sub", "mod"]), (["pkg", "models"], ["pkg", "client"]), (["a", "x"], ["b", "y"]),
             (["x"], ["y"]), (["pkg", "endpoints", "pets"], ["pkg", "models", "pet"]), (["a", "b"], ["a", "b"])]
    cases += [_rand_paths(rng) for _ in range(n)]
    # a few ill-formed strings: text comparison only
    odd = [("", "a"), ("a", ""), ("a..b", "a.c"), (".a", "a.b"), ("a.b.", "a.b.c"), ("a", "a."), ("", "")]
    reqs = [("relImport", ".".join(c), ".".join(t)) for c, t in cases] + [("relImport", c, t) for c, t in odd]
    res = _drive(driver, reqs)
    rels = []
    for (c, t), m in zip(cases, res):
        impl = make_relative_import(".".join(c), ".".join(t))
        acc.cmp("relImport", [".".join(c), ".".join(t)], m, impl, keep_sample=(len(acc.samples) < 1))
        rels.append(impl)
    for (c, t), m in zip(odd, res[len(cases):]):
        acc.cmp("relImport/odd", [c, t], m, make_relative_import(c, t))
    # referee: CPython's resolution, the importing file being a module in dir(cur) or the package cur itself
    reqs2 = []
    for (c, t), rel in zip(cases, rels):
        reqs2.append(("pyResolveRel", c[:-1], rel))
        reqs2.append(("pyResolveRel", c, rel))
    res2 = _drive(driver, reqs2)
    for i, ((c, t), rel) in enumerate(zip(cases, rels)):
        for j, pkg in enumerate((c[:-1], c)):
            ref = _resolve_name(rel, ".".join(pkg))
            acc.cmp("pyResolveRel", [pkg, rel], res2[2 * i + j], ref)
        as_mod, as_init = res2[2 * i], res2[2 * i + 1]
        dots = len(rel) - len(rel.lstrip("."))
        direct = len(c) < len(t) and t[: len(c)] == c and dots == 1
        acc.count("rel.module_ok" if as_mod == t else ("rel.module_error" if as_mod is None else "rel.module_wrong"))
        acc.count("rel.init_ok" if as_init == t else ("rel.init_error" if as_init is None else "rel.init_wrong"))
        if dots >= 2 or direct or as_mod != t:
            acc.nt(("rel", tuple(c), tuple(t)))
    acc.samples.append({"label": "relImport+referee", "request": ["pkg.sub", "pkg.sub.mod"],
                        "result": {"rel": rels[0], "as_module": res2[0], "as_init": res2[1]}})


# ---------------------------------------------------------------------------------------------- (a') calcRel on a real tree

def _comps(p: str):
    return [x for x in p.split(os.sep) if x]


def _part_calc(acc: _Acc, rng, scale, driver, scratch):
    from pyopenapi_gen.context.render_context import RenderContext
    proj = os.path.join(scratch, "proj")
    layouts = [["client"], ["out", "myapi"]]
    n = max(10, int(2500 * scale))
    reqs, meta = [], []
    for rootc in layouts:
        root = os.path.join(proj, *rootc)
        for d in ("models", "endpoints", "mocks/endpoints", "core/auth"):
            os.makedirs(os.path.join(root, d), exist_ok=True)
        for f in ("client.py", "models/pet.py", "endpoints/pets.py"):
            open(os.path.join(root, f), "w").close()
        ctx = RenderContext(core_package_name=".".join(rootc + ["core"]), package_root_for_generated_code=root,
                            overall_project_root=proj, output_package_name=".".join(rootc))
        cur_files = ["client.py", "__init__.py", "models/pet.py", "models/__init__.py", "models/owner.py",
                     "endpoints/pets.py", "endpoints/__init__.py", "mocks/__init__.py", "mocks/mock_client.py",
                     "mocks/endpoints/mock_pets.py", "mocks/endpoints/__init__.py", "core/auth/base.py"]
        tgt_pool = ["models", "models.pet", "models.owner", "endpoints", "endpoints.pets", "client", "mocks",
                    "mocks.endpoints", "mocks.endpoints.mock_pets", "mocks.mock_client", "core", "core.auth",
                    "core.auth.base", "core.exceptions", "zzz", "models.zzz.deep", rootc[-1]]
        for _ in range(n):
            cf = rng.choice(cur_files)
            tg = rng.choice(tgt_pool)
            cur_abs = os.path.join(root, cf)
            ctx.current_file = cur_abs
            with _quiet():
                impl = ctx.calculate_relative_path_for_internal_module(tg)
                impl_mod = ctx.get_current_module_dot_path()
            is_dir = os.path.isdir(os.path.join(root, *tg.split(".")))
            reqs.append(("calcRel", _comps(cur_abs), _comps(root), tg.split("."), is_dir))
            reqs.append(("moduleDotPath", _comps(proj), _comps(cur_abs)))
            meta.append((rootc, cf, tg, is_dir, impl, impl_mod))
    res = _drive(driver, reqs)
    reqs2 = []
    for i, (rootc, cf, tg, is_dir, impl, impl_mod) in enumerate(meta):
        acc.cmp("calcRel", reqs[2 * i][1:], res[2 * i], impl, keep_sample=(i == 3))
        acc.cmp("moduleDotPath", reqs[2 * i + 1][1:], res[2 * i + 1], impl_mod)
        pkg = rootc + cf.split("/")[:-1]
        reqs2.append(("pyResolveRel", pkg, impl or "."))
    res2 = _drive(driver, reqs2)
    for (rootc, cf, tg, is_dir, impl, impl_mod), r2, q in zip(meta, res2, reqs2):
        if impl is None:
            acc.count("calc.none")
            acc.nt(("calc", tuple(rootc), cf, tg))
            continue
        pkg = rootc + cf.split("/")[:-1]
        ref = _resolve_name(impl, ".".join(pkg))
        acc.cmp("pyResolveRel/calc", list(q[1:]), r2, ref)
        want = rootc + tg.split(".")
        acc.count("calc.resolves_to_target" if ref == want else "calc.resolves_elsewhere")
        if impl.startswith("..") or cf.endswith("__init__.py"):
            acc.nt(("calc", tuple(rootc), cf, tg))


# ---------------------------------------------------------------------------------------------- (a'') add_import classification

def _part_classify(acc: _Acc, rng, scale, driver, scratch):
    from pyopenapi_gen.context.render_context import RenderContext
    proj = os.path.join(scratch, "proj2")
    builtins = sorted(sys.builtin_module_names)
    n = max(20, int(6000 * scale))
    reqs, impls = [], []
    for _ in range(n):
        rootc = rng.choice([["client"], ["out", "myapi"], ["pyapis", "business", "v1"]])
        root = os.path.join(proj, *rootc)
        os.makedirs(os.path.join(root, "models"), exist_ok=True)
        os.makedirs(os.path.join(root, "endpoints"), exist_ok=True)
        pkg = ".".join(rootc)
        core = rng.choice([pkg + ".core", "core", "shared.core", rootc[0] + ".core"])
        out_pkg = rng.choice([pkg, pkg, None, ""])
        use_abs = rng.random() < 0.8
        pkg_root = rng.choice([root, root, root, None])
        cur_rel = rng.choice(["client.py", "models/pet.py", "models/__init__.py", "endpoints/pets.py", "__init__.py", None])
        last = rootc[-1]
        suffix = ".".join(rootc[1:])
        mods = ["typing", "typing.io", "os", "os.path", "json", "sys", "time", "_thread", "uuid", "httpx", "httpx._types",
                "pydantic", "cattrs", "black", "pyopenapi_gen", "pyopenapi_gen.core.utils", "requests.api", "",
                core, core + ".exceptions", core + "x", pkg, pkg + ".models.pet", pkg + ".models", pkg + ".client",
                pkg + ".endpoints.pets", pkg + "x.models", last + ".models.pet", last, "..models.pet", ".pet",
                "models.pet", "endpoints.pets", "collections.abc", "datetime", "dataclasses", "enum", "logging"]
        if suffix:
            mods += [suffix + ".models.pet", suffix + ".client", suffix]
        lm = rng.choice(mods)
        name = rng.choice([None, "", "X", "Pet", lm, "Any"])
        is_typing = rng.random() < 0.25
        ctx = RenderContext(core_package_name=core, package_root_for_generated_code=pkg_root, overall_project_root=proj,
                            use_absolute_imports=use_abs, output_package_name=out_pkg)
        cur_abs = os.path.join(root, cur_rel) if cur_rel else None
        with _quiet():
            if cur_abs:
                ctx.set_current_file(cur_abs)
            ctx.add_import(lm, name, is_typing_import=is_typing)
        ic = ctx.import_collector
        got = []
        for m, names in ic.imports.items():
            for nm in names:
                got.append({"kind": "from", "module": m, "name": nm})
        for m in ic.plain_imports:
            got.append({"kind": "plain", "module": m})
        for m, names in ic.relative_imports.items():
            for nm in names:
                got.append({"kind": "rel", "module": m, "name": nm})
        impl = got[0] if len(got) == 1 else ({"kind": "skip"} if not got else {"kind": "multi", "all": got})
        # the file-system oracle the code consults for internal targets
        cur_pkg = out_pkg if out_pkg else (pkg_root.split(os.sep)[-1] if pkg_root else None)
        tgt_is_dir = False
        if cur_pkg and pkg_root and (lm == cur_pkg or lm.startswith(cur_pkg + ".")):
            fixed = lm
            mrel = fixed if fixed == cur_pkg else fixed[len(cur_pkg) + 1:]
            tgt_is_dir = os.path.isdir(os.path.join(os.path.abspath(pkg_root), *mrel.split(".")))
        if use_abs and out_pkg and suffix and lm.startswith(suffix + "."):
            fixed = rootc[0] + "." + lm
            if cur_pkg and pkg_root and (fixed == cur_pkg or fixed.startswith(cur_pkg + ".")):
                mrel = fixed if fixed == cur_pkg else fixed[len(cur_pkg) + 1:]
                tgt_is_dir = os.path.isdir(os.path.join(os.path.abspath(pkg_root), *mrel.split(".")))
        c = {"core": core, "use_abs": use_abs, "output_pkg": out_pkg, "pkg_root": _comps(pkg_root) if pkg_root else None,
             "project_root": _comps(proj), "cur_file": _comps(cur_abs) if cur_abs else None, "tgt_is_dir": tgt_is_dir,
             "builtins": builtins}
        reqs.append(("classifyImport", c, lm, name, is_typing))
        impls.append(impl)
    res = _drive(driver, reqs)
    for q, m, impl in zip(reqs, res, impls):
        short = [{k: v for k, v in q[1].items() if k != "builtins"}, q[2], q[3], q[4]]
        acc.cmp("classifyImport", short, m, impl, keep_sample=(impl.get("kind") == "rel" and not any(
            s["label"] == "classifyImport" for s in acc.samples)))
        acc.count("classify." + impl["kind"])
        if not (impl.get("kind") == "from" and impl.get("module") == q[2]):
            acc.nt(("classify", q[1]["core"], q[1]["output_pkg"], q[1]["use_abs"], tuple(q[1]["cur_file"] or ())[-2:],
                    q[2], q[3], q[4]))
        mod = impl.get("module", "")
        if mod.split(".")[0] == "pyopenapi_gen" and q[2].split(".")[0] != "pyopenapi_gen":
            acc.count("classify.REWRITTEN_TO_GENERATOR")


# ---------------------------------------------------------------------------------------------- (c) annotations

_TYPING_HEADS = {"List": 1, "Set": 1, "Dict": 2, "Tuple": None, "Union": None, "Optional": 1, "Literal": None}
_CLASSES = ["Node", "Pet", "Owner"]
_PRIMS = ["int", "str", "float", "bool", "bytes", "Any", "date", "datetime", "UUID"]


def _render(a) -> str:
    if "n" in a:
        return a["n"]
    if "q" in a:
        return '"' + a["q"] + '"'
    if "s" in a:
        return _render(a["s"][0]) + "[" + ", ".join(_render(x) for x in a["s"][1]) + "]"
    if "b" in a:
        return _render(a["b"][0]) + " | " + _render(a["b"][1])
    return "None"


def _atom(rng, allow_none=True):
    r = rng.random()
    if r < 0.35:
        return {"n": rng.choice(_CLASSES)}
    if r < 0.6:
        return {"n": rng.choice(_PRIMS)}
    if r < 0.85 or not allow_none:
        return {"q": rng.choice(_CLASSES)}
    return {"none": True}


def _simple(rng):
    """atoms, List[atom], dict[str, atom] — the members of Union / Optional"""
    r = rng.random()
    if r < 0.6:
        return _atom(rng)
    if r < 0.85:
        return {"s": [{"n": "List"}, [_atom(rng)]]}
    return {"s": [{"n": "dict"}, [{"n": "str"}, _atom(rng)]]}


def _ann(rng, depth=0):
    r = rng.random()
    if depth >= 2 or r < 0.3:
        return _atom(rng)
    if r < 0.5:
        return {"s": [{"n": rng.choice(["List", "Set", "list"])}, [_ann(rng, depth + 1)]]}
    if r < 0.6:
        return {"s": [{"n": rng.choice(["Dict", "dict"])}, [{"n": "str"}, _ann(rng, depth + 1)]]}
    if r < 0.75:
        return {"s": [{"n": "Union"}, [_simple(rng) for _ in range(rng.randint(1, 4))]]}
    if r < 0.8:
        return {"s": [{"n": "Optional"}, [_simple(rng)]]}
    if r < 0.84:
        return {"s": [{"n": "Literal"}, [{"n": rng.choice(["True", "False"])}]]}
    if r < 0.88:   # ill-formed on purpose: wrong arity / non-generic head / non-name head
        return rng.choice([
            {"s": [{"n": "List"}, [_atom(rng), _atom(rng)]]},
            {"s": [{"n": "Dict"}, [_atom(rng)]]},
            {"s": [{"n": rng.choice(_CLASSES)}, [_atom(rng)]]},
            {"s": [{"q": "Node"}, [_atom(rng)]]},
            {"s": [{"s": [{"n": "List"}, [_atom(rng)]]}, [_atom(rng)]]},
            {"s": [{"n": "Optional"}, [_atom(rng), _atom(rng)]]},
        ])
    return {"b": [_ann(rng, depth + 1), rng.choice([{"none": True}, {"none": True}, _ann(rng, depth + 1)])]}


def _eval_ok(text: str) -> bool:
    import datetime
    import typing
    import uuid
    ns = {k: getattr(typing, k) for k in list(_TYPING_HEADS) + ["Any", "FrozenSet", "Sequence", "Iterator", "AsyncIterator",
                                                                "Type", "Mapping"]}
    ns.update({"date": datetime.date, "datetime": datetime.datetime, "UUID": uuid.UUID})
    for c in _CLASSES:
        ns[c] = type(c, (), {})
    import warnings
    try:
        with warnings.catch_warnings():
            warnings.simplefilter("ignore")   # SyntaxWarning: "str indices must be integers ... perhaps you missed a comma"
            eval(text, ns)  # noqa: S307 - the referee: CPython evaluates the annotation eagerly
        return True
    except BaseException:
        return False


def _stree(rng, depth=0):
    r = rng.random()
    if depth >= 2 or r < 0.45:
        r2 = rng.random()
        if r2 < 0.35:
            return {"prim": rng.choice(["int", "str", "float", "bool"])}
        if r2 < 0.65:
            return {"model": [rng.choice(["Pet", "Owner"]), False]}
        return {"model": ["Node", True]}
    if r < 0.7:
        return {"arr": _stree(rng, depth + 1)}
    return {"union": [_stree(rng, depth + 1) for _ in range(rng.randint(1, 3))]}


def _to_ir(t, rng):
    from pyopenapi_gen import IRSchema
    if "prim" in t:
        return IRSchema(type={"int": "integer", "str": "string", "float": "number", "bool": "boolean"}[t["prim"]])
    if "model" in t:
        cls = t["model"][0]
        return IRSchema(name=cls, type="object", generation_name=cls, final_module_stem=cls.lower(),
                        properties={"x": IRSchema(type="string")})
    if "arr" in t:
        return IRSchema(type="array", items=_to_ir(t["arr"], rng))
    subs = [_to_ir(x, rng) for x in t["union"]]
    return IRSchema(any_of=subs) if rng.random() < 0.5 else IRSchema(one_of=subs)


def _part_fmt(acc: _Acc, rng, scale, driver, scratch):
    from pyopenapi_gen.context.render_context import RenderContext
    from pyopenapi_gen.types.contracts.types import ResolvedType
    from pyopenapi_gen.types.services.type_service import UnifiedTypeService
    svc = UnifiedTypeService({})

    def real_format(text, opt, fwd):
        try:
            with _quiet():
                return svc._format_resolved_type(ResolvedType(python_type=text, is_optional=opt, is_forward_ref=fwd))
        except ValueError:
            return None

    # text level
    pool = ["Node", '"Node"', "Optional[Node]", "Optional", "OptionalX[int]", "Node | None", "Node| None", "Node |None",
            "List[Node]", 'List["Node"]', "Union[int, str]", "dict[str, Any]", "", '"', "| None", "None", "int",
            '"Node" | None', "Literal[True]", "x | None ", "é | None", "Optional[", " Optional[int]",
            # the optional marker of a text that is ONE string literal goes inside the quotes (F1 repaired): boundaries of that test
            '""', '"A" | "B"', '"A", "B"', '"Node | None"', '"Node"x', 'x"Node"', '"Node', 'Node"', '"é"', '"Node" ']
    n1 = max(10, int(3000 * scale))
    cases = [(t, o, f) for t in pool for o in (False, True) for f in (False, True)]
    cases += [(rng.choice(pool) + rng.choice(["", "", " | None", "]"]), rng.random() < 0.5, rng.random() < 0.5) for _ in range(n1)]
    res = _drive(driver, [("formatResolved", {"python_type": t, "is_optional": o, "is_forward_ref": f}) for t, o, f in cases])
    for (t, o, f), m in zip(cases, res):
        acc.cmp("formatText", [t, o, f], m, real_format(t, o, f))
        if o or f:
            acc.nt(("fmtText", t, o, f))
    # tree level
    n2 = max(20, int(12000 * scale))
    hand = [({"n": "Node"}, True, True), ({"q": "Node"}, True, False), ({"s": [{"n": "List"}, [{"q": "Node"}]]}, True, False),
            ({"s": [{"n": "Optional"}, [{"q": "Node"}]]}, False, False), ({"n": "Node"}, True, False),
            ({"b": [{"n": "Node"}, {"none": True}]}, True, False), ({"none": True}, True, False),
            ({"s": [{"n": "Node"}, []]}, False, False),
            # former F1 class: optional forward reference / optional already-quoted base / Union of one quoted member
            ({"q": "Node"}, True, True), ({"n": "Pet"}, True, True), ({"s": [{"n": "Union"}, [{"q": "Node"}]]}, True, False),
            ({"b": [{"q": "Node"}, {"q": "Pet"}]}, True, False)]
    trees = hand + [(_ann(rng), rng.random() < 0.5, rng.random() < 0.3) for _ in range(n2)]
    reqs = []
    for a, o, f in trees:
        reqs.append(("renderAnn", a))
        reqs.append(("formatResolvedAnn", {"ty": a, "is_optional": o, "is_forward_ref": f}))
        reqs.append(("evalOK", a))
    res = _drive(driver, reqs)
    for i, (a, o, f) in enumerate(trees):
        text = _render(a)
        acc.cmp("render", a, res[3 * i], text)
        fr = res[3 * i + 1]
        impl = real_format(text, o, f)
        acc.cmp("formatResolved", [text, o, f], fr["text"], impl, keep_sample=(i == 0))
        acc.cmp("evalOK/base", text, res[3 * i + 2], _eval_ok(text))
        if impl is not None:
            ok = _eval_ok(impl)
            acc.cmp("evalOK/formatted", impl, fr["evalOK"], ok, keep_sample=(i == 2))
            acc.count("fmt.base_ok_formatted_FAILS" if (res[3 * i + 2] and not ok) else
                      ("fmt.ok" if ok else "fmt.base_not_evaluable"))
            if res[3 * i + 2] and not ok:
                acc.count(f"fmt.fails[opt={o},fwd={f},base={fr['baseKind']}]")
        else:
            acc.count("fmt.ValueError")
        if o or f or "n" not in a:
            acc.nt(("fmt", text, o, f))
    # the real resolver on schema trees
    n3 = max(10, int(2500 * scale))
    root = os.path.join(scratch, "proj3", "client")
    os.makedirs(os.path.join(root, "models"), exist_ok=True)
    ctx = RenderContext(core_package_name="client.core", package_root_for_generated_code=root,
                        overall_project_root=os.path.dirname(root), output_package_name="client")
    strees = [({"model": ["Node", True]}, False), ({"union": [{"model": ["Node", True]}]}, False),
              ({"arr": {"model": ["Node", True]}}, False)]
    strees += [(_stree(rng), rng.random() < 0.5) for _ in range(n3)]
    res = _drive(driver, [("resolveTree", t, req) for t, req in strees])
    for (t, req), m in zip(strees, res):
        ir = _to_ir(t, rng)
        from pyopenapi_gen import IRSchema
        named = {c: IRSchema(name=c, type="object", generation_name=c, final_module_stem=c.lower()) for c in _CLASSES}
        s2 = UnifiedTypeService(named)
        with _quiet():
            ctx.set_current_file(os.path.join(root, "models", "node.py"))
            impl = s2.resolve_schema_type(ir, ctx, required=req)
        acc.cmp("resolveTree", [t, req], m["text"], impl, keep_sample=(t == strees[2][0]))
        ok = _eval_ok(impl)
        acc.cmp("evalOK/resolved", impl, m["evalOK"], ok)
        acc.count("tree.ok" if ok else "tree.FAILS")
        acc.nt(("tree", json.dumps(t), req))


# ---------------------------------------------------------------------------------------------- (d) aliases

def _part_alias(acc: _Acc, rng, scale, driver, scratch):
    from pyopenapi_gen import HTTPMethod, IROperation, IRResponse, IRSpec
    from pyopenapi_gen.context.render_context import RenderContext
    from pyopenapi_gen.core.writers.code_writer import CodeWriter
    from pyopenapi_gen.types.strategies.response_strategy import ResponseStrategyResolver
    from pyopenapi_gen.visit.endpoint.generators.response_handler_generator import EndpointResponseHandlerGenerator
    from pyopenapi_gen.visit.exception_visitor import ExceptionVisitor

    pool = ["200", "201", "204", "2", "20", "2000", "0404", "0200", "302", "301", "304", "101", "100", "404", "400", "422",
            "499", "500", "503", "599", "600", "700", "99", "3", "default", "4XX", "", "999", "418", "501"]
    root = os.path.join(scratch, "proj4", "client")
    os.makedirs(os.path.join(root, "endpoints"), exist_ok=True)
    n = max(10, int(1500 * scale))
    specs = [[["200", "302"]], [["200", "101", "404"]], [["404"], ["200", "500", "404"]]]
    for _ in range(n):
        specs.append([rng.sample(pool, rng.randint(0, 6)) for _ in range(rng.randint(1, 3))])
    reqs, impls = [], []
    for ops_codes in specs:
        ops = [IROperation(operation_id=f"op{i}", method=HTTPMethod.GET, path=f"/x{i}", summary=None, description=None,
                           responses=[IRResponse(status_code=s, description="", content={}) for s in sts])
               for i, sts in enumerate(ops_codes)]
        spec = IRSpec(title="t", version="1", schemas={}, operations=ops, servers=[])
        all_nums = []
        for sts in ops_codes:
            for s in sts:
                if s.isdigit():
                    all_nums.append(int(s))
        with _quiet():
            ctx = RenderContext(core_package_name="client.core", package_root_for_generated_code=root,
                                overall_project_root=os.path.dirname(root), output_package_name="client")
            ctx.set_current_file(os.path.join(root, "core_exception_aliases.py"))
            _code, gen_names, _codes = ExceptionVisitor().visit(spec, ctx)
        reqs.append(("generatedAliases", all_nums))
        impls.append(("generatedAliases", all_nums, gen_names))
        for op, sts in zip(ops, ops_codes):
            with _quiet():
                ctx.set_current_file(os.path.join(root, "endpoints", "x.py"))
                strategy = ResponseStrategyResolver({}).resolve(op, ctx)
                w = CodeWriter()
                EndpointResponseHandlerGenerator({}).generate_response_handling(w, op, ctx, strategy)
            text = w.get_code()
            raised = re.findall(r"raise (\w+)\(response=response\)", text)
            imported = sorted(ctx.import_collector.imports.get("client.core", set()))
            reqs.append(("handlerRaises", sts))
            impls.append(("handlerRaises", sts, (raised, imported, gen_names)))
            canon = [int(s) for s in sts if s.isdigit() and str(int(s)) == s]
            reqs.append(("raisedAliases", canon))
            impls.append(("raisedAliases", canon, [x for s, x in zip([s for s in sts if s.isdigit() and not s.startswith("2") and 400 <= int(s) < 600], raised)
                                                   if str(int(s)) == s]))
    # names of the codes returned by handlerRaises
    res = _drive(driver, reqs)
    name_reqs, idx = [], []
    for k, (q, m) in enumerate(zip(impls, res)):
        if q[0] == "handlerRaises":
            for code in m:
                name_reqs.append(("aliasName", code))
            idx.append((k, len(m)))
    names = _drive(driver, name_reqs)
    pos = 0
    name_of = {}
    for k, cnt in idx:
        name_of[k] = names[pos:pos + cnt]
        pos += cnt
    for k, (q, m) in enumerate(zip(impls, res)):
        if q[0] == "generatedAliases":
            acc.cmp("generatedAliases", q[1], m, q[2], keep_sample=(k == 0))
        elif q[0] == "raisedAliases":
            acc.cmp("raisedAliases", q[1], m, q[2])
        else:
            raised, imported, gen_names = q[2]
            acc.cmp("handlerRaises(names)", q[1], name_of[k], raised, keep_sample=(k == 1))
            acc.cmp("handlerImports", q[1], sorted(set(name_of[k])), imported)
            missing = [x for x in raised if x not in gen_names]
            acc.count("alias.op_with_undefined_alias" if missing else "alias.op_covered")
            if missing or len(raised) >= 2:
                acc.nt(("alias", tuple(q[1])))


# ---------------------------------------------------------------------------------------------- API

def run(seed: int = 0, scale: float = 1.0, driver: str = DEFAULT_DRIVER) -> dict:
    rng = random.Random(seed)
    acc = _Acc()
    with _scratch("run") as scratch:
        _part_rel(acc, rng, scale, driver)
        _part_calc(acc, rng, scale, driver, scratch)
        _part_classify(acc, rng, scale, driver, scratch)
        _part_fmt(acc, rng, scale, driver, scratch)
        _part_alias(acc, rng, scale, driver, scratch)
    kinds = {}
    for k in acc.nontrivial:
        kinds[k[0]] = kinds.get(k[0], 0) + 1
    acc.dist["nontrivial_by_part"] = kinds
    return {"comparisons": acc.comparisons, "disagreements": acc.disagreements, "nontrivial": len(acc.nontrivial),
            "rule": RULE, "samples": acc.samples[:6], "distribution": acc.dist}


def oracle(seed: int = 0, scale: float = 1.0) -> dict:
    """The end-to-end oracle of C01/C12 (generate, compile, import in a fresh interpreter, scan imports) lives in
    vf/props; this work package contributes mechanisms only."""
    return {"evaluations": 0, "failures": []}


def replay(case) -> bool:
    return False


if __name__ == "__main__":
    drv = sys.argv[1] if len(sys.argv) > 1 else os.path.join(os.path.dirname(os.path.abspath(__file__)), ".lake/build/bin/driver")
    import time
    t0 = time.time()
    out = run(0, 1.0, drv)
    for d in out["disagreements"][:15]:
        print(json.dumps(d, ensure_ascii=False)[:600])
    print(json.dumps(out["distribution"], indent=1, sort_keys=True))
    print(f"{out['comparisons']} comparisons, {out['nontrivial']} non-trivial, {len(out['disagreements'])} disagreements, "
          f"{time.time() - t0:.1f}s")
