import Pog.Props.C20
import Pog.Props.ClientGen
import Pog.Props.Dc
import Pog.Props.Resolve
import Pog.Lemmas.Imports
import Pog.Lemmas.Annot
import Pog.Lemmas.AliasCover
/-
  C01 — every accepted spec yields a package that compiles and imports.

  FULL STATEMENT: for every document the generator accepts and every layout/naming strategy, every
  emitted file parses and every emitted module imports with only httpx/cattrs available; every name in a
  generated `__all__` resolves.

  The generator as a whole is not modelled.  Proved here are the mechanisms the property's anchors
  name; their composition (that every template requests the imports it uses, import order between
  model modules) is only searched by the end-to-end oracle.  Label: partial.

  (a) relative imports
      ✗ relImport_resolves_full   ∀ cur tgt, tgt ≠ cur → CPython resolves `make_relative_import(cur, tgt)`, inside the
                                  importing file's `__package__`, to `tgt`            — FALSE of `make_relative_import`:
        relImport_resolves                         partial   regular module, same top-level package, tgt not below cur
        relImport_descendant_counterexample        ✗ witness `is_direct_package_import` fires for a regular module
        relImport_toplevel_counterexample          ✗ witness different top-level package → beyond top-level package
        relImport_nodir_counterexample             ✗ witness top-level module (empty `__package__`)
        relImport_init_descendant                  partial   `__init__` of package cur, tgt strictly below cur
        relImport_init_counterexample              ✗ witness `__init__` of pkg.models importing pkg.client
      `make_relative_import` is reached only through `ImportCollector.get_import_statements`, whose only caller is
      `emit/models_emitter.py` — a module nothing imports.  The live path (`RenderContext.add_import` →
      `calculate_relative_path_for_internal_module`, rendered by `get_formatted_imports`) works on the FILE SYSTEM
      directory of the current file, which IS its `__package__` for modules and `__init__.py` alike:
        calcRel_resolves                           full (well-formed names, current file inside the package)
        calcRel_none_iff                           `None` exactly for the self-import
  (b) name de-collision: C20.
  (c) annotation text (F1 repaired: the optional marker of a text that is ONE string literal - a quoted forward reference - is
      placed inside the quotes, `"Node | None"`; before, `"Node" | None` raised TypeError when the class body was executed)
      ✗ annotation_evaluable_full  every formatted annotation whose parts are evaluable is evaluable — FALSE only for `None | None`:
        annotation_evaluable_partial               partial   ¬(optional ∧ not a forward reference ∧ base is None)
        annotation_not_evaluable                   the excluded class always fails (the condition is exact): `None | None`
        optional_forward_ref_evaluable             full      an optional forward reference to a bare name evaluates (the former F1 class)
        optional_string_literal_evaluable          full      … and so does an optional, already quoted base (single-member anyOf/oneOf)
        annotation_evaluable_former_witness        {forward_ref, optional} ↦ `"Node | None"`, evaluable
        annotation_evaluable_former_witness_union  optional anyOf/oneOf with ONE self-referencing member ↦ `"Node | None"`
        array_of_self_evaluable                    `List["Node"]`, `List["Node"] | None` are fine
  (d) exception aliases
      aliases_cover_raises         full      every alias class an endpoint raises/imports is defined (F3 repaired: a declared
                                             1xx/3xx status raises the base HTTPError instead of importing `Error302`)
        uncovered_iff                              exactly the raised codes outside [400, 600) are uncovered
-/
/-
  C01, glue "every name an annotation uses has an import request" for the schema type resolver (Pog/Model/Resolve.lean,
  `OpenAPISchemaResolver.resolve_schema`, tied by vf/corr/resolve.py; tables `formatMapping` / `formatImports` regenerated from the
  source): proved in Pog/Props/Resolve.lean and claimed here.
    resolve_imports_cover_partial          every unquoted name of a resolved annotation is a builtin or was passed to add_import
                                           (for every schema tree, registry, current file) - except the two bare returns below
    ✗ …_counterexample_named_no_stem / _enum_underlying / _enum_nameless   the bare returns (no import requested)
    format_table_ok / format_table_cover   `decide` over the regenerated table: every format's python type is a builtin or imported
    self_import_only_in_models_package, named_forward_ref_iff_self_import, no_forward_ref_outside_models
                                           a quoted forward reference WITHOUT import is produced only inside `models/<stem>.py`
                                           (F60 repaired: an endpoint module named like a model imports the model)
-/
-- INDEX Pog.ResolveProps: format_table_ok, format_table_cover, resolve_imports_cover_partial, resolve_imports_cover_counterexample_named_no_stem, resolve_imports_cover_counterexample_enum_underlying, resolve_imports_cover_counterexample_enum_nameless, self_import_only_in_models_package, named_forward_ref_iff_self_import, no_forward_ref_outside_models, resolve_monotone_fuel
/-
  C01 for the dataclass body (Pog/Model/Dc.lean mirrors `DataclassGenerator.generate`, `_get_field_default` and the field ordering of
  `PythonConstructRenderer.render_dataclass`; tied by vf/corr/dc.py; proved in Pog/Props/Dc.lean, claimed here):
    rendered_defaults_last                 in the emitted class body no field without a default follows a field with a default
                                           (a valid dataclass), for every schema and every `required` list
    generate_never_diverges / generate_value_error_iff   the collision loop terminates; exactly when `generate` raises ValueError
    ✗ generate_never_raises_runtime_error  the text `default_factory` in a property / class name makes the post-condition raise
                                           (counterexample + `generate_ok_partial`)
    default_enum_expr / enum_default_expr_by_value (F53 repaired)   an enum default is rendered as a lookup BY VALUE, `Level("N/A")`, `Code(1)`;
                                           the `enum_default_member_*` theorems record why the member NAME cannot be derived by the old rule
    no_field_named_field (F5 repaired)     no attribute of a generated class is called `field`: a property of that name is emitted as `field_`
                                           (wire key kept in `Meta`), so no default rebinds `dataclasses.field` for the factory defaults after it;
                                           `field_shadow_former_witness` = the former witness, `field_property_keeps_wire_key`
-/
-- INDEX Pog.DcProps: rendered_defaults_last, render_order_defaults_last, render_order_is_identity, field_line_shape, generate_never_diverges, generate_value_error_iff, generate_default_factory_counterexample, generate_ok_partial, enum_default_member_counterexample, enum_default_expr_by_value, default_enum_expr, default_enum_str_expr, enum_default_member_exact, enum_default_member_partial, enum_default_member_in_enum_partial, enum_default_wrong_member_counterexample, int_enum_default_never_identifier, no_field_named_field, field_property_keeps_wire_key, field_shadow_former_witness
/-
  C01, the argument list of an endpoint method (Pog/Model/Loader.lean `mergeParams`; proved in Pog/Props/Loader.lean, claimed here):
    parameters_no_duplicate_key            F4 repaired: a parameter declared at path level AND at operation level (same name, same `in`)
                                           is ONE parsed parameter - no two parsed parameters share (name, in) when neither declared
                                           list does, so the emitted `def` gets no duplicate argument from an override
    parameters_override_former_witness     the former witness of F4
-/
-- INDEX Pog.LoaderProps: parameters_no_duplicate_key, parameters_override_former_witness
/-
  C01, mocks/mock_client.py (Pog/Model/ClientGen.lean; claimed from Pog/Props/ClientGen.lean):
    mock_init_body_never_empty             the `__init__` body of MockAPIClient is never empty (F31 repaired: `pass` for a document without operations)
-/
-- INDEX Pog.ClientGenProps: mock_init_body_never_empty, mock_client_compiles_when_no_operation
namespace Pog.C01
open Pog Pog.Imp Pog.Annot Pog.AliasCover

/-- Mechanism (b): class names are pairwise distinct after de-collision, for every list of schema names
    (so no two models are written to one class). -/
theorem decollide_class_names_nodup (names : List Str) :
    ∃ l, classNames names = some l ∧ l.Nodup ∧ l.length = names.length :=
  Pog.C20.class_names_nodup names

/-- Mechanism (b): module stems are pairwise distinct (no two models share a file). -/
theorem decollide_module_stems_nodup (u : UInfo) (names : List Str) :
    ∃ l, moduleStems u names = some l ∧ l.Nodup ∧ l.length = names.length :=
  Pog.C20.module_stems_nodup u names

/-- Every class name is an identifier (a `class <name>:` line always parses). -/
theorem class_name_is_identifier (s : Str) : isPyIdent (sanClass s) = true :=
  Pog.C20.class_name_is_identifier s

/-! ## (a) relative imports -/

/-- `make_relative_import`, importing file = REGULAR MODULE `cur` (so `__package__ = dir(cur)`):
    for well-formed dotted paths, if `cur` has a non-empty directory whose first component (the top-level
    package) is also the first component of `tgt`, and `tgt` is not a strict descendant of `cur`, then
    CPython resolves the computed relative name to `tgt`. -/
theorem relImport_resolves (cur tgt : List Str) (hc : PathOK cur) (ht : PathOK tgt)
    (top : Str) (d t : List Str) (hdir : cur.dropLast = top :: d) (htgt : tgt = top :: t)
    (hnd : ¬ ∃ r, r ≠ [] ∧ tgt = cur ++ r) :
    pyResolveRel cur.dropLast (relImport (joinDots cur) (joinDots tgt)) = some tgt := by
  apply relImport_resolves_parts cur tgt hc ht _ hnd
  rw [hdir, htgt]
  simp [commonLen]

private def s (x : String) : Str := x.toList

/-- `pkg/endpoints/pets.py` importing `pkg.models.pet`: the hypotheses hold, the answer is `..models.pet`. -/
example : relImport (s "pkg.endpoints.pets") (s "pkg.models.pet") = s "..models.pet" ∧
    pyResolveRel [s "pkg", s "endpoints"] (relImport (joinDots [s "pkg", s "endpoints", s "pets"])
      (joinDots [s "pkg", s "models", s "pet"])) = some [s "pkg", s "models", s "pet"] :=
  ⟨by decide +kernel,
   relImport_resolves [s "pkg", s "endpoints", s "pets"] [s "pkg", s "models", s "pet"] (by decide) (by decide)
    (s "pkg") [s "endpoints"] [s "models", s "pet"] (by decide) (by decide)
    (by rintro ⟨r, _, h⟩; exact absurd (List.cons.inj (List.cons.inj h).2).1 (by decide))⟩

/-- ✗ `is_direct_package_import` fires for a regular module `a.b` importing `a.b.c`: the answer `.c`
    resolves to `a.c`. (Cannot arise on a real file system unless both `a/b.py` and `a/b/` exist.) -/
theorem relImport_descendant_counterexample :
    relImport (s "a.b") (s "a.b.c") = s ".c" ∧
    pyResolveRel [s "a"] (relImport (s "a.b") (s "a.b.c")) = some [s "a", s "c"] := by
  decide +kernel

/-- ✗ different top-level packages: `a.x` importing `b.y` gets `..b.y`, an ImportError
    ("attempted relative import beyond top-level package"). -/
theorem relImport_toplevel_counterexample :
    relImport (s "a.x") (s "b.y") = s "..b.y" ∧
    pyResolveRel [s "a"] (relImport (s "a.x") (s "b.y")) = none := by
  decide +kernel

/-- ✗ a top-level module has no parent package: `x` importing `y` gets `.y`, an ImportError. -/
theorem relImport_nodir_counterexample :
    relImport (s "x") (s "y") = s ".y" ∧ pyResolveRel [] (relImport (s "x") (s "y")) = none := by
  decide +kernel

/-- `make_relative_import`, importing file = `__init__.py` of package `cur` (which
    `get_current_module_dot_path` reports as `cur`, while `__package__ = cur`): the
    `is_direct_package_import` special case is right for every strict descendant. -/
theorem relImport_init_descendant (cur r : List Str) (hc : PathOK cur) (hr : PathOK r) :
    pyResolveRel cur (relImport (joinDots cur) (joinDots (cur ++ r))) = some (cur ++ r) :=
  Pog.Imp.relImport_init_descendant cur r hc hr

/-- ✗ … and wrong for everything else: `pkg/models/__init__.py` importing `pkg.client` gets `.client`,
    which CPython resolves to `pkg.models.client`. -/
theorem relImport_init_counterexample :
    relImport (s "pkg.models") (s "pkg.client") = s ".client" ∧
    pyResolveRel [s "pkg", s "models"] (relImport (s "pkg.models") (s "pkg.client"))
      = some [s "pkg", s "models", s "client"] := by
  decide +kernel

/-- The LIVE mechanism, `calculate_relative_path_for_internal_module`: the current file is
    `P/rootc/sub/fname` (any file name, `__init__.py` included), the package root `P/rootc`, the target the
    module `tparts` below the package root (a directory or a `.py` file, `isDir`).  Whatever is returned
    resolves, inside the current file's `__package__ = rootc.sub`, to `rootc.tparts`. -/
theorem calcRel_resolves (P rootc sub tparts : List Str) (fname : Str) (isDir : Bool)
    (hroot : rootc ≠ []) (ht : PathOK tparts) (hC : ∀ c ∈ rootc ++ sub, CompOK c) (rel : Str)
    (h : calcRel (P ++ rootc ++ sub ++ [fname]) (P ++ rootc) tparts isDir = some rel) :
    pyResolveRel (rootc ++ sub) rel = some (rootc ++ tparts) :=
  calcRel_resolves_parts P rootc sub tparts fname isDir hroot ht hC rel h

/-- `pkg/models/__init__.py` importing `pkg.client` (the case `make_relative_import` gets wrong): `..client`. -/
example : pyResolveRel [s "pkg", s "models"] (s "..client") = some [s "pkg", s "client"] :=
  calcRel_resolves [s "tmp"] [s "pkg"] [s "models"] [s "client"] (s "__init__.py") false (by decide) (by decide)
    (by decide) (s "..client") (by decide +kernel)

/-- `mocks/endpoints/mock_pets.py` importing `models.pet`; `client.py` importing the package `endpoints`. -/
example :
    calcRel [s "tmp", s "pkg", s "mocks", s "endpoints", s "mock_pets.py"] [s "tmp", s "pkg"] [s "models", s "pet"] false
      = some (s "...models.pet") ∧
    calcRel [s "tmp", s "pkg", s "client.py"] [s "tmp", s "pkg"] [s "endpoints"] true = some (s ".endpoints") ∧
    calcRel [s "tmp", s "pkg", s "models", s "pet.py"] [s "tmp", s "pkg"] [s "models", s "pet"] false = none := by
  decide +kernel

/-- `None` is returned exactly for the self-import (target file = current file). -/
theorem calcRel_none_iff (curFile root tparts : List Str) (isDir : Bool) :
    calcRel curFile root tparts isDir = none ↔ curFile = targetAbs root tparts isDir :=
  Pog.Imp.calcRel_none_iff curFile root tparts isDir

/-! ## (c) annotation text -/

/-- The tree-level model renders to exactly the text `_format_resolved_type` returns. -/
theorem format_text_agrees (r : Resolved) :
    (formatResolved r).map render = formatText (render r.ty) r.isOptional r.isForwardRef :=
  render_formatResolved r

/-- The former witness of F1, an optional self-reference: `ResolvedType("Node", is_optional, is_forward_ref)` is now formatted as
    `"Node | None"` - one string literal, which evaluates (it was `"Node" | None`, a `TypeError` when the class body is executed). -/
theorem annotation_evaluable_former_witness :
    evalOK (.name (s "Node")) = true ∧
    formatText (s "Node") true true = some (s "\"Node | None\"") ∧
    (formatResolved ⟨.name (s "Node"), true, true⟩).map render = some (s "\"Node | None\"") ∧
    (formatResolved ⟨.name (s "Node"), true, true⟩).map evalOK = some true := by
  decide +kernel

/-- The same through a union: an optional `anyOf`/`oneOf` whose ONLY member is the schema itself (the resolver hands over the
    already quoted `"Node"` with `is_forward_ref = False`). -/
theorem annotation_evaluable_former_witness_union :
    (formatResolved (resolveTree (.union [.model (s "Node") true]) false)).map render = some (s "\"Node | None\"") ∧
    (formatResolved (resolveTree (.union [.model (s "Node") true]) false)).map evalOK = some true := by
  decide +kernel

/-- If the resolved type evaluates (to kind `k`), a forward reference is a bare name (no `"` inside), and
    NOT (optional ∧ not a forward reference ∧ `k` is `None`), the formatted annotation evaluates. -/
theorem annotation_evaluable_partial (r : Resolved) (k : Kind) (hk : evalKind r.ty = some k)
    (hq : r.isForwardRef = true → '"' ∉ render r.ty)
    (hc : ¬ (r.isOptional = true ∧ r.isForwardRef = false ∧ k = .noneV))
    (a : Ann) (ha : formatResolved r = some a) : evalOK a = true :=
  format_evaluable r k hk hq (fun hopt h => hc ⟨hopt, h⟩) a ha

/-- optional `List["Node"]`: kind `alias`, not a forward reference — the hypotheses hold. -/
example : evalOK (.bor (.sub (.name (s "List")) [.quoted (s "Node")]) .none_) = true :=
  annotation_evaluable_partial ⟨.sub (.name (s "List")) [.quoted (s "Node")], true, false⟩ .alias (by decide +kernel)
    (by intro h; cases h) (by decide) _ rfl

/-- optional forward reference `Node`: the class that used to be excluded satisfies the hypotheses now. -/
example : evalOK (.quoted (s "Node | None")) = true :=
  annotation_evaluable_partial ⟨.name (s "Node"), true, true⟩ .ty (by decide +kernel) (by intro _; decide +kernel)
    (by decide) _ rfl

/-- The class F1 was about, at full strength: an OPTIONAL FORWARD REFERENCE whose text is a bare name (whatever it evaluates
    to) is formatted to an annotation that evaluates - for every such `ResolvedType`. -/
theorem optional_forward_ref_evaluable (r : Resolved) (k : Kind) (hk : evalKind r.ty = some k)
    (hf : r.isForwardRef = true) (hq : '"' ∉ render r.ty)
    (a : Ann) (ha : formatResolved r = some a) : evalOK a = true :=
  format_evaluable r k hk (fun _ => hq) (fun _ h => by rw [hf] at h; cases h.1) a ha

/-- `Node`, optional, forward reference: the hypotheses hold, the annotation is `"Node | None"`. -/
example : evalOK (.quoted (s "Node | None")) = true :=
  optional_forward_ref_evaluable ⟨.name (s "Node"), true, true⟩ .ty (by decide +kernel) rfl (by decide +kernel) _ rfl

/-- … and an optional base that is already a string literal (what `_resolve_any_of` / `_resolve_one_of` return for a single
    self-referencing member): evaluable for every literal. -/
theorem optional_string_literal_evaluable (q : Str) (hq : '"' ∉ q) (opt fwd : Bool)
    (a : Ann) (ha : formatResolved ⟨.quoted q, opt, fwd⟩ = some a) : evalOK a = true := by
  cases fwd with
  | false =>
    exact format_evaluable ⟨.quoted q, opt, false⟩ .strV (evalKind_quoted q hq) (by intro h; cases h)
      (fun _ h => by cases h.2) a ha
  | true =>
    -- a forward reference whose text already starts with a quote is not quoted again
    have hqa : quoteIfFwd (.quoted q) true = .quoted q := by
      unfold quoteIfFwd
      rw [render_quoted]
      simp [startsWith]
    have : formatResolved ⟨.quoted q, opt, true⟩ = formatResolved ⟨.quoted q, opt, false⟩ := by
      unfold formatResolved
      have hqb : quoteIfFwd (.quoted q) false = .quoted q := by simp [quoteIfFwd]
      simp only [hqa, hqb]
    rw [this] at ha
    exact format_evaluable ⟨.quoted q, opt, false⟩ .strV (evalKind_quoted q hq) (by intro h; cases h)
      (fun _ h => by cases h.2) a ha

example : evalOK (.quoted (s "Node | None")) = true :=
  optional_string_literal_evaluable (s "Node") (by decide +kernel) true false _ rfl

/-- The excluded class really fails: optional ∧ not a forward reference ∧ the base is `None` is formatted to `None | None`,
    which CPython cannot evaluate (no resolver returns the text `None`; recorded as a function-level hazard). -/
theorem annotation_not_evaluable (r : Resolved) (hk : evalKind r.ty = some .noneV)
    (hopt : r.isOptional = true) (hf : r.isForwardRef = false) :
    ∃ a, formatResolved r = some a ∧ evalOK a = false :=
  format_not_evaluable r hk hopt hf

example : ∃ a, formatResolved ⟨.none_, true, false⟩ = some a ∧ evalOK a = false :=
  annotation_not_evaluable ⟨.none_, true, false⟩ (by decide +kernel) rfl rfl

/-- Arrays of the schema itself are fine, optional or not: `List["Node"]`, `List["Node"] | None`. -/
theorem array_of_self_evaluable (item : Resolved) (k : Kind) (hk : evalKind item.ty = some k)
    (hq : item.isForwardRef = true → '"' ∉ render item.ty) (required : Bool)
    (a : Ann) (ha : formatResolved (listOf item required) = some a) : evalOK a = true :=
  listOf_evaluable item k hk hq required a ha

example : (formatResolved (resolveTree (.arr (.model (s "Node") true)) false)).map render
    = some (s "List[\"Node\"] | None") := by decide +kernel

/-! ## (d) exception aliases -/

/-- `aliases_cover_raises` at full strength (F3 repaired: a declared 1xx/3xx status raises the base class instead of importing a
    non-existent `Error<code>`): every alias class that some operation's handler raises and imports IS generated - for all
    specs (`ops` = the numeric response codes of each operation). -/
theorem aliases_cover_raises (ops : List (List Nat)) (op : List Nat) (hop : op ∈ ops)
    (c : Nat) (hc : c ∈ raisedCodes op) :
    aliasName c ∈ generatedAliases ops.flatten := by
  have h := (mem_raisedCodes c op).mp hc
  unfold generatedAliases
  apply List.mem_map_of_mem
  rw [mem_generatedCodes]
  exact ⟨List.mem_flatten.mpr ⟨op, hop, h.1⟩, h.2.2⟩

/-- … and every declared 4xx/5xx code IS raised through its alias (its text never starts with `2`). -/
theorem error_codes_are_raised (op : List Nat) (c : Nat) (hc : c ∈ op) (herr : isErrorCode c = true) :
    c ∈ raisedCodes op :=
  (mem_raisedCodes c op).mpr ⟨hc, error_code_not_2xx_text c herr, herr⟩

example : aliasName 404 ∈ generatedAliases [[200, 404], [201, 503]].flatten :=
  aliases_cover_raises [[200, 404], [201, 503]] [200, 404] (by decide) 404 (by decide +kernel)

example : raisedAliases [200, 404, 503] = [s "NotFoundError", s "ServiceUnavailableError"] ∧
    generatedAliases [200, 404, 503] = [s "NotFoundError", s "ServiceUnavailableError"] := by decide +kernel

/-- The shapes that used to import a class nobody generates: a declared redirect / informational code raises no alias. -/
theorem declared_non_error_codes_raise_no_alias :
    raisedAliases [200, 302] = [] ∧ generatedAliases [200, 302] = [] ∧
    raisedAliases [101, 404] = [s "NotFoundError"] ∧ generatedAliases [101, 404] = [s "NotFoundError"] := by
  decide +kernel

end Pog.C01
