import Std.Data.String.ToNat
import Pog.Model.Registry
/-
  Lemmas about the status tables and the exception-alias registry model.
  Table-level facts are closed by `decide`/`decide +kernel` on the GENERATED tables, the bounds of
  the three ranges are only used through the three `*_gen` facts below.
-/
namespace Pog.Reg
open Pog

/-! ## decimal rendering (self-contained copies, so that this file only depends on the model) -/

theorem natStr_inj {i j : Nat} (h : natStr i = natStr j) : i = j :=
  Nat.repr_injective (String.toList_injective h)

theorem natStr_eq (k : Nat) : natStr k = Nat.toDigits 10 k := by
  simp [natStr, Nat.repr]

theorem natStr_ne_nil (k : Nat) : natStr k ≠ [] := by
  rw [natStr_eq]; exact Nat.toDigits_ne_nil

theorem natStr_digits (k : Nat) : ∀ c ∈ natStr k, isDigitA c = true := by
  intro c hc
  rw [natStr_eq] at hc
  have := Nat.isDigit_of_mem_toDigits (by decide) (by decide) hc
  have h1 : 48 ≤ c.toNat ∧ c.toNat ≤ 57 := by
    simpa [Char.isDigit, UInt32.le_iff_toNat_le] using this
  simpa [isDigitA, Char.le_def, UInt32.le_iff_toNat_le] using h1

theorem isIdChar_of_digit {c : Char} (h : isDigitA c = true) : isIdChar c = true := by
  simp [isIdChar, isAlnumA, h]

/-! ## ranges (facts about the generated bounds) -/

/-- The ranges the code uses are exactly `[400,500)`, `[500,600)` and `[400,600)`. -/
theorem bounds_gen :
    Gen.isClientErrorLo = 400 ∧ Gen.isClientErrorHi = 500 ∧
    Gen.isServerErrorLo = 500 ∧ Gen.isServerErrorHi = 600 ∧
    Gen.isErrorCodeLo = 400 ∧ Gen.isErrorCodeHi = 600 := by decide

/-- The two specific ranges tile the error range (needs only these relations between the bounds). -/
theorem tiling_gen :
    Gen.isErrorCodeLo = Gen.isClientErrorLo ∧ Gen.isClientErrorHi = Gen.isServerErrorLo ∧
    Gen.isServerErrorHi = Gen.isErrorCodeHi ∧ Gen.isClientErrorLo ≤ Gen.isClientErrorHi ∧
    Gen.isServerErrorLo ≤ Gen.isServerErrorHi := by decide

theorem isErrorCode_iff (n : Nat) : isErrorCode n = true ↔ Gen.isErrorCodeLo ≤ n ∧ n < Gen.isErrorCodeHi := by
  simp [isErrorCode]
theorem isClientError_iff (n : Nat) :
    isClientError n = true ↔ Gen.isClientErrorLo ≤ n ∧ n < Gen.isClientErrorHi := by
  simp [isClientError]
theorem isServerError_iff (n : Nat) :
    isServerError n = true ↔ Gen.isServerErrorLo ≤ n ∧ n < Gen.isServerErrorHi := by
  simp [isServerError]

/-- `is_error_code` = `is_client_error or is_server_error`: the `else: continue` is dead for the
    codes the visitor produces. -/
theorem isErrorCode_iff_client_or_server (n : Nat) :
    isErrorCode n = true ↔ (isClientError n = true ∨ isServerError n = true) := by
  rw [isErrorCode_iff, isClientError_iff, isServerError_iff]
  obtain ⟨h1, h2, h3, h4, h5⟩ := tiling_gen
  omega

theorem aliasBase_client {n : Nat} (h : isClientError n = true) : aliasBase n = some .clientError := by
  simp [aliasBase, h]

theorem aliasBase_server {n : Nat} (h : isServerError n = true) (h' : isClientError n = false) :
    aliasBase n = some .serverError := by
  simp [aliasBase, h, h']

/-- the two ranges do not overlap (so the `elif` order is immaterial) -/
theorem client_server_disjoint (n : Nat) : ¬ (isClientError n = true ∧ isServerError n = true) := by
  rw [isClientError_iff, isServerError_iff]
  obtain ⟨h1, h2, h3, h4, h5⟩ := tiling_gen
  omega

theorem aliasBase_isSome_iff (n : Nat) : (aliasBase n).isSome = true ↔ isErrorCode n = true := by
  rw [isErrorCode_iff_client_or_server]
  unfold aliasBase
  cases h1 : isClientError n <;> cases h2 : isServerError n <;> simp

/-! ## sorting -/

theorem mem_insertNat (a x : Nat) (l : List Nat) : a ∈ insertNat x l ↔ a = x ∨ a ∈ l := by
  induction l with
  | nil => simp [insertNat]
  | cons y ys ih =>
    unfold insertNat
    split
    · simp
    · simp only [List.mem_cons, ih]
      constructor
      · rintro (h | h | h) <;> simp [h]
      · rintro (h | h | h) <;> simp [h]

theorem mem_sortedNat (a : Nat) (l : List Nat) : a ∈ sortedNat l ↔ a ∈ l := by
  induction l with
  | nil => simp [sortedNat]
  | cons y ys ih =>
    have : sortedNat (y :: ys) = insertNat y (sortedNat ys) := rfl
    rw [this, mem_insertNat, ih]; simp

theorem mem_insertUniq (a x : Nat) (l : List Nat) : a ∈ insertUniq x l ↔ a = x ∨ a ∈ l := by
  induction l with
  | nil => simp [insertUniq]
  | cons y ys ih =>
    unfold insertUniq
    split
    · simp
    · split
      · rename_i h; subst h; simp
      · simp only [List.mem_cons, ih]
        constructor
        · rintro (h | h | h) <;> simp [h]
        · rintro (h | h | h) <;> simp [h]

theorem mem_sortUniq (a : Nat) (l : List Nat) : a ∈ sortUniq l ↔ a ∈ l := by
  induction l with
  | nil => simp [sortUniq]
  | cons y ys ih =>
    have : sortUniq (y :: ys) = insertUniq y (sortUniq ys) := rfl
    rw [this, mem_insertUniq, ih]; simp

theorem insertUniq_sorted (x : Nat) (l : List Nat) (h : l.Pairwise (· < ·)) :
    (insertUniq x l).Pairwise (· < ·) := by
  induction l with
  | nil => simp [insertUniq]
  | cons y ys ih =>
    rw [List.pairwise_cons] at h
    unfold insertUniq
    split
    · rename_i hxy
      refine List.pairwise_cons.mpr ⟨?_, List.pairwise_cons.mpr h⟩
      intro a ha
      rcases List.mem_cons.mp ha with rfl | ha
      · exact hxy
      · exact Nat.lt_trans hxy (h.1 a ha)
    · split
      · exact List.pairwise_cons.mpr h
      · rename_i h1 h2
        refine List.pairwise_cons.mpr ⟨?_, ih h.2⟩
        intro a ha
        rcases (mem_insertUniq a x ys).mp ha with rfl | ha
        · omega
        · exact h.1 a ha

/-- `sortUniq` really is `sorted(set(·))`: strictly increasing (hence duplicate-free) … -/
theorem sortUniq_sorted (l : List Nat) : (sortUniq l).Pairwise (· < ·) := by
  induction l with
  | nil => simp [sortUniq]
  | cons y ys ih => exact insertUniq_sorted y _ ih

theorem insertNat_sorted (x : Nat) (l : List Nat) (h : l.Pairwise (· ≤ ·)) :
    (insertNat x l).Pairwise (· ≤ ·) := by
  induction l with
  | nil => simp [insertNat]
  | cons y ys ih =>
    rw [List.pairwise_cons] at h
    unfold insertNat
    split
    · rename_i hxy
      refine List.pairwise_cons.mpr ⟨?_, List.pairwise_cons.mpr h⟩
      intro a ha
      rcases List.mem_cons.mp ha with rfl | ha
      · exact hxy
      · exact Nat.le_trans hxy (h.1 a ha)
    · rename_i h1
      refine List.pairwise_cons.mpr ⟨?_, ih h.2⟩
      intro a ha
      rcases (mem_insertNat a x ys).mp ha with rfl | ha
      · omega
      · exact h.1 a ha

theorem sortedNat_sorted (l : List Nat) : (sortedNat l).Pairwise (· ≤ ·) := by
  induction l with
  | nil => simp [sortedNat]
  | cons y ys ih => exact insertNat_sorted y _ ih

/-- … with the same elements. -/
theorem mem_specCodes (a : Nat) (d : List Nat) : a ∈ specCodes d ↔ a ∈ d ∧ isErrorCode a = true := by
  simp [specCodes, mem_sortUniq]

theorem mem_genFor (a : Nat) (l : List Nat) : a ∈ genFor l ↔ a ∈ l ∧ isErrorCode a = true := by
  simp [genFor, aliasBase_isSome_iff]

/-- On the visitor's output the base-class loop skips nothing. -/
theorem genFor_specCodes (d : List Nat) : genFor (specCodes d) = specCodes d := by
  unfold genFor
  rw [List.filter_eq_self]
  intro a ha
  exact (aliasBase_isSome_iff a).mpr ((mem_specCodes a d).mp ha).2

/-! ## python dict assignment on the association list -/

theorem mem_regSet_self (c : Str) (codes : List Nat) (reg : List (Str × List Nat)) :
    (c, codes) ∈ regSet c codes reg := by
  induction reg with
  | nil => simp [regSet]
  | cons kv rest ih =>
    obtain ⟨k, v⟩ := kv
    unfold regSet
    split
    · rename_i h; subst h; simp
    · exact List.mem_cons_of_mem _ ih

theorem mem_regSet (c : Str) (codes : List Nat) (reg : List (Str × List Nat)) (k : Str) (v : List Nat)
    (h : (k, v) ∈ regSet c codes reg) : (k, v) = (c, codes) ∨ (k, v) ∈ reg := by
  induction reg with
  | nil => simpa [regSet] using h
  | cons kv rest ih =>
    obtain ⟨k0, v0⟩ := kv
    unfold regSet at h
    split at h
    · rename_i hk; subst hk
      rcases List.mem_cons.mp h with h | h
      · exact Or.inl h
      · exact Or.inr (List.mem_cons_of_mem _ h)
    · rcases List.mem_cons.mp h with h | h
      · exact Or.inr (h ▸ List.mem_cons_self)
      · rcases ih h with h | h
        · exact Or.inl h
        · exact Or.inr (List.mem_cons_of_mem _ h)

/-- Entries of OTHER clients survive the assignment. -/
theorem mem_regSet_of_ne (c : Str) (codes : List Nat) (reg : List (Str × List Nat)) (k : Str) (v : List Nat)
    (hne : k ≠ c) (h : (k, v) ∈ reg) : (k, v) ∈ regSet c codes reg := by
  induction reg with
  | nil => cases h
  | cons kv rest ih =>
    obtain ⟨k0, v0⟩ := kv
    unfold regSet
    split
    · rename_i hk; subst hk
      rcases List.mem_cons.mp h with h | h
      · cases h; exact absurd rfl hne
      · exact List.mem_cons_of_mem _ h
    · rcases List.mem_cons.mp h with h | h
      · exact h ▸ List.mem_cons_self
      · exact List.mem_cons_of_mem _ (ih h)

/-- The assignment keeps the set of keys plus `c`; no second entry for `c` is created. -/
theorem keys_regSet (c : Str) (codes : List Nat) (reg : List (Str × List Nat)) :
    (regSet c codes reg).map (·.1) = if c ∈ reg.map (·.1) then reg.map (·.1) else reg.map (·.1) ++ [c] := by
  induction reg with
  | nil => simp [regSet]
  | cons kv rest ih =>
    obtain ⟨k0, v0⟩ := kv
    unfold regSet
    split
    · rename_i hk; subst hk; simp
    · rename_i hk
      have hk' : ¬ c = k0 := fun h => hk h.symm
      simp only [List.map_cons, ih, List.mem_cons, hk', false_or]
      split <;> simp

theorem keys_nodup_regSet (c : Str) (codes : List Nat) (reg : List (Str × List Nat))
    (h : (reg.map (·.1)).Nodup) : ((regSet c codes reg).map (·.1)).Nodup := by
  rw [keys_regSet]
  split
  · exact h
  · rename_i hc
    rw [List.nodup_append]
    refine ⟨h, by simp, ?_⟩
    intro a ha b hb
    simp at hb
    subst hb
    intro hab
    exact hc (hab ▸ ha)

theorem mem_allCodes (a : Nat) (reg : List (Str × List Nat)) :
    a ∈ allCodes reg ↔ ∃ c codes, (c, codes) ∈ reg ∧ a ∈ codes := by
  simp only [allCodes, mem_sortUniq, List.mem_flatMap]
  constructor
  · rintro ⟨⟨c, codes⟩, h1, h2⟩; exact ⟨c, codes, h1, h2⟩
  · rintro ⟨c, codes, h1, h2⟩; exact ⟨(c, codes), h1, h2⟩

/-! ## one step -/

theorem usesRegistry_iff (g : Gen) :
    g.usesRegistry = true ↔ g.shared = true ∧ ∃ n, g.client = some n ∧ n ≠ [] := by
  unfold Gen.usesRegistry
  split
  · rename_i ch ct h; simp [h]
  · rename_i h
    constructor
    · intro hf; cases hf
    · rintro ⟨_, n, hn, hne⟩
      cases n with
      | nil => exact absurd rfl hne
      | cons a b => exact absurd hn (h a b)

theorem step_shared (s : State) (g : Gen) (c : Str) (hc : g.client = some c) (hg : g.usesRegistry = true) :
    step s g =
      ⟨regSet c (sortedNat (specCodes g.declared)) s.registry,
       genFor (allCodes (regSet c (sortedNat (specCodes g.declared)) s.registry))⟩ := by
  obtain ⟨hs, n, hn, hne⟩ := (usesRegistry_iff g).mp hg
  rw [hc] at hn; cases hn
  cases c with
  | nil => exact absurd rfl hne
  | cons a b => simp [step, hc, hs]

theorem step_unshared (s : State) (g : Gen) (hg : g.usesRegistry = false) :
    step s g = ⟨s.registry, specCodes g.declared⟩ := by
  unfold Gen.usesRegistry at hg
  unfold step
  split
  · rename_i ch ct h
    rw [h] at hg
    simp at hg
    simp [hg, genFor_specCodes]
  · simp [genFor_specCodes]

/-- After a registry step the alias file holds exactly the error-range codes of the registry —
    whatever the previous state was (a registry step repairs an overwritten alias file). -/
theorem mem_step_aliases (s : State) (g : Gen) (hg : g.usesRegistry = true) (a : Nat) :
    a ∈ (step s g).aliases ↔
      (∃ c codes, (c, codes) ∈ (step s g).registry ∧ a ∈ codes) ∧ isErrorCode a = true := by
  obtain ⟨_, n, hn, _⟩ := (usesRegistry_iff g).mp hg
  rw [step_shared s g n hn hg]
  simp only [mem_genFor, mem_allCodes]

/-- Registry values are error codes only (true of every registry written by the emitter). -/
def RegErr (reg : List (Str × List Nat)) : Prop :=
  ∀ c codes, (c, codes) ∈ reg → ∀ a ∈ codes, isErrorCode a = true

theorem regErr_step (s : State) (g : Gen) (h : RegErr s.registry) : RegErr (step s g).registry := by
  cases hg : g.usesRegistry with
  | false => rw [step_unshared s g hg]; exact h
  | true =>
    obtain ⟨_, n, hn, _⟩ := (usesRegistry_iff g).mp hg
    rw [step_shared s g n hn hg]
    intro c codes hm a ha
    rcases mem_regSet _ _ _ _ _ hm with hm | hm
    · cases hm
      exact ((mem_specCodes a _).mp ((mem_sortedNat a _).mp ha)).2
    · exact h c codes hm a ha

/-! ## histories -/

theorem run_snoc (hist : List Gen) (g : Gen) : run (hist ++ [g]) = step (run hist) g := by
  simp [run, List.foldl_append]

theorem needs_snoc (hist : List Gen) (g : Gen) (c : Str) :
    needs (hist ++ [g]) c = if g.client = some c then specCodes g.declared else needs hist c := by
  unfold needs
  rw [List.reverse_append, List.reverse_singleton, List.singleton_append, List.find?_cons]
  by_cases h : g.client = some c <;> simp [h]

/-- the invariant carried along a history of registry steps -/
structure Inv (hist : List Gen) (s : State) : Prop where
  regErr : RegErr s.registry
  keys : (s.registry.map (·.1)).Nodup
  latest : ∀ c, (∃ g ∈ hist, g.client = some c) →
    ∃ codes, (c, codes) ∈ s.registry ∧ ∀ a, a ∈ codes ↔ a ∈ needs hist c
  aliases : ∀ a, a ∈ s.aliases ↔ ∃ c codes, (c, codes) ∈ s.registry ∧ a ∈ codes

theorem inv_empty : Inv [] State.empty where
  regErr := by intro c codes h; cases h
  keys := by simp [State.empty]
  latest := by rintro c ⟨g, hg, _⟩; cases hg
  aliases := by simp [State.empty]

theorem inv_step (hist : List Gen) (s : State) (g : Gen) (hi : Inv hist s) (hg : g.usesRegistry = true) :
    Inv (hist ++ [g]) (step s g) := by
  obtain ⟨_, n, hn, _⟩ := (usesRegistry_iff g).mp hg
  have hE := regErr_step s g hi.regErr
  refine ⟨hE, ?_, ?_, ?_⟩
  · rw [step_shared s g n hn hg]; exact keys_nodup_regSet _ _ _ hi.keys
  · intro c hc
    rw [needs_snoc]
    by_cases hcn : g.client = some c
    · rw [if_pos hcn]
      have : n = c := by rw [hn] at hcn; exact Option.some.inj hcn
      subst this
      rw [step_shared s g n hn hg]
      exact ⟨_, mem_regSet_self _ _ _, fun a => mem_sortedNat a _⟩
    · rw [if_neg hcn]
      obtain ⟨g', hg', hc'⟩ := hc
      have hin : ∃ g ∈ hist, g.client = some c := by
        rcases List.mem_append.mp hg' with h | h
        · exact ⟨g', h, hc'⟩
        · simp at h; subst h; exact absurd hc' hcn
      obtain ⟨codes, hm, hcodes⟩ := hi.latest c hin
      refine ⟨codes, ?_, hcodes⟩
      rw [step_shared s g n hn hg]
      refine mem_regSet_of_ne _ _ _ _ _ ?_ hm
      intro hcn'; subst hcn'; exact hcn hn
  · intro a
    rw [mem_step_aliases s g hg a]
    constructor
    · exact fun h => h.1
    · rintro ⟨c, codes, hm, ha⟩
      exact ⟨⟨c, codes, hm, ha⟩, hE c codes hm a ha⟩

theorem inv_foldl (pre hist : List Gen) (s : State) (hi : Inv pre s)
    (hh : ∀ g ∈ hist, g.usesRegistry = true) : Inv (pre ++ hist) (hist.foldl step s) := by
  induction hist generalizing pre s with
  | nil => simpa using hi
  | cons g rest ih =>
    have h1 := inv_step pre s g hi (hh g List.mem_cons_self)
    have h2 := ih (pre ++ [g]) (step s g) h1 (fun g' hg' => hh g' (List.mem_cons_of_mem _ hg'))
    simpa [List.append_assoc] using h2

theorem inv_run (hist : List Gen) (hh : ∀ g ∈ hist, g.usesRegistry = true) : Inv hist (run hist) := by
  simpa [run] using inv_foldl [] hist State.empty inv_empty hh

/-! ## `_is_shared_core` -/

theorem length_parentDir (p : Path) : (parentDir p).length = p.length - 1 := by
  simp [parentDir]

theorem isSharedCore_some (r d : Path) :
    isSharedCore (some r) d = true ↔ (parentDir d = r ∨ parentDir (parentDir d) = r) := by
  simp [isSharedCore]

theorem parentDir_snoc (r : Path) (x : Str) : parentDir (r ++ [x]) = r := by
  simp [parentDir]

theorem isSharedCore_append (r comps : Path) :
    isSharedCore (some r) (r ++ comps) = true ↔
      (comps.length = 1 ∨ comps.length = 2 ∨ (r = [] ∧ comps = [])) := by
  rw [isSharedCore_some]
  constructor
  · intro h
    have hl : comps.length = 1 ∨ comps.length = 2 ∨ (r.length = 0 ∧ comps.length = 0) := by
      rcases h with h | h
      · have := congrArg List.length h
        simp only [length_parentDir, List.length_append] at this
        omega
      · have := congrArg List.length h
        simp only [length_parentDir, List.length_append] at this
        omega
    rcases hl with h | h | ⟨h1, h2⟩
    · exact Or.inl h
    · exact Or.inr (Or.inl h)
    · exact Or.inr (Or.inr ⟨List.length_eq_zero_iff.mp h1, List.length_eq_zero_iff.mp h2⟩)
  · rintro (h | h | ⟨h1, h2⟩)
    · match comps, h with
      | [x], _ => exact Or.inl (parentDir_snoc r x)
    · match comps, h with
      | [x, y], _ =>
        right
        have : r ++ [x, y] = (r ++ [x]) ++ [y] := by simp
        rw [this, parentDir_snoc, parentDir_snoc]
    · subst h1; subst h2; left; rfl

/-- Whenever the heuristic answers `True`, the core directory lies at most two levels below the
    project root. -/
theorem isSharedCore_prefix (r d : Path) (h : isSharedCore (some r) d = true) :
    ∃ comps, d = r ++ comps ∧ comps.length ≤ 2 := by
  have key : ∀ p : Path, ∃ t, p = parentDir p ++ t ∧ t.length ≤ 1 := by
    intro p
    by_cases hp : p = []
    · subst hp; exact ⟨[], by simp [parentDir]⟩
    · exact ⟨[p.getLast hp], by simp [parentDir, List.dropLast_concat_getLast]⟩
  rcases (isSharedCore_some r d).mp h with h | h
  · obtain ⟨t, ht, hl⟩ := key d
    exact ⟨t, by rw [← h]; exact ht, by omega⟩
  · obtain ⟨t, ht, hl⟩ := key d
    obtain ⟨t', ht', hl'⟩ := key (parentDir d)
    refine ⟨t' ++ t, ?_, by simp; omega⟩
    rw [← h, ← List.append_assoc, ← ht', ← ht]

/-! ## the alias-name table -/

/-- `"Error" ++ digits` -/
def isFallbackShaped (name : Str) : Bool :=
  startsWith name Gen.exceptionFallbackPrefix && (name.drop Gen.exceptionFallbackPrefix.length).all isDigitA

theorem fallback_isFallbackShaped (n : Nat) :
    isFallbackShaped (Gen.exceptionFallbackPrefix ++ natStr n) = true := by
  unfold isFallbackShaped startsWith
  simp only [Bool.and_eq_true, List.all_eq_true]
  refine ⟨?_, ?_⟩
  · simp
  · intro c hc
    simp at hc
    exact natStr_digits n c hc

/-- table-level: the keys of `HTTP_EXCEPTION_NAMES` are distinct (it is a dict) -/
theorem table_keys_nodup_gen : (Gen.httpExceptionNames.map (·.1)).Nodup := by decide +kernel

/-- table-level: alias names of the table rows are pairwise distinct (after the rename) -/
theorem table_names_nodup_gen : (Gen.httpExceptionNames.map (fun r => aliasName r.1)).Nodup := by
  decide +kernel

/-- table-level: no alias name of a table row looks like the fallback `Error<digits>` -/
theorem table_not_fallback_gen :
    ∀ r ∈ Gen.httpExceptionNames, isFallbackShaped (aliasName r.1) = false := by decide +kernel

/-- table-level: no alias name of a table row is a python builtin -/
theorem table_not_builtin_gen :
    ∀ r ∈ Gen.httpExceptionNames, aliasName r.1 ∉ Gen.pyBuiltins := by decide +kernel

/-- table-level: alias names of table rows are identifiers -/
theorem table_ident_gen : ∀ r ∈ Gen.httpExceptionNames, isPyIdent (aliasName r.1) = true := by
  decide +kernel

/-- table-level: the fallback prefix is itself an identifier -/
theorem prefix_ident_gen : isPyIdent Gen.exceptionFallbackPrefix = true := by decide

theorem lookup_some_mem {α} (l : List (Nat × α)) (k : Nat) (v : α) (h : l.lookup k = some v) :
    (k, v) ∈ l := by
  induction l with
  | nil => simp at h
  | cons kv rest ih =>
    obtain ⟨k0, v0⟩ := kv
    rw [List.lookup_cons] at h
    split at h
    · rename_i hk
      have hk' : k = k0 := by simpa using hk
      cases h; subst hk'; exact List.mem_cons_self
    · exact List.mem_cons_of_mem _ (ih h)

theorem lookup_none_not_mem {α} (l : List (Nat × α)) (k : Nat) (h : l.lookup k = none) :
    k ∉ l.map (·.1) := by
  induction l with
  | nil => simp
  | cons kv rest ih =>
    obtain ⟨k0, v0⟩ := kv
    rw [List.lookup_cons] at h
    split at h
    · cases h
    · rename_i hk
      have hk' : ¬ k = k0 := by simpa using hk
      simp only [List.map_cons, List.mem_cons, not_or]
      exact ⟨hk', ih h⟩

theorem aliasName_fallback (c : Nat) (h : Gen.httpExceptionNames.lookup c = none) :
    aliasName c = Gen.exceptionFallbackPrefix ++ natStr c := by
  simp [aliasName, h]

theorem inTable_cases (c : Nat) :
    (∃ n, (c, n) ∈ Gen.httpExceptionNames) ∨ Gen.httpExceptionNames.lookup c = none := by
  cases h : Gen.httpExceptionNames.lookup c with
  | none => exact Or.inr rfl
  | some n => exact Or.inl ⟨n, lookup_some_mem _ _ _ h⟩

theorem nodup_map_inj {α β} (f : α → β) (l : List α) (h : (l.map f).Nodup) (a b : α)
    (ha : a ∈ l) (hb : b ∈ l) (hab : f a = f b) : a = b := by
  induction l with
  | nil => cases ha
  | cons x xs ih =>
    rw [List.map_cons, List.nodup_cons] at h
    rcases List.mem_cons.mp ha with ha1 | ha1 <;> rcases List.mem_cons.mp hb with hb1 | hb1
    · rw [ha1, hb1]
    · exact absurd (ha1 ▸ hab ▸ List.mem_map_of_mem (f := f) hb1) h.1
    · exact absurd (hb1 ▸ hab.symm ▸ List.mem_map_of_mem (f := f) ha1) h.1
    · exact ih h.2 ha1 hb1

/-- `get_exception_class_name` is injective on ALL codes. -/
theorem aliasName_injective (c c' : Nat) (h : aliasName c = aliasName c') : c = c' := by
  rcases inTable_cases c with ⟨n, hn⟩ | hc <;> rcases inTable_cases c' with ⟨n', hn'⟩ | hc'
  · have := nodup_map_inj (fun r : Nat × List Char => aliasName r.1) _ table_names_nodup_gen
      (c, n) (c', n') hn hn' h
    exact congrArg Prod.fst this
  · have h1 := table_not_fallback_gen (c, n) hn
    rw [show aliasName (c, n).1 = aliasName c' from h, aliasName_fallback c' hc',
      fallback_isFallbackShaped] at h1
    cases h1
  · have h1 := table_not_fallback_gen (c', n') hn'
    rw [show aliasName (c', n').1 = aliasName c from h.symm, aliasName_fallback c hc,
      fallback_isFallbackShaped] at h1
    cases h1
  · rw [aliasName_fallback c hc, aliasName_fallback c' hc'] at h
    exact natStr_inj (List.append_cancel_left h)

theorem fallback_ident (n : Nat) : isPyIdent (Gen.exceptionFallbackPrefix ++ natStr n) = true := by
  have hp := prefix_ident_gen
  revert hp
  generalize Gen.exceptionFallbackPrefix = p
  intro hp
  cases p with
  | nil => cases hp
  | cons a as =>
    simp only [isPyIdent, Bool.and_eq_true, List.all_eq_true, List.cons_append] at hp ⊢
    refine ⟨hp.1, ?_⟩
    intro x hx
    rcases List.mem_append.mp hx with hx | hx
    · exact hp.2 x hx
    · exact isIdChar_of_digit (natStr_digits n x hx)

theorem aliasName_ident (c : Nat) : isPyIdent (aliasName c) = true := by
  rcases inTable_cases c with ⟨n, hn⟩ | hc
  · exact table_ident_gen (c, n) hn
  · rw [aliasName_fallback c hc]; exact fallback_ident c

end Pog.Reg
