"""C12 — generated clients are self-contained (no dependency on the generator).

proof  : Pog.Props.C12 over tables regenerated from source (imports of every runtime file; every import pattern the generator can
         request or embed; sys.stdlib_module_names)
tie    : the table is the tie; its completeness is validated here: every import statement of every emitted file must be an
         instance of a table pattern (or relative / own package / core package)
oracle : AST scan of every emitted file (top-level, nested, TYPE_CHECKING imports), import run with the generator blocked,
         sha256 of each runtime file against the generator's shipped file.
"""
from __future__ import annotations

import ast
import hashlib
import json
import sys
from pathlib import Path

from .. import e2e, extract_tables, findings
from ..common import Run, rng, SRC
from ..gen import spec as gs

PROP = "C12"
LAYOUTS = [("client", None), ("pkg.client", None), ("client", "core"), ("pkg.client", "pkg.core"), ("a.client", "shared.core"), ("a.b.client", "a.b.core")]
ALLOWED_THIRD = {"httpx", "cattrs"}


def scan_imports(root: Path) -> list[dict]:
    rows = []
    for f in sorted(root.rglob("*.py")):
        rel = str(f.relative_to(root))
        try:
            tree = ast.parse(f.read_text(encoding="utf-8"))
        except SyntaxError as e:
            rows.append({"file": rel, "syntax_error": str(e)})
            continue
        for n in ast.walk(tree):
            if isinstance(n, ast.Import):
                for a in n.names:
                    rows.append({"file": rel, "level": 0, "module": a.name, "line": n.lineno})
            elif isinstance(n, ast.ImportFrom):
                rows.append({"file": rel, "level": n.level, "module": n.module or "", "line": n.lineno})
    return rows


def case_fn(case: dict, d):
    root = d / "proj"
    if case.get("stale_core"):
        # a core package left behind by an earlier generator version / edited by hand: every runtime file is present with
        # DIFFERENT bytes (same size, one shorter, one longer) - regeneration must replace them with the shipped ones
        core_pkg0 = case.get("core") or case["package"] + ".core"
        core_dir0 = root.joinpath(*core_pkg0.split("."))
        mod = extract_tables.parse("emitters/core_emitter.py")
        for k, (module, filename, rel_dst) in enumerate(ast.literal_eval(extract_tables.assign_value(mod, "RUNTIME_FILES"))):
            src = SRC.joinpath(*module.split("."), filename).read_bytes()
            dst = core_dir0 / rel_dst.replace("core/", "", 1)
            dst.parent.mkdir(parents=True, exist_ok=True)
            kind = (k + case.get("stale_core", 1)) % 3
            body = bytes(src)
            if body:
                i = max(0, len(body) // 2)
                stale = body[:i] + (b"#" if body[i:i + 1] != b"#" else b"!") + body[i + 1:]     # same size, other content
                if kind == 1:
                    stale = stale[:-1] if len(stale) > 1 else stale + b"#"
                elif kind == 2:
                    stale = stale + b"# stale\n"
            else:
                stale = b"# stale\n"
            dst.write_bytes(stale)
    for pre in case.get("prelude", []):
        # earlier generations IN THIS PROCESS (other project root, other core package, possibly the same status codes): nothing of them
        # may show up in what is generated next
        e2e.generate(pre["doc"], d / pre["root"], package=pre["package"], core=pre.get("core"))
    for sib in case.get("siblings", []):
        e2e.generate(sib["doc"], root, package=sib["package"], core=case.get("core"))      # other clients of the SAME shared core
    gen = e2e.generate(case["doc"], root, package=case["package"], core=case.get("core"))
    if not gen["ok"]:
        return {"gen_ok": False, "gen_error": gen["error"]}
    rows = scan_imports(root)
    core_pkg = case.get("core") or case["package"] + ".core"
    core_dir = root.joinpath(*core_pkg.split("."))
    hashes = {}
    for f in sorted(core_dir.rglob("*")):
        if f.is_file() and "__pycache__" not in f.parts:
            hashes[str(f.relative_to(core_dir))] = hashlib.sha256(f.read_bytes()).hexdigest()
    pr = e2e.probe(root, case["package"], case.get("core"), ["import_all"])
    return {"gen_ok": True, "imports": rows, "core_hashes": hashes, "probe": pr}


def runtime_sources() -> dict[str, str]:
    """relative path below core -> sha256 of the file the generator ships (RUNTIME_FILES read from source with ast)."""
    mod = extract_tables.parse("emitters/core_emitter.py")
    files = ast.literal_eval(extract_tables.assign_value(mod, "RUNTIME_FILES"))
    out = {}
    for module, filename, rel_dst in files:
        src = SRC.joinpath(*module.split("."), filename)
        out[rel_dst.replace("core/", "", 1)] = hashlib.sha256(src.read_bytes()).hexdigest()
    return out


def pattern_matches(pat: str, module: str) -> bool:
    import re
    rx = "^" + ".*".join(re.escape(p) for p in pat.split("{}")) + "$"
    return re.match(rx, module) is not None


def judge(case: dict, res: dict, rt: dict[str, str], patterns: list[tuple[str, str]]) -> list[tuple[str, str, dict]]:
    fails = []
    pkg, core = case["package"], case.get("core") or case["package"] + ".core"
    std = set(sys.stdlib_module_names)
    for row in res["imports"]:
        if "syntax_error" in row:
            continue   # C01's business
        if row["level"] > 0:
            continue
        m = row["module"]
        top = m.split(".")[0]
        owns = [pkg, core] + [sb["package"] for sb in case.get("siblings", [])]
        own = any(m == o or m.startswith(o + ".") for o in owns)
        if top == "pyopenapi_gen":
            fails.append(("imports-generator", f"{row['file']}:{row['line']} imports {m}", row))
        elif not (own or top in std or top in ALLOWED_THIRD):
            cls = "runtime-utils-imports-black" if (row["file"].endswith("core/utils.py") or row["file"].endswith("utils.py")) and top == "black" else "foreign-import"
            fails.append((cls, f"{row['file']}:{row['line']} imports {m}", row))
        # completeness of the pattern table (the tie): an absolute import that no table pattern explains
        if not own and not any(pattern_matches(p, m) for _, p in patterns) and not row["file"].startswith(tuple(core.replace(".", "/") + "/" + f for f in rt)):
            fails.append(("import-not-in-table", f"{row['file']}:{row['line']} imports {m}: not an instance of any extracted pattern", row))
    for rel, h in rt.items():
        got = res["core_hashes"].get(rel)
        if got != h:
            fails.append(("runtime-file-differs", f"core/{rel}: emitted sha256 {str(got)[:12]} != shipped {h[:12]}", {"file": rel}))
    ia = res["probe"].get("import_all", {}) if isinstance(res["probe"], dict) else {}
    for e in ia.get("errors", []):
        if "blocked: the generator package" in e.get("msg", "") or "pyopenapi_gen" in e.get("msg", ""):
            fails.append(("needs-generator-at-runtime", f"{e['module']}: {e['msg']}", e))
    for f in ia.get("foreign", []):
        fails.append(("foreign-module-loaded", f"importing the package loaded {f}", {"module": f}))
    return fails


CLASSES = {"runtime-utils-imports-black": "F38"}


def check(run: Run, ctx) -> None:
    known = findings.Known(run, PROP)
    from . import _generic as g
    g.run_corr(run, ctx, "vf.corr.c01", "Imports (RenderContext.add_import classification, relative paths)", quick=0.3, thorough=3.0)
    rt = runtime_sources()
    pats, dyn = extract_tables.generator_import_patterns()
    patterns = [(k, m) for _, k, m in pats if m.strip("{}.") != ""]   # a bare hole explains nothing
    run.cov["rule"] = ("every import statement (any nesting, incl. TYPE_CHECKING) of every emitted file of seeded random documents x 6 core layouts is classified "
                       "(relative / own package / core package / stdlib / httpx / cattrs / other) and matched against the extracted pattern table; runtime files "
                       "compared by sha256 with the shipped ones (every second case starts from a core directory holding stale runtime files of the same / smaller / larger size); package imported with the generator blocked. distinct by (document, layout); non-trivial when models and endpoints exist")
    cases = []
    for i in range(ctx.budget(24, 240)):
        r = rng(f"C12:{i}")
        o = gs.Opts(mainstream=True, unions=(i % 3 == 0), streaming=(i % 4 == 0), multi_content=(i % 5 == 0), formats=("date-time", "date", "byte", "uuid"), yaml_media=(i % 2 == 0), multi_media_resp=(i % 4 == 1))
        pkg, core = LAYOUTS[i % len(LAYOUTS)]
        cases.append({"id": f"c12-{i}", "doc": gs.gen_spec(r, o), "package": pkg, "core": core, "stale_core": (1 + i % 3) if i % 2 else 0})
    # shared cores with the SAME union of status codes generated one after the other in one process (two project roots, two core packages)
    def codes_doc(title, codes):
        return {"openapi": "3.0.3", "info": {"title": title, "version": "1"}, "components": {"schemas": {}}, "paths": {"/x": {"get": {
            "operationId": "getX", "responses": {"200": {"description": "ok"}, **{str(c): {"description": f"e{c}"} for c in codes}}}}}}
    for j, (ca, cb) in enumerate([([404], [404, 500]), ([409, 422], [409, 422, 503]), ([], [401])][: ctx.budget(2, 3)]):
        cases.append({"id": f"c12-shared-{j}", "doc": codes_doc("D", ca), "package": "backoffice.admin", "core": "backoffice.core", "stale_core": 0,
                      "siblings": [{"doc": codes_doc("C", cb), "package": "backoffice.reports"}],
                      "prelude": [{"doc": codes_doc("B", cb), "root": "other", "package": "shopfront.web", "core": "shopfront.core"},
                                  {"doc": codes_doc("A", ca), "root": "other", "package": "shopfront.mobile", "core": "shopfront.core"}]})
    results = e2e.run_cases("vf.props.C12:case_fn", cases)
    nimports = 0
    for case, res in zip(cases, results):
        if "infra_error" in res:
            run.infra_errors.append(res["infra_error"])
            continue
        if not res.get("gen_ok"):
            run.dist("generation", "rejected")
            continue
        nimports += len(res["imports"])
        run.count({"doc": case["doc"], "pkg": case["package"], "core": case.get("core")}, nontrivial=len(res["imports"]) > 40)
        run.cov["traces_validated_against_impl"] += 1
        run.dist("layout", f"{case['package']}|{case.get('core')}")
        fails = judge(case, res, rt, patterns)
        if not fails:
            run.sample({"id": case["id"], "package": case["package"], "core": case.get("core"), "import_statements": len(res["imports"]), "runtime_files_identical": len(rt)}, limit=4)
        for cls, msg, detail in fails:
            fid = CLASSES.get(cls)
            if fid and known.listed(fid):
                known.hit(fid, {"id": case["id"], "msg": msg})
            elif len(run.violations) < 5:
                run.violation("input", {k: case.get(k) for k in ("doc", "package", "core", "stale_core", "siblings", "prelude") if case.get(k) is not None}, observed=msg,
                              expected="only relative / own package / core package / stdlib / httpx / cattrs imports; runtime files byte-identical", what=f"{cls}: {msg}")
    run.cov["import_statements_classified"] = nimports
    run.cov["dynamic_import_call_sites"] = len(dyn)
    known.report_unreplayed()


def search(run: Run, ctx) -> None:
    check(run, ctx)


def replay(run: Run, ctx, rec) -> bool:
    case = {"id": "replay", **rec["case"]}
    res = e2e.run_cases("vf.props.C12:case_fn", [case], workers=1)[0]
    if not res.get("gen_ok"):
        return False
    pats, _ = extract_tables.generator_import_patterns()
    return bool([f for f in judge(case, res, runtime_sources(), [(k, m) for _, k, m in pats]) if CLASSES.get(f[0]) is None])
