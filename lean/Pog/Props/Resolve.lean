import Pog.Lemmas.Resolve
/-
  Property theorems about the schema type resolver (`OpenAPISchemaResolver`, model `Pog/Model/Resolve.lean`).
  (To be merged into the C01 / C02 / C12 files.)

    1  resolve_imports_cover                ✗ full statement false of the code
         resolve_imports_cover_counterexample_named_no_stem
         resolve_imports_cover_counterexample_enum_underlying
         resolve_imports_cover_counterexample_enum_nameless
         resolve_imports_cover_partial      (hypothesis: the resolution passes through neither bare return)
         format_table_cover                 (`decide` over the generated table)
    2  resolve_optional_iff_not_required    full
    3  union_members_nodup_and_cover        full
    4  self_import_only_in_models_package   full  (+ named_forward_ref_iff_self_import, no_forward_ref_outside_models)
    5  resolve_monotone_fuel                full  (+ resolve_monotone_fuel_le)
-/
namespace Pog.ResolveProps
open Pog Pog.Resolve

private def s (x : String) : Str := x.toList

/-- an `IRSchema()` with every field at its default -/
def blank (uid : Nat) : IR :=
  { uid := uid, name := none, genName := none, stem := none, ty := none, format := none, enumNonEmpty := false,
    boolEnum := [], items := none, hasProps := false, anyOf := none, oneOf := none, allOf := none }

/-- what the correspondence compares, as one decidable record: `ResolvedType` (python_type as text), the ordered
    `add_import` calls, and property 1 evaluated on the result -/
structure Summary where
  pythonType : Str
  optional : Bool
  forwardRef : Bool
  needsImport : Bool
  imports : Imps
  covered : Bool
  deriving DecidableEq, Repr

def summary (x : Resolved × Imps) : Summary :=
  { pythonType := render x.1.ann, optional := x.1.optional, forwardRef := x.1.forwardRef,
    needsImport := x.1.needsImport, imports := x.2, covered := coverOK x }

/-! ## 1. every name a resolved annotation uses has an import request -/

/-- TABLE-LEVEL (re-checked by `decide` whenever `Pog/Gen/Resolver.lean` is regenerated): every value of
    `format_mapping`, and the default of its `.get`, is a python builtin or is imported — under that very name — by
    the first matching arm of the `if python_type == …: context.add_import(…)` chain. -/
theorem format_table_ok : formatTableOK = true := by decide

/-- The same fact in the form `∀ (f, t) ∈ formatMapping, t builtin ∨ (t, _, t) ∈ formatImports`. -/
theorem format_table_cover :
    ∀ p ∈ Pog.Gen.formatMapping, p.2 ∈ builtinNames ∨ ∃ m, (p.2, m, p.2) ∈ Pog.Gen.formatImports := by
  intro p hp
  obtain ⟨f, pt⟩ := p
  have h := format_table_ok
  unfold formatTableOK at h
  simp only [Bool.and_eq_true, List.all_eq_true] at h
  have hp' := h.1 _ hp
  unfold fmtOK importFor at hp'
  simp only [Bool.or_eq_true, List.contains_iff_mem] at hp'
  rcases hp' with hb | hi
  · exact Or.inl hb
  · right
    cases hf : Pog.Gen.formatImports.find? (fun r => r.1 == pt) with
    | none => rw [hf] at hi; simp at hi
    | some row =>
      rw [hf] at hi
      obtain ⟨t, m, n⟩ := row
      have hn : n = pt := by simpa using hi
      have ht : t = pt := by simpa using List.find?_some hf
      subst hn
      subst ht
      exact ⟨m, List.mem_of_find?_eq_some hf⟩

/- ✗ resolve_imports_cover (FALSE of the code):
     resolve reg cur rel fuel s required underlying imps = some (r, imps') →
       ∀ n ∈ usedNames r, n ∈ builtinNames ∨ ∃ m, (m, n) ∈ imps'
   Two returns name a class without calling `context.add_import`:
     * `_resolve_named_schema` when `final_module_stem` is missing/empty
         (`return ResolvedType(python_type=class_name or "Any", is_optional=not required)`)      [resolve.named_no_stem_no_import]
     * `_resolve_string` on an enum that has a `generation_name`, reached when `resolve_underlying=True` or
       when the schema has no `name` (`return ResolvedType(python_type=schema.generation_name, …)`) [resolve.string_enum_no_import]
-/

/-- a named model (`name`, `generation_name`) whose `final_module_stem` was never set -/
def petNoStem : IR := { blank 1 with name := some (s "Pet"), genName := some (s "Pet"), ty := some (s "object") }

/-- a properly processed string enum: `name`, `generation_name`, `final_module_stem` all set -/
def statusEnum : IR :=
  { blank 1 with name := some (s "Status"), genName := some (s "Status"), stem := some (s "status"),
                 ty := some (s "string"), enumNonEmpty := true }

/-- an inline string enum that was given a `generation_name` but has no `name` -/
def statusEnumNameless : IR := { statusEnum with name := none }

/-- COUNTEREXAMPLE (class `resolve.named_no_stem_no_import`): the result is the bare name `Pet`, no import is
    requested, nothing marks it as a forward reference. -/
theorem resolve_imports_cover_counterexample_named_no_stem :
    (resolve [] none .absent 1 petNoStem true false []).map summary
      = some { pythonType := s "Pet", optional := false, forwardRef := false, needsImport := false, imports := [],
               covered := false } := by decide +kernel

/-- COUNTEREXAMPLE (class `resolve.string_enum_no_import`): with `resolve_underlying=True` the fully processed enum
    `Status` is resolved by `_resolve_string`, which returns the class name without importing it … -/
theorem resolve_imports_cover_counterexample_enum_underlying :
    (resolve [] none .absent 1 statusEnum true true []).map summary
      = some { pythonType := s "Status", optional := false, forwardRef := false, needsImport := false, imports := [],
               covered := false } := by decide +kernel

/-- … whereas with `resolve_underlying=False` the same schema is imported from its module. -/
example :
    (resolve [] none .absent 1 statusEnum true false []).map summary
      = some { pythonType := s "Status", optional := false, forwardRef := false, needsImport := true,
               imports := [(s "..models.status", s "Status")], covered := true } := by decide +kernel

/-- COUNTEREXAMPLE (class `resolve.string_enum_no_import`, nameless variant): no `name`, so `_resolve_named_schema`
    is skipped even with `resolve_underlying=False`. -/
theorem resolve_imports_cover_counterexample_enum_nameless :
    (resolve [] none .absent 1 statusEnumNameless true false []).map summary
      = some { pythonType := s "Status", optional := false, forwardRef := false, needsImport := false, imports := [],
               covered := false } := by decide +kernel

/-- the failing check is the failing property: `coverOK` decides `Covered` -/
theorem coverOK_iff_covered (x : Resolved × Imps) :
    coverOK x = true ↔ ∀ n ∈ usedNames x.1, n ∈ builtinNames ∨ ∃ m, (m, n) ∈ x.2 := coverOK_iff x

/-- PARTIAL: when the resolution of `s` passes through neither of the two bare returns (`hazardFree`, a decidable
    check that follows `resolve_schema` branch for branch with the same fuel), every UNQUOTED name of the resolved
    annotation is a python builtin (`str int float bool bytes dict`) or was requested through `context.add_import`
    (`List`, `Union`, `Any`, `Literal`, `date`, `datetime`, `time`, `UUID`, model classes); a top-level forward
    reference counts as quoted.  For all registries, contexts, fuel, flags and prior imports. -/
theorem resolve_imports_cover_partial {reg : List (Str × IR)} {cur : Option Str} {rel : RelMode} {fuel : Nat}
    {sch : IR} {required underlying : Bool} {imps imps' : Imps} {r : Resolved}
    (h : resolve reg cur rel fuel sch required underlying imps = some (r, imps'))
    (hz : hazardFree reg fuel sch underlying = true) :
    ∀ n ∈ usedNames r, n ∈ builtinNames ∨ ∃ m, (m, n) ∈ imps' :=
  resolve_covered fuel sch required underlying imps (r, imps') h hz

/-- the hazard check at a leaf is exactly "this is one of the two bare returns" -/
theorem leafHazard_iff (k : Leaf) (sch : IR) :
    leafHazard k sch = true ↔
      (k = .named ∧ truthy sch.stem = false) ∨ (k = .string ∧ sch.enumNonEmpty = true ∧ truthy sch.genName = true) := by
  cases k <;> simp [leafHazard]

/-- `anyOf: [Pet (models/pet.py), array of uuid strings, boolean enum [true]]` seen from an endpoint module -/
def sampleUnion : IR :=
  { blank 1 with
    anyOf := some [
      { blank 2 with name := some (s "Pet"), genName := some (s "Pet"), stem := some (s "pet"), ty := some (s "object") },
      { blank 3 with ty := some (s "array"),
                     items := some { blank 4 with ty := some (s "string"), format := some (s "uuid") } },
      { blank 5 with ty := some (s "boolean"), enumNonEmpty := true, boolEnum := [some true] }] }

/-- non-vacuity of `resolve_imports_cover_partial`: a union of a model, a `List[UUID]` and a `Literal[True]` is
    hazard free, resolves, and needs five imports. -/
example :
    hazardFree [] 3 sampleUnion false = true ∧
    (resolve [] (some (s "/out/endpoints/pet.py")) .absent 3 sampleUnion false false []).map summary
      = some { pythonType := s "Union[Pet, List[UUID], Literal[True]]", optional := true, forwardRef := false,
               needsImport := false, covered := true,
               imports := [(s "..models.pet", s "Pet"), (s "uuid", s "UUID"), (s "typing", s "List"),
                           (s "typing", s "Literal"), (s "typing", s "Union")] } := by decide +kernel

/-! ## 2. optional iff not required -/

/-- `is_optional = not required` in every branch: `required` flows unchanged through the registry fallbacks
    (by name, by type) and through allOf; arrays and unions resolve their parts with `required=True` but build their
    own result from the caller's flag. -/
theorem resolve_optional_iff_not_required {reg : List (Str × IR)} {cur : Option Str} {rel : RelMode} {fuel : Nat}
    {sch : IR} {required underlying : Bool} {imps imps' : Imps} {r : Resolved}
    (h : resolve reg cur rel fuel sch required underlying imps = some (r, imps')) :
    r.optional = !required :=
  resolve_optional fuel sch required underlying imps (r, imps') h

/-! ## 3. Union members -/

/-- the union loop is entered exactly for a non-empty `any_of`, or (no `any_of`, no `all_of`) a non-empty `one_of` -/
theorem dispatch_union {reg : List (Str × IR)} {sch : IR} {ru : Bool} {ms : List IR}
    (hd : dispatch reg sch ru = .union ms) :
    ms ≠ [] ∧ (sch.anyOf = some ms ∨ (sch.anyOf = none ∧ sch.allOf = none ∧ sch.oneOf = some ms)) := by
  unfold dispatch at hd
  split at hd
  · cases hd
  · dsimp only at hd
    split at hd
    · cases hd
    · split at hd
      · cases hd
      · rename_i m ms' ha
        cases hd
        exact ⟨by simp, Or.inl ha⟩
      · rename_i ha
        split at hd
        · split at hd <;> cases hd
        · rename_i hall
          split at hd
          · cases hd
          · rename_i m ms' ho
            cases hd
            exact ⟨by simp, Or.inr ⟨ha, hall, ho⟩⟩
          · split at hd
            · cases hd
            · split at hd
              · cases hd
              · unfold byType at hd
                repeat' split at hd
                all_goals cases hd

/-- anyOf / oneOf: `parts` are, in document order, the members' resolved types (each resolved with `required=True`,
    quoted when it is a forward reference).  With exactly one member the result IS that member — no `Union`, no
    import of `Union`.  Otherwise the result is `Union[us]` where the texts of `us` are pairwise distinct, contain
    the text of every part, are drawn from the parts, and are exactly the first occurrences in document order
    (`List.eraseDups` of the parts' texts = `list(dict.fromkeys(...))`), and `typing.Union` is requested last. -/
theorem union_members_nodup_and_cover {reg : List (Str × IR)} {cur : Option Str} {rel : RelMode} {fuel : Nat}
    {sch : IR} {required underlying : Bool} {imps imps' : Imps} {r : Resolved} {ms : List IR}
    (hd : dispatch reg sch underlying = .union ms)
    (h : resolve reg cur rel (fuel + 1) sch required underlying imps = some (r, imps')) :
    ∃ parts imps1,
      members (resolve reg cur rel fuel) underlying ms imps = some (parts, imps1) ∧
      Forall₂ (fun m p => ∃ rm i1 i2,
          resolve reg cur rel fuel m true (subRu underlying m) i1 = some (rm, i2) ∧
          p = quoteIfFwd rm.ann rm.forwardRef) ms parts ∧
      (∀ p, parts = [p] → r.ann = p ∧ imps' = imps1) ∧
      (parts.length ≠ 1 → ∃ us,
        r.ann = .union us ∧
        (us.map render).Nodup ∧
        (∀ p ∈ parts, render p ∈ us.map render) ∧
        (∀ u ∈ us, u ∈ parts) ∧
        us.map render = (parts.map render).eraseDups ∧
        imps' = addImp imps1 sTyping ['U', 'n', 'i', 'o', 'n']) := by
  obtain ⟨parts, imps1, hm, hx⟩ := resolve_union_unfold hd h
  refine ⟨parts, imps1, hm, ?_, ?_, ?_⟩
  · exact (members_spec (P := fun _ _ _ _ _ => True) (fun _ _ _ _ _ _ => trivial) _ _ _ _ hm).forall₂
  · intro p hp
    subst hp
    rw [unionOf_single] at hx
    cases hx
    exact ⟨rfl, rfl⟩
  · intro hlen
    rw [unionOf_many _ _ hlen] at hx
    cases hx
    refine ⟨dedupAnn parts [], rfl, ?_, ?_, fun u hu => dedupAnn_mem hu, ?_, rfl⟩
    · rw [dedupAnn_render]; exact (dedupStr_nodup _ _).1
    · intro p hp
      rw [dedupAnn_render]
      rcases dedupStr_cover (parts.map render) [] (render p) (List.mem_map_of_mem hp) with h | h
      · cases h
      · exact h
    · rw [dedupAnn_render, dedupStr_nil_eq_eraseDups]

/-- non-vacuity: `anyOf: [integer, string, integer]` gives `Union[int, str]`; `oneOf: [integer]` gives `int`. -/
example :
    (resolve [] none .absent 2
        { blank 1 with anyOf := some [{ blank 2 with ty := some (s "integer") }, { blank 3 with ty := some (s "string") },
                                      { blank 4 with ty := some (s "integer") }] } true false []).map
        (fun x => (render x.1.ann, x.2)) = some (s "Union[int, str]", [(s "typing", s "Union")]) ∧
    (resolve [] none .absent 2
        { blank 1 with oneOf := some [{ blank 2 with ty := some (s "integer") }] } true false []).map
        (fun x => (render x.1.ann, x.2)) = some (s "int", []) := by decide +kernel

/-! ## 4. forward references only inside the models package -/

/-- `cur` is `<dir>/models/<stem>.py` for some stem (in the sense of `os.path.basename` / `os.path.dirname`) -/
def InModelsPackage (cur : Option Str) : Prop :=
  ∃ c stem, cur = some c ∧ c ≠ [] ∧ pathBasename c = stem ++ s ".py" ∧ pathBasename (pathDirname c) = s "models"

theorem selfOK_inModels {cur : Option Str} (h : SelfOK cur) : InModelsPackage cur := by
  obtain ⟨stem, hs⟩ := h
  obtain ⟨c, hc, hne, h1, h2⟩ := selfImport_iff.mp hs
  exact ⟨c, stem, hc, hne, by simpa [dotPy, s] using h1, by simpa [modelsDir, s] using h2⟩

/-- `_resolve_named_schema` answers with a forward reference exactly when the schema's OWN `final_module_stem` is
    set and `current_file` is `models/<that stem>.py`. -/
theorem named_forward_ref_iff_self_import (cur : Option Str) (rel : RelMode) (sch : IR) (required : Bool) (imps : Imps) :
    (resolveNamed cur rel sch required imps).1.forwardRef = true ↔
      ∃ stem, sch.stem = some stem ∧ stem ≠ [] ∧ selfImport cur stem = true := by
  unfold resolveNamed
  split
  · rename_i c cs hs
    dsimp only
    split
    · rename_i hself
      exact ⟨fun _ => ⟨_, hs, by simp, hself⟩, fun _ => rfl⟩
    · rename_i hself
      constructor
      · intro h; simp at h
      · rintro ⟨stem, h1, _, h3⟩
        rw [hs] at h1; cases h1
        exact absurd h3 hself
  · rename_i hne
    constructor
    · intro h; simp at h
    · rintro ⟨stem, h1, h2, _⟩
      cases stem with
      | nil => exact absurd rfl h2
      | cons c cs => exact absurd h1 (hne c cs)

/-- A forward reference (top-level `is_forward_ref`, or a quoted name anywhere inside the annotation) is produced only
    when `current_file`'s basename is `<stem>.py` AND its parent directory is `models`; a top-level forward reference
    is a bare class name for which no import was requested (`needs_import = False`). -/
theorem self_import_only_in_models_package {reg : List (Str × IR)} {cur : Option Str} {rel : RelMode} {fuel : Nat}
    {sch : IR} {required underlying : Bool} {imps imps' : Imps} {r : Resolved}
    (h : resolve reg cur rel fuel sch required underlying imps = some (r, imps')) :
    (r.forwardRef = true → InModelsPackage cur ∧ r.needsImport = false ∧ ∃ cls, r.ann = .name cls) ∧
    (hasQuoted r.ann = true → InModelsPackage cur) := by
  have hf := resolve_fwd fuel sch required underlying imps (r, imps') h
  exact ⟨fun hfw => ⟨selfOK_inModels (hf.1 hfw).1, (hf.1 hfw).2⟩, fun hq => selfOK_inModels (hf.2 hq)⟩

/-- Outside the models package nothing is quoted and nothing is a forward reference: every named schema is imported. -/
theorem no_forward_ref_outside_models {reg : List (Str × IR)} {cur : Option Str} {rel : RelMode} {fuel : Nat}
    {sch : IR} {required underlying : Bool} {imps imps' : Imps} {r : Resolved}
    (hcur : ∀ c, cur = some c → pathBasename (pathDirname c) ≠ s "models")
    (h : resolve reg cur rel fuel sch required underlying imps = some (r, imps')) :
    r.forwardRef = false ∧ hasQuoted r.ann = false := by
  have hp := self_import_only_in_models_package h
  have hno : ¬ InModelsPackage cur := by
    rintro ⟨c, _, hc, _, _, h2⟩
    exact hcur c hc h2
  constructor
  · cases hf : r.forwardRef with
    | false => rfl
    | true => exact absurd (hp.1 hf).1 hno
  · cases hq : hasQuoted r.ann with
    | false => rfl
    | true => exact absurd (hp.2 hq) hno

/-- `Pet` (module stem `pet`) -/
def petModel : IR :=
  { blank 1 with name := some (s "Pet"), genName := some (s "Pet"), stem := some (s "pet"), ty := some (s "object") }

/-- the endpoint module `endpoints/pet.py` IMPORTS `Pet` from `models/pet.py`; `models/pet.py` itself gets a forward
    reference and no import; `models/xpet.py` is another module and imports. -/
example :
    (resolve [] (some (s "/out/endpoints/pet.py")) .absent 1 petModel true false []).map summary
      = some { pythonType := s "Pet", optional := false, forwardRef := false, needsImport := true,
               imports := [(s "..models.pet", s "Pet")], covered := true } ∧
    (resolve [] (some (s "/out/models/pet.py")) .absent 1 petModel true false []).map summary
      = some { pythonType := s "Pet", optional := false, forwardRef := true, needsImport := false, imports := [],
               covered := true } ∧
    (resolve [] (some (s "/out/models/xpet.py")) .absent 1 petModel true false []).map summary
      = some { pythonType := s "Pet", optional := false, forwardRef := false, needsImport := true,
               imports := [(s "..models.pet", s "Pet")], covered := true } := by decide +kernel

/-- the hypothesis of `no_forward_ref_outside_models` holds of an endpoint module -/
example : ∀ c, some (s "/out/endpoints/pet.py") = some c → pathBasename (pathDirname c) ≠ s "models" := by
  intro c hc; cases hc; decide +kernel

/-! ## 5. fuel -/

/-- The fuel is a proof device, not behaviour: an answer obtained with some fuel is the answer with more fuel. -/
theorem resolve_monotone_fuel {reg : List (Str × IR)} {cur : Option Str} {rel : RelMode} {fuel : Nat}
    {sch : IR} {required underlying : Bool} {imps : Imps} {x : Resolved × Imps}
    (h : resolve reg cur rel fuel sch required underlying imps = some x) :
    resolve reg cur rel (fuel + 1) sch required underlying imps = some x :=
  resolve_fuel_succ fuel sch required underlying imps x h

theorem resolve_monotone_fuel_le {reg : List (Str × IR)} {cur : Option Str} {rel : RelMode} {fuel fuel' : Nat}
    (hle : fuel ≤ fuel') {sch : IR} {required underlying : Bool} {imps : Imps} {x : Resolved × Imps}
    (h : resolve reg cur rel fuel sch required underlying imps = some x) :
    resolve reg cur rel fuel' sch required underlying imps = some x :=
  resolve_fuel_le hle h

/-- `none` really is "out of fuel": a schema whose `type` names a registry entry that is the schema itself is resolved
    by an unconditional recursive call (no identity test on that path; the code raises `RecursionError`). -/
example :
    let loop : IR := { blank 1 with name := some (s "Node"), ty := some (s "Node") }
    ∀ fuel ∈ [1, 5, 40], (resolve [(s "Node", loop)] none .absent fuel loop true false []).isNone = true := by
  decide +kernel

end Pog.ResolveProps
