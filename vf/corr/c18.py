#!/venv/bin/python
"""C18 correspondence: Lean model (Pog/Model/Stream.lean, via .lake/build/bin/driver) versus the REAL code:
   pyopenapi_gen.core.streaming_helpers.{iter_sse, iter_sse_events_text, iter_ndjson} running on a real
   httpx.Response whose body is an AsyncByteStream yielding the chosen byte chunks, httpx's LineDecoder,
   Response.aiter_lines, codecs' incremental UTF-8 decoder, str.splitlines and str.strip/lstrip.
   Must end with `0 disagreements`."""
import asyncio
import codecs
import itertools
import json
import os
import random
import subprocess
import sys

import httpx
from httpx._decoders import LineDecoder

from pyopenapi_gen.core import streaming_helpers as sh

HERE = os.path.dirname(os.path.abspath(__file__))
DRIVER = os.path.join(HERE, ".lake", "build", "bin", "driver")
rng = random.Random(1818)

# ---------------------------------------------------------------- driver (batch)
cases = []  # (label, request, expected)


def want(label, f, args, expected):
    cases.append((label, {"f": f, "a": args}, expected))


# ---------------------------------------------------------------- real code runners
class ChunkStream(httpx.AsyncByteStream):
    def __init__(self, chunks):
        self.chunks = chunks

    async def __aiter__(self):
        for c in self.chunks:
            yield c


def resp(chunks):
    return httpx.Response(200, stream=ChunkStream(list(chunks)))


def ev(e):
    return {"data": e.data, "event": e.event, "id": e.id}


async def real_all(chunks):
    lines = [l async for l in resp(chunks).aiter_lines()]
    sse = [ev(e) async for e in sh.iter_sse(resp(chunks))]
    txt = [t async for t in sh.iter_sse_events_text(resp(chunks))]
    nd = []
    try:
        async for item in sh.iter_ndjson(resp(chunks)):
            nd.append(item)
    except ValueError:
        nd.append("<<json error>>")
    return lines, sse, txt, nd


def model_ndjson_view(model_lines):
    """What iter_ndjson would yield from the model's stripped non-empty lines."""
    out = []
    for l in model_lines:
        try:
            out.append(json.loads(l))
        except ValueError:
            out.append("<<json error>>")
            break
    return out


def text_chunks(chunks):
    dec = codecs.getincrementaldecoder("utf-8")(errors="replace")
    texts = [dec.decode(c) for c in chunks]
    pending = dec.getstate()[0]
    return texts, list(pending)


def all_chunkings(b):
    n = len(b)
    for mask in range(1 << max(n - 1, 0)):
        cuts = [i + 1 for i in range(n - 1) if mask >> i & 1]
        pts = [0] + cuts + [n]
        yield [b[pts[i]:pts[i + 1]] for i in range(len(pts) - 1)]


def random_chunking(b):
    n = len(b)
    k = rng.choice([0, 1, 2, 3, 5, 8, n])
    cuts = sorted(rng.randrange(0, n + 1) for _ in range(k)) if n else []
    pts = [0] + cuts + [n]
    ch = [b[pts[i]:pts[i + 1]] for i in range(len(pts) - 1)]  # may contain empty chunks (repeated cuts)
    if rng.random() < 0.5:
        ch = [c for c in ch if c]
    return ch


ndjson_pending = []  # (label, chunks-as-lists, real ndjson view) resolved after the driver run


async def stream_case(label, chunks):
    lines, sse, txt, nd = await real_all(chunks)
    bl = [list(c) for c in chunks]
    want(label + "/aiter_lines", "linesOfBytes", [bl], lines)
    want(label + "/iter_sse", "sseOfBytes", [bl], sse)
    want(label + "/iter_sse_events_text", "sseTextOfBytes", [bl], txt)
    ndjson_pending.append((len(cases), label, nd))
    want(label + "/iter_ndjson(lines)", "ndjsonOfBytes", [bl], None)  # expectation filled below
    # text level entry points, fed with the text chunks the real incremental decoder produces
    texts, pending = text_chunks(chunks)
    want(label + "/utf8Chunks", "utf8Chunks", [bl], {"texts": texts, "pending": pending})
    want(label + "/linesOf", "linesOf", [texts], lines)
    want(label + "/iterSSE", "iterSSE", [lines], sse)
    want(label + "/sseEventsText", "sseEventsText", [texts], txt)


# ---------------------------------------------------------------- inputs
TERMS = ["\n", "\r", "\r\n", "\x0b", "\x0c", "\x1c", "\x1d", "\x1e", "\x85", "\u2028", "\u2029"]
SSE_TOK = ["data", "data:", "data: ", "event:", "event: ", "id:", "id: ", "retry:", "retry: 5", ":", ": c", " ", "\t", "x", "yz",
           "é", "漢", "\u2028", "\x85", "\xa0", "\u3000", "\U0001F600", "\n", "\n", "\n\n", "\r", "\r\n", "\r\n\r\n", "\r\r",
           "foo", "data:a", "data:  b ", "datax:1", "Data:1"]
ND_TOK = ['{"a": 1}', '[1, 2]', '"é漢"', "3", "null", '{"k": "v w"}', " ", "\t", "\xa0", "\n", "\r\n", "\r", "\n\n", "\u2028",
          "\x85", '"\U0001F600"', "{bad", "\u3000"]

SHORT = ["data: é\r\n\r\n", "data:a\n\ndata:b", ":c\ndata:x\r\r", "a\r\nb", "\r\n\r\n", "d\u2028\n", "data:\n\n", "data\n\n",
         "id:1\nid:2\n\n", "\r", "\n", "\r\r\n", "漢\r\n\x85é", "data: \u2028x", "x:\xa0 y\r\n", "event:e\rid:", "{\"a\":1}\r\n[2]",
         " 3 \r\n\t4", "\u2028\u2029", "é", "a\x1c\rb\x0b", "data:1\r\n\r", "\n\r\n\r", "", "data: a\ndata", ": \n\n:\n",
         "😀\r\n😀", "a\r", "ab\rc", "\r\nx"]


def rand_text(tokens, n):
    return "".join(rng.choice(tokens) for _ in range(n))


async def main():
    # 1. str.splitlines vs splitLines
    alpha = TERMS + ["a", "b", "", "é", " ", ":", "\x1f", "\x1b", "\x84", "\u2027", "\u202a", "\t"]
    for i in range(1500):
        s = rand_text(alpha, rng.randrange(0, 14))
        want("splitlines", "splitLines", [s], s.splitlines())
    for t in TERMS:  # every pair / triple of terminators
        for u in TERMS:
            want("splitlines2", "splitLines", [t + u], (t + u).splitlines())
            want("splitlines2", "splitLines", ["a" + t + u + "b"], ("a" + t + u + "b").splitlines())
    # every BMP code point as a potential line break
    for cp in itertools.chain(range(0, 0xD800), range(0xE000, 0x10000), [0x10000, 0x1F600, 0x10FFFF]):
        s = "a" + chr(cp) + "b"
        exp = s.splitlines()
        if cp < 0x3100 or len(exp) != 1:
            want("splitlines-cp", "splitLines", [s], exp)
    # 2. whitespace set: every code point that Python strips, and all code points below U+3100
    ws = [cp for cp in range(0x110000) if not 0xD800 <= cp < 0xE000 and chr(cp).isspace()]
    for cp in sorted(set(ws) | set(range(0, 0x3100)) | {0xFEFF, 0x200B, 0x180E, 0xE000, 0x10FFFF}):
        s = chr(cp) + "a" + chr(cp)
        want("strip-cp", "stripWs", [s], s.strip())
        want("lstrip-cp", "lstripWs", [s], s.lstrip())
    for i in range(300):
        s = rand_text([" ", "\t", "\xa0", "\u2003", "a", ":", "\n", "\x1f", "\u200b", "é"], rng.randrange(0, 8))
        want("strip", "stripWs", [s], s.strip())
        want("lstrip", "lstripWs", [s], s.lstrip())
    # 3. LineDecoder.decode on arbitrary reachable-looking states
    for i in range(3000):
        buf = [rand_text(["a", "b", "é", ":"], rng.randrange(1, 3)) for _ in range(rng.choice([0, 0, 1, 2]))]
        cr = rng.random() < 0.4
        text = rand_text(TERMS + ["\r", "\n", "a", "b", "é"], rng.randrange(1, 7))
        d = LineDecoder()
        d.buffer = list(buf)
        d.trailing_cr = cr
        out = d.decode(text)
        want("LineDecoder.decode", "ldDecode", [buf, cr, text], {"buffer": d.buffer, "cr": d.trailing_cr, "lines": out})
    # 4. LineDecoder over text chunk lists (decode* then flush), random text chunkings
    for i in range(1500):
        s = rand_text(TERMS + ["\r", "\n", "\r\n", "a", "b", "é", ""], rng.randrange(0, 12))
        k = rng.randrange(0, 5)
        cuts = sorted(rng.randrange(0, len(s) + 1) for _ in range(k)) if s else []
        pts = [0] + cuts + [len(s)]
        chunks = [s[pts[j]:pts[j + 1]] for j in range(len(pts) - 1)]
        d = LineDecoder()
        out = []
        for c in chunks:
            if c:  # TextChunker drops empty strings
                out += d.decode(c)
        out += d.flush()
        want("LineDecoder chunks", "linesOf", [chunks], out)
        if out != s.splitlines():
            print("NOTE real LineDecoder differs from str.splitlines on", repr(chunks), out, s.splitlines())
    # 5. the real helpers on a real httpx.Response, every chunking of short byte strings
    nchunkings = 0
    for s in SHORT + [rand_text(SSE_TOK, rng.randrange(1, 5)) for _ in range(60)] + [rand_text(ND_TOK, rng.randrange(1, 4)) for _ in range(30)]:
        b = s.encode("utf-8")
        if len(b) > 12:
            b = b[:12].decode("utf-8", errors="ignore").encode("utf-8")
        for chunks in all_chunkings(b):
            nchunkings += 1
            await stream_case("exh", chunks)
    # 6. … and random chunkings of long streams
    for i in range(1200):
        toks = SSE_TOK if i % 3 else ND_TOK
        b = rand_text(toks, rng.randrange(3, 40)).encode("utf-8")
        for _ in range(3):
            nchunkings += 1
            await stream_case("rnd", random_chunking(b))
    # 7. parseEvent on line lists directly (lines never contain line breaks in practice, but the function is total)
    for i in range(1500):
        lines = [rand_text(SSE_TOK[:24] + ["data:", "event:", "id:", ":"], rng.randrange(0, 5)) for _ in range(rng.randrange(0, 6))]
        want("_parse_sse_event", "parseEvent", [lines], ev(sh._parse_sse_event(lines)))

    # resolve ndjson expectations: compare json.loads of the model's lines with the real items
    inp_idx = {idx for idx, _, _ in ndjson_pending}
    # run the driver once for everything; ndjson cases are post-processed
    inp = "".join(json.dumps(req, ensure_ascii=True) + "\n" for _, req, _ in cases)
    out = subprocess.run([DRIVER], input=inp.encode(), stdout=subprocess.PIPE, check=True).stdout.decode()
    replies = out.split("\n")
    if replies and replies[-1] == "":
        replies.pop()
    assert len(replies) == len(cases), (len(replies), len(cases))
    nd_real = {idx: nd for idx, _, nd in ndjson_pending}
    bad = 0
    for idx, ((label, req, exp), rep) in enumerate(zip(cases, replies)):
        got = json.loads(rep)
        if idx in inp_idx:
            exp = nd_real[idx]
            got = model_ndjson_view(got) if isinstance(got, list) else got
        if got != exp:
            bad += 1
            if bad <= 40:
                print(f"DISAGREE [{label}] {json.dumps(req, ensure_ascii=True)}\n   model: {got!r}\n   real : {exp!r}")
    print(f"{len(cases)} comparisons, {nchunkings} chunked streams through real httpx.Response")
    print(f"{bad} disagreements")
    return bad


if __name__ == "__main__":
    sys.exit(1 if asyncio.run(main()) else 0)
