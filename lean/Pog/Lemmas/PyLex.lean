import Pog.Model.PyLex
/-
  Lemmas about M-pylex (`Pog.Model.PyLex`) used by `Pog.Props.C15`.
-/
namespace Pog

/-! ### Code points ↔ Lean strings -/

theorem cpsToStr_strToCps (s : Str) : cpsToStr (strToCps s) = some s := by
  induction s with
  | nil => rfl
  | cons c cs ih =>
    have hv : c.toNat.isValidChar := c.valid
    simp [strToCps, cpsToStr, hv, Char.ofNat_toNat] at ih ⊢
    simpa [strToCps] using ih

theorem toNat_ofNat_of_valid (n : Nat) (h : n.isValidChar) : (Char.ofNat n).toNat = n := by
  simp [Char.ofNat, h, Char.ofNatAux, Char.toNat]

theorem cpsToStr_eq_some (cps : CpStr) (s : Str) (h : cpsToStr cps = some s) : cps = strToCps s := by
  induction cps generalizing s with
  | nil => simp [cpsToStr] at h; subst h; rfl
  | cons n ns ih =>
    by_cases hv : n.isValidChar
    · simp only [cpsToStr, hv, if_true] at h
      cases hr : cpsToStr ns with
      | none => simp [hr] at h
      | some r =>
        simp [hr] at h
        subst h
        simp [strToCps, toNat_ofNat_of_valid n hv]
        simpa [strToCps] using ih r hr
    · simp [cpsToStr, hv] at h

theorem strToCps_length (s : Str) : (strToCps s).length = s.length := by simp [strToCps]

/-! ### The exact class of texts an UNESCAPED `"…"` sink gets right -/

/-- Characters that, after a backslash, form an escape CPython interprets (or rejects): everything
    except these keeps the backslash and the character verbatim. -/
def isRecognisedEsc (c : Char) : Bool :=
  c == '\n' || c == '\r' || c == '\\' || c == '\'' || c == '"' || c == 'a' || c == 'b' || c == 'f' || c == 'n'
    || c == 'r' || c == 't' || c == 'v' || isOctC c || c == 'x' || c == 'u' || c == 'U' || c == 'N' || c == cNUL

/-- `afterBs = false`: ordinary position; `true`: directly after a backslash. -/
def litSafeRun : Bool → Str → Bool
  | b, [] => !b
  | false, c :: cs =>
    if c == '"' || c == '\n' || c == '\r' || c == cNUL then false else litSafeRun (c == '\\') cs
  | true, c :: cs => !isRecognisedEsc c && litSafeRun false cs

/-- No `"`, LF, CR, NUL; every backslash is followed by a character that does not form an escape
    (so CPython keeps backslash + character: `\d`, `\.`, `\ ` …); no trailing backslash. -/
def litSafe (s : Str) : Bool := litSafeRun false s

/-- The benign class: none of `"` `\` LF CR NUL at all. -/
def plainChar (c : Char) : Bool := !(c == '"' || c == '\\' || c == '\n' || c == '\r' || c == cNUL)
def plainSafe (s : Str) : Bool := s.all plainChar

theorem litSafe_of_plainSafe (s : Str) (h : plainSafe s = true) : litSafe s = true := by
  unfold litSafe
  induction s with
  | nil => rfl
  | cons c cs ih =>
    simp only [plainSafe, List.all_cons, Bool.and_eq_true] at h
    have hc := h.1
    simp only [plainChar, Bool.not_eq_true', Bool.or_eq_false_iff] at hc
    obtain ⟨⟨⟨⟨h1, h2⟩, h3⟩, h4⟩, h5⟩ := hc
    simp only [litSafeRun, h1, h2, h3, h4, h5, Bool.or_self, Bool.false_eq_true, if_false]
    exact ih h.2

/-! ### One step of the `"…"` automaton -/

theorem escStep_bs_unknown (c : Char) (h : isRecognisedEsc c = false) :
    escStep .bs c = .done [92, c.toNat] := by
  simp only [isRecognisedEsc, Bool.or_eq_false_iff] at h
  obtain ⟨⟨⟨⟨⟨⟨⟨⟨⟨⟨⟨⟨⟨⟨⟨⟨⟨h1, h2⟩, h3⟩, h4⟩, h5⟩, h6⟩, h7⟩, h8⟩, h9⟩, h10⟩, h11⟩, h12⟩, h13⟩, h14⟩, h15⟩, h16⟩, h17⟩, h18⟩ := h
  simp [escStep, h1, h2, h3, h4, h5, h6, h7, h8, h9, h10, h11, h12, h13, h14, h15, h16, h17, h18]

/-- Potential of a state: how many more code points than characters the rest of the literal can
    still produce (`bs`: an unknown escape gives 2 for 1; `hex`: digits are owed). -/
def pot : LexSt → Int
  | .norm => 0
  | .bs => 1
  | .bscr => 0
  | .oct _ _ => 1
  | .hex need _ => 1 - need

theorem litNorm_next (c : Char) (st' : LexSt) (out : CpStr) (h : litNorm c = .next st' out) :
    (out.length : Int) + pot st' ≤ 1 := by
  unfold litNorm at h
  split at h
  · cases h
  · split at h
    · cases h; simp [pot]
    · split at h
      · cases h
      · cases h; simp [pot]

theorem litNorm_close (c : Char) (out : CpStr) (h : litNorm c = .close out) : out = [] := by
  unfold litNorm at h
  split at h
  · cases h; rfl
  · split at h
    · cases h
    · split at h <;> cases h

def escBound (st : LexSt) : EscOut → Prop
  | .err => True
  | .done out => (out.length : Int) ≤ 1 + pot st
  | .cont st' => pot st' ≤ 1 + pot st
  | .redo out => (out.length : Int) ≤ pot st

theorem escStep_pot (st : LexSt) (c : Char) : escBound st (escStep st c) := by
  cases st with
  | norm => simp [escStep, escBound, pot]
  | bs =>
    simp only [escStep]
    simp only [apply_ite (escBound LexSt.bs)]
    repeat' split
    all_goals simp [escBound, pot]
  | bscr =>
    simp only [escStep]
    simp only [apply_ite (escBound LexSt.bscr)]
    split <;> simp [escBound, pot]
  | oct n v =>
    simp only [escStep]
    simp only [apply_ite (escBound (LexSt.oct n v))]
    repeat' split
    all_goals simp [escBound, pot]
  | hex need v =>
    simp only [escStep]
    simp only [apply_ite (escBound (LexSt.hex need v))]
    repeat' split
    all_goals simp [escBound, pot]
    all_goals omega

/-- One step never produces more than the potential allows. -/
theorem litStep_next (st : LexSt) (c : Char) (st' : LexSt) (out : CpStr) (h : litStep st c = .next st' out) :
    (out.length : Int) + pot st' ≤ 1 + pot st := by
  have hp := escStep_pot st c
  have h0 : pot .norm = 0 := rfl
  cases st with
  | norm =>
    simp only [litStep] at h
    have := litNorm_next c st' out h
    omega
  | bs | bscr | oct _ _ | hex _ _ =>
    simp only [litStep] at h
    split at h
    · cases h
    · rename_i o he
      rw [he] at hp
      cases h
      simp only [escBound] at hp
      omega
    · rename_i s2 he
      rw [he] at hp
      cases h
      simp only [escBound] at hp
      simp only [List.length_nil]
      omega
    · rename_i o he
      rw [he] at hp
      split at h
      · cases h
      · cases h
      · rename_i s3 o3 hn
        cases h
        have := litNorm_next c _ _ hn
        simp only [escBound] at hp
        rw [List.length_append]
        omega

theorem litStep_close (st : LexSt) (c : Char) (out : CpStr) (h : litStep st c = .close out) :
    (out.length : Int) ≤ pot st := by
  have hp := escStep_pot st c
  cases st with
  | norm =>
    simp only [litStep] at h
    rw [litNorm_close c out h]; simp [pot]
  | bs | bscr | oct _ _ | hex _ _ =>
    simp only [litStep] at h
    split at h
    · cases h
    · cases h
    · cases h
    · rename_i o he
      rw [he] at hp
      split at h
      · cases h
      · rename_i o3 hn
        cases h
        rw [litNorm_close c o3 hn]
        simpa [escBound] using hp
      · cases h

/-- A literal never evaluates to more code points than `characters − closing quote + potential`. -/
theorem litRun_length (st : LexSt) (t : Str) (r : CpStr) (h : litRun st t = some r) :
    (r.length : Int) + 1 ≤ t.length + pot st := by
  induction t generalizing st r with
  | nil => simp [litRun] at h
  | cons c cs ih =>
    simp only [litRun] at h
    split at h
    · cases h
    · rename_i out hs
      split at h
      · rename_i hcs
        cases h
        have := litStep_close st c _ hs
        simp [List.isEmpty_iff] at hcs
        subst hcs
        simp; omega
      · cases h
    · rename_i st' out hs
      cases hr : litRun st' cs with
      | none => simp [hr] at h
      | some r' =>
        simp [hr] at h
        subst h
        have h1 := ih st' r' hr
        have h2 := litStep_next st c st' out hs
        simp [List.length_append]
        omega

end Pog
