#!/bin/sh
# usage: tools/verify_commits.sh <commit>...  — runs the pinned suite at each commit in its own worktree, in parallel
for C in "$@"; do
 (
  WT=/tmp/vc-$C; T=$(mktemp -d /tmp/vct-XXXX)
  git -C /repo worktree add -q --detach "$WT" "$C" || exit 2
  ( cd "$WT" && PYTHONPATH="$WT/src" TMPDIR="$T" /venv/bin/python -m pytest -q -p no:cacheprovider --timeout=900 --junitxml="$T/j.xml" >"$T/suite.out" 2>&1 )
  MISSING=$(python3 - "$T/j.xml" <<'PY'
import json,sys,xml.etree.ElementTree as ET
passed=set()
for tc in ET.parse(sys.argv[1]).getroot().iter("testcase"):
    if not any(c.tag in ("failure","error","skipped") for c in tc): passed.add(f"{tc.get('classname')}::{tc.get('name')}")
b=json.load(open("/root/.vp/BASELINE.json"))["stable_pass"]
m=sorted(set(b)-passed); print(len(m), m[:5])
PY
)
  echo "$C $(git -C /repo log --format=%s -1 $C | cut -c1-70) :: baseline tests missing: $MISSING"
  git -C /repo worktree remove --force "$WT"; rm -rf "$T"
 ) &
done
wait
