"""C02 — schema-to-model structure fidelity (no silently lost fields).

parser level : vf.corr.parser (model vs real loader; independent reference resolver vs IR)
dataclass level (end to end): generated models imported in a fresh interpreter; per named object schema the dataclass must have exactly
one field per declared property (own + allOf), bound to the original JSON key, required exactly when the document says so.
"""
from __future__ import annotations

import json

from .. import e2e, findings, opsrig
from ..common import Run, rng
from ..gen import spec as gs
from . import _generic as g, _parser

PROP = "C02"


def case_fn(case: dict, d):
    root = d / "proj"
    gen = e2e.generate(case["doc"], root, package="pkg.client")
    if not gen["ok"]:
        return {"gen_ok": False, "gen_error": gen["error"]}
    return {"gen_ok": True, "probe": e2e.probe(root, "pkg.client", None, ["models"])}


def kind_of(doc, sch) -> str:
    s = gs.resolve(doc, sch) if "$ref" not in sch else None
    if "$ref" in sch:
        tgt = gs.resolve(doc, sch)
        if tgt.get("type") == "object" and "properties" in tgt or "allOf" in tgt or "enum" in tgt:
            return "ref:" + sch["$ref"].rsplit("/", 1)[-1]
        s = tgt      # a reference to an alias of an array / primitive / map is rendered structurally
    t = s.get("type")
    if "enum" in s:
        return "enum"
    if t == "array":
        return "list"
    if t == "object" or "properties" in s or "additionalProperties" in s:
        return "object"
    return {"string": "str", "integer": "int", "number": "float", "boolean": "bool"}.get(t, "any")


def type_matches(kind: str, tstr: str, NS) -> bool:
    t = tstr.replace("typing.", "")
    if kind == "list":
        return "List[" in t or "list[" in t
    if kind == "str":
        return t.startswith(("str", "<class 'str'>", "datetime", "date", "bytes", "<class 'datetime", "<class 'bytes", "uuid", "<class 'uuid", "UUID")) or "str" in t or "date" in t or "bytes" in t or "UUID" in t
    if kind == "int":
        return "int" in t
    if kind == "float":
        return "float" in t
    if kind == "bool":
        return "bool" in t
    if kind.startswith("ref:"):
        return NS.sanitize_class_name(kind[4:]) in t
    return True


def judge(case, res) -> list[str]:
    NS = opsrig.impl_names()
    pr = res["probe"]
    md = pr.get("models") if isinstance(pr, dict) else None
    if not isinstance(md, dict) or md.get("errors"):
        return []   # does not import: C01's business
    out = []
    doc = case["doc"]
    for name, sch in doc["components"]["schemas"].items():
        rs = gs.resolve(doc, sch)
        if not (rs.get("type") == "object" and "properties" in rs or "allOf" in rs):
            continue
        cls = md["classes"].get(NS.sanitize_class_name(name))
        if cls is None:
            out.append(f"{name}: no model class {NS.sanitize_class_name(name)}")
            continue
        if cls["kind"] != "dataclass":
            out.append(f"{name}: model is a {cls['kind']}, not a dataclass")
            continue
        props, req = gs.effective_object(doc, {"$ref": f"#/components/schemas/{name}"})
        got = {f["wire"]: f for f in cls["fields"]}
        if sorted(got) != sorted(props):
            out.append(f"{name}: fields {sorted(got)} != declared properties {sorted(props)}")
            continue
        for k, p in props.items():
            if got[k]["required"] != (k in req):
                out.append(f"{name}.{k}: required={got[k]['required']} but the document says {k in req}")
            elif not type_matches(kind_of(doc, p), got[k]["type"], NS):
                out.append(f"{name}.{k}: typed {got[k]['type']} for a {kind_of(doc, p)} property")
    return out


def check(run: Run, ctx) -> None:
    known = findings.Known(run, PROP)
    _parser.run(run, ctx, PROP, known)
    # annotation level: required <-> Optional, union members (theorems claimed from Pog.ResolveProps)
    from . import _generic as g
    g.run_corr(run, ctx, "vf.corr.resolve", "Resolve (OpenAPISchemaResolver vs Pog.Resolve: required/optional, union members)", quick=0.3, thorough=3.0)
    g.run_oracle(run, ctx, g.Informational(known), "vf.corr.resolve", "resolver oracle (optional = not required; union members distinct and complete)",
                 {"resolve.named_no_stem_no_import": "-hazard", "resolve.string_enum_no_import": "-hazard"}, quick=0.2, thorough=2.0)
    g.run_corr(run, ctx, "vf.corr.dc", "Dc (DataclassGenerator.generate vs Pog.Dc: one field per property, required <-> no default)", quick=0.25, thorough=2.5)
    g.run_oracle(run, ctx, g.Informational(known), "vf.corr.dc", "dataclass body on the real generator", {k: ("-" + v.lstrip("-")) for k, v in {"dc-enum-default-member-missing": "F53", "dc-enum-default-wrong-member": "F53", "dc-enum-default-int-member-missing": "F53", "dc-str-default-astral": "-F25-cell", "dc-float-default-nonfinite": "-hazard", "dc-default-factory-text-crash": "-hazard"}.items()}, quick=0.15, thorough=1.5)
    g.run_corr(run, ctx, "vf.corr.extract", "Extract (inline array-item / enum extraction, model kind vs Pog.Extract)", quick=0.3, thorough=3.0)
    g.run_oracle(run, ctx, g.Informational(known), "vf.corr.extract", "extraction passes / model kind on the real functions",
                 {"extract-not-idempotent": "-hazard", "extract-wire-array-flip": "-hazard"}, quick=0.2, thorough=2.0)
    run.cov["rule"] = (run.cov.get("rule") or "") + ("[e2e dataclass level] seeded documents -> generated models imported in a fresh interpreter -> dataclasses.fields + Meta maps compared with "
                       "the document's own/inherited properties (wire key, required, structural kind); distinct by document; non-trivial when >= 2 object schemas")
    cases = []
    for i in range(ctx.budget(24, 240)):
        r = rng(f"C02:{i}")
        doc = gs.gen_spec(r, gs.Opts(mainstream=True, max_ops=1, max_schemas=6, unions=(i % 4 == 0), colliding_props=(i % 3 == 0), allof_variants=(i % 2 == 0)))
        if i % 2 == 1:
            # named object schemas that declare properties NEXT TO anyOf / oneOf (the "at least one of" idiom; shared properties of a union):
            # they are objects with those properties, whatever else the composition says
            sch = doc["components"]["schemas"]
            sch["ContactPoint"] = {"type": "object", "required": ["note"], "properties": {"email": {"type": "string"}, "phone": {"type": "string"}, "note": {"type": "string"}},
                                   "anyOf": [{"required": ["email"]}, {"required": ["phone"]}]}
            if r.random() < 0.5:
                sch["RoundShape"] = {"type": "object", "properties": {"radius": {"type": "integer"}}}
                sch["SquareShape"] = {"type": "object", "properties": {"side": {"type": "integer"}}}
                sch["ShapeBox"] = {"type": "object", "required": ["label"], "properties": {"label": {"type": "string"}, "sides": {"type": "integer"}},
                                   "oneOf": [{"$ref": "#/components/schemas/RoundShape"}, {"$ref": "#/components/schemas/SquareShape"}]}
        cases.append({"id": f"c02-{i}", "doc": doc})
    results = e2e.run_cases("vf.props.C02:case_fn", cases)
    for case, res in zip(cases, results):
        if "infra_error" in res:
            run.infra_errors.append(res["infra_error"])
            continue
        nobj = sum(1 for s in case["doc"]["components"]["schemas"].values() if s.get("type") == "object" or "allOf" in s)
        run.count({"doc": case["doc"]}, nontrivial=nobj >= 2)
        run.cov["traces_validated_against_impl"] += 1
        if not res.get("gen_ok"):
            run.dist("generation", "rejected")
            continue
        fails = judge(case, res)
        if not fails:
            run.sample({"id": case["id"], "schemas": list(case["doc"]["components"]["schemas"])}, limit=3)
        for msg in fails[:1]:
            if len(run.violations) < 5:
                run.violation("input", {"doc": case["doc"]}, observed=fails[:5], expected="one dataclass field per declared property (wire key, required, kind)", what=msg[:300])
    known.report_unreplayed()


def search(run: Run, ctx) -> None:
    check(run, ctx)


def replay(run: Run, ctx, rec) -> bool:
    case = rec["case"]
    if "module" in case:
        return g.replay_generic(rec)
    res = e2e.run_cases("vf.props.C02:case_fn", [{"id": "replay", **case}], workers=1)[0]
    return bool(res.get("gen_ok") and judge(case, res))
