"""Lean side: build property modules, audit axioms, run the compiled model driver."""
from __future__ import annotations

import fcntl
import json
import os
import re
import subprocess
import time
import unicodedata
from pathlib import Path

from .common import LEAN, VERIF

ALLOWED_AXIOMS = {"propext", "Classical.choice", "Quot.sound"}
FORBIDDEN = re.compile(r"\bsorry\b|\badmit\b|^\s*axiom\s|native_decide|bv_decide|implemented_by|\bunsafe\s|maxHeartbeats\s+0\b", re.M)
DRIVER_BIN = LEAN / ".lake" / "build" / "bin" / "driver"


class LakeLock:
    def __enter__(self):
        self.f = open(LEAN / ".verif.lock", "w")
        fcntl.flock(self.f, fcntl.LOCK_EX)
        return self

    def __exit__(self, *a):
        fcntl.flock(self.f, fcntl.LOCK_UN)
        self.f.close()


def lake_build(targets: list[str], timeout: int = 1800) -> tuple[bool, str]:
    import re
    import time
    with LakeLock():
        for attempt in range(3):
            p = subprocess.run(["lake", "build", *targets], cwd=LEAN, capture_output=True, text=True, timeout=timeout)
            log = p.stdout + p.stderr
            # a failure WITHOUT any Lean diagnostic (`error: <file>.lean:line:col`) is the build tool's own I/O trouble (another lake
            # process touching .lake at the same moment): retried, it is not a statement about any theorem
            if p.returncode == 0 or re.search(r"error: [^\s:]+\.lean:\d+:\d+", log):
                break
            time.sleep(2 + 3 * attempt)
    return p.returncode == 0, log


def strip_comments(src: str) -> str:
    # remove nested /- -/ block comments and -- line comments
    out, i, depth = [], 0, 0
    while i < len(src):
        if src.startswith("/-", i):
            depth += 1
            i += 2
        elif depth and src.startswith("-/", i):
            depth -= 1
            i += 2
        elif depth:
            i += 1
        elif src.startswith("--", i):
            j = src.find("\n", i)
            i = len(src) if j < 0 else j
        else:
            out.append(src[i])
            i += 1
    return "".join(out)


def grep_forbidden() -> list[str]:
    hits = []
    for p in sorted((LEAN / "Pog").rglob("*.lean")) + [LEAN / "Driver.lean"]:
        body = strip_comments(p.read_text())
        # string literals may legitimately contain the words; drop them
        body = re.sub(r'"(?:\\.|[^"\\])*"', '""', body)
        for m in FORBIDDEN.finditer(body):
            hits.append(f"{p.relative_to(LEAN)}: {m.group(0).strip()}")
    return hits


def props_index() -> dict:
    return json.loads((VERIF / "props_index.json").read_text())


def audit(prop: str, theorems: list[str], imports: list[str]) -> tuple[dict[str, list[str]], str]:
    """`#print axioms` for each theorem; returns {theorem: [axioms]} (missing theorem -> ['<missing>'])."""
    lines = [f"import {m}" for m in imports]
    for t in theorems:
        lines.append(f"#print axioms {t}")
    audit_dir = LEAN / ".audit"
    audit_dir.mkdir(exist_ok=True)
    f = audit_dir / f"Audit_{prop}.lean"
    f.write_text("\n".join(lines) + "\n")
    p = subprocess.run(["lake", "env", "lean", str(f)], cwd=LEAN, capture_output=True, text=True, timeout=900)
    out = p.stdout + p.stderr
    res: dict[str, list[str]] = {}
    for t in theorems:
        m = re.search(r"'" + re.escape(t) + r"' depends on axioms: \[([^\]]*)\]", out)
        if m:
            res[t] = [a.strip() for a in m.group(1).replace("\n", " ").split(",") if a.strip()]
        elif re.search(r"'" + re.escape(t) + r"' does not depend on any axioms", out):
            res[t] = []
        else:
            res[t] = ["<missing>"]
    return res, out


class Driver:
    """The compiled model (`lean/.lake/build/bin/driver`), spoken to in batches."""

    def __init__(self):
        if not DRIVER_BIN.exists():
            ok, log = lake_build(["driver"])
            if not ok:
                raise RuntimeError("cannot build Lean driver:\n" + log[-3000:])

    @staticmethod
    def uinfo(strings) -> dict:
        tbl = {}
        for s in strings:
            for c in s:
                if ord(c) >= 128 and str(ord(c)) not in tbl:
                    tbl[str(ord(c))] = {
                        "w": bool(re.match(r"\w", c)),
                        "d": c.isdigit(),
                        "l": c.lower(),
                        "U": c.upper(),
                        "iu": c.isupper(),
                    }
        return tbl

    def batch(self, reqs: list[dict], timeout: int = 600) -> list:
        data = "\n".join(json.dumps(r, ensure_ascii=True) for r in reqs) + "\n"
        p = subprocess.run([str(DRIVER_BIN)], input=data, capture_output=True, text=True, timeout=timeout)
        if p.returncode != 0:
            raise RuntimeError(f"driver exited {p.returncode}: {p.stderr[-2000:]}")
        lines = p.stdout.split("\n")
        if lines and lines[-1] == "":
            lines.pop()
        if len(lines) != len(reqs):
            raise RuntimeError(f"driver answered {len(lines)} lines for {len(reqs)} requests; stderr={p.stderr[-500:]}")
        return [json.loads(l) for l in lines]

    def call(self, f: str, *args, u: dict | None = None):
        r = {"f": f, "a": list(args)}
        if u:
            r["u"] = u
        return self.batch([r])[0]
