"""C08 — parsing cyclic and deep schema graphs terminates with balanced state.

vf.corr.parser ties the tracker/parser models to the real loader and evaluates C08's invariants on random schema graphs.  The model's
node language has no null / typeless nodes, so a second, implementation-only monitor below feeds documents with null property nodes,
null composition members and empty schemas and checks the rest state directly on the real tracker.
"""
from __future__ import annotations

import json

from .. import findings
from ..common import Run, rng
from . import _generic as g, _parser

PROP = "C08"


def monitor_doc(doc: dict, max_depth: int | None = None) -> list[str]:
    """Load `doc` with the real loader while watching the real tracker; returns violated invariants."""
    import os
    import warnings
    from pyopenapi_gen.core.parsing import unified_cycle_detection as ucd
    from pyopenapi_gen.core.parsing import schema_parser as sp
    bad: list[str] = []
    seen_ctx = {}
    orig_enter, orig_exit = ucd.unified_enter_schema, ucd.unified_exit_schema
    names_attr = [m for m in (sp,) if hasattr(m, "unified_enter_schema")]

    def enter(name, context, *a, **k):
        seen_ctx["ctx"] = context
        r = orig_enter(name, context, *a, **k)
        if context.recursion_depth < 0:
            bad.append(f"depth {context.recursion_depth} < 0 after enter({name!r})")
        return r

    def exit_(name, context, *a, **k):
        r = orig_exit(name, context, *a, **k)
        if context.recursion_depth < 0:
            bad.append(f"depth {context.recursion_depth} < 0 after exit({name!r})")
        return r
    old_env = os.environ.get("PYOPENAPI_MAX_DEPTH")
    if max_depth is not None:
        os.environ["PYOPENAPI_MAX_DEPTH"] = str(max_depth)
    ucd.unified_enter_schema, ucd.unified_exit_schema = enter, exit_
    for m in names_attr:
        m.unified_enter_schema, m.unified_exit_schema = enter, exit_
    try:
        from pyopenapi_gen.core.loader.loader import load_ir_from_spec
        with warnings.catch_warnings():
            warnings.simplefilter("ignore")
            try:
                ir = load_ir_from_spec(doc)
            except RecursionError:
                return ["RecursionError: the interpreter stack was exhausted"]
            except Exception as e:  # a visible failure is allowed unless it is the post-condition on declared names
                if "was not parsed" in str(e):
                    return [f"declared name missing: {e}"]
                return [f"load raised {type(e).__name__}: {str(e)[:160]}"]
        ctx = seen_ctx.get("ctx")
        if ctx is not None:
            if ctx.recursion_depth != 0:
                bad.append(f"recursion_depth = {ctx.recursion_depth} at rest")
            stack = list(getattr(ctx, "schema_stack", []))
            if stack:
                bad.append(f"schema_stack not empty at rest: {stack[:5]}")
            inprog = [n for n, st in getattr(ctx, "schema_states", {}).items() if "PROGRESS" in str(st).upper()]
            if inprog:
                bad.append(f"left IN_PROGRESS: {inprog[:5]}")
        from pyopenapi_gen.core.utils import NameSanitizer
        for n in doc.get("components", {}).get("schemas", {}):
            if n not in ir.schemas and NameSanitizer.sanitize_class_name(n) not in ir.schemas:
                bad.append(f"declared schema {n!r} absent from the result")
    finally:
        ucd.unified_enter_schema, ucd.unified_exit_schema = orig_enter, orig_exit
        for m in names_attr:
            m.unified_enter_schema, m.unified_exit_schema = orig_enter, orig_exit
        if max_depth is not None:
            if old_env is None:
                os.environ.pop("PYOPENAPI_MAX_DEPTH", None)
            else:
                os.environ["PYOPENAPI_MAX_DEPTH"] = old_env
    return bad


def null_docs(r, n: int):
    names = ["Alpha", "Beta", "Gamma", "Delta", "Omega", "Kappa"]
    for i in range(n):
        k = r.randint(2, 6)
        schemas = {}
        for j, nm in enumerate(r.sample(names, k)):
            props = {}
            for p in r.sample(["id", "name", "extra", "meta", "child", "note", "items"], r.randint(1, 4)):
                c = r.random()
                if c < 0.3:
                    props[p] = None                                   # YAML `extra:` with nothing after the colon
                elif c < 0.45:
                    props[p] = {}                                     # empty (typeless) schema
                elif c < 0.6 and schemas:
                    props[p] = {"$ref": f"#/components/schemas/{r.choice(list(schemas))}"}
                elif c < 0.7:
                    props[p] = {"type": "array", "items": r.choice([None, {}, {"type": "string"}])} if r.random() < 0.5 else {"type": "array"}
                elif c < 0.8:
                    props[p] = {"allOf": [None, {"type": "object", "properties": {"a": {"type": "string"}}}]}
                else:
                    props[p] = {"type": r.choice(["string", "integer", "boolean"])}
            schemas[nm] = {"type": "object", "properties": props}
        yield {"openapi": "3.0.3", "info": {"title": "N", "version": "1"}, "paths": {}, "components": {"schemas": schemas}}, r.choice([None, 3, 10])


def check(run, ctx) -> None:
    known = findings.Known(run, PROP)
    _parser.run(run, ctx, PROP, known)
    r = rng("C08:null")
    n = ctx.budget(150, 1500)
    nbad = 0
    for doc, md in null_docs(r, n):
        run.count({"doc": doc, "max_depth": md}, nontrivial=True)
        fails = monitor_doc(doc, md)
        if fails and len(run.violations) < 5:
            nbad += 1
            run.violation("input", {"null_doc": doc, "max_depth": md}, observed=fails, expected="tracker at rest (depth 0, empty stack, nothing IN_PROGRESS), every declared name present",
                          what=f"documents with null / empty schema nodes (PYOPENAPI_MAX_DEPTH={md}): " + "; ".join(fails)[:300])
    run.cov.setdefault("oracle_evaluations", {})["null-node monitor on the real tracker"] = n
    run.cov["rule"] = (run.cov.get("rule") or "") + " [null-node monitor] random documents whose property / items / allOf nodes are null or empty, depth limits {default,3,10}; rest state checked on the real ParsingContext"
    known.report_unreplayed()


def search(run, ctx) -> None:
    check(run, ctx)


def replay(run, ctx, rec) -> bool:
    case = rec.get("case") or {}
    if "null_doc" in case:
        return bool(monitor_doc(case["null_doc"], case.get("max_depth")))
    return g.replay_generic(rec)
