import Pog.Model.Basic
/-
  M-pylex — just enough of CPython 3.12's tokenizer / string-literal decoder to decide whether a piece
  of generated text is ONE inert token, and what a `"…"` literal evaluates to.

  Everything is a one-character-at-a-time automaton over `List Char` with a small state.

  A Python `str` may contain lone surrogates (`"\ud83d"`), a Lean `Char` may not: the value of a
  literal is therefore computed as a list of CODE POINTS (`CpStr = List Nat`, every element
  `≤ 0x10FFFF`, surrogates `0xD800..0xDFFF` allowed), `evalStrLitCp`; `evalStrLit` is its restriction
  to values that are Lean strings (`none` when the value contains a surrogate).

  Trusted (checked by `corr_c15.py` against `ast.parse` / `tokenize` / `ast.literal_eval` only):
  that this IS what CPython does.  Deliberately outside the model: `\N{NAME}` escapes (they need the
  Unicode name database): the model REJECTS every `\N`, CPython rejects all but valid names — the
  correspondence counts those separately.  String prefixes (`r`, `b`, `f`, `u`) and `'…'` literals are
  "not a `"…"` literal" for the model (result `none`/`false`).
-/
namespace Pog

/-- A Python `str` value as code points (lone surrogates representable). -/
abbrev CpStr := List Nat

def isOctC (c : Char) : Bool := '0' ≤ c && c ≤ '7'
def isHexC (c : Char) : Bool := isDigitA c || ('a' ≤ c && c ≤ 'f') || ('A' ≤ c && c ≤ 'F')

/-- Value of a hexadecimal digit (`0` for other characters; only used under `isHexC`). -/
def hexVal (c : Char) : Nat :=
  if isDigitA c then c.toNat - 48
  else if 'a' ≤ c && c ≤ 'f' then c.toNat - 87
  else if 'A' ≤ c && c ≤ 'F' then c.toNat - 55
  else 0

def cNUL : Char := Char.ofNat 0

/-- Scanner state inside a (non-raw) string literal. -/
inductive LexSt
  | norm                      -- ordinary characters
  | bs                        -- just after a backslash
  | bscr                      -- after backslash + CR (a following LF belongs to the same line end)
  | oct (n : Nat) (v : Nat)   -- in an octal escape: `n` digits (1 or 2) read so far, value `v`
  | hex (need : Nat) (v : Nat) -- in `\x`/`\u`/`\U`: `need ≥ 1` more hex digits wanted, value so far `v`
deriving DecidableEq, Repr

/-- What one character does to an escape in progress (states other than `norm`). -/
inductive EscOut
  | err                          -- the literal is rejected (truncated `\x`, `\U` > 10FFFF, `\N`, NUL)
  | done (out : CpStr)           -- escape complete, `out` is its value, back to `norm`
  | cont (st : LexSt)            -- escape continues
  | redo (out : CpStr)           -- escape ended BEFORE this character: emit `out`, then treat the
                                 --   character as an ordinary one
deriving DecidableEq, Repr

/-- One character in an escape state.  `\` + newline is a line continuation (value: nothing);
    unknown escapes keep the backslash (`"\d"` is backslash, `d` — a `SyntaxWarning` in 3.12). -/
def escStep : LexSt → Char → EscOut
  | .norm, _ => .redo []
  | .bs, c =>
    if c == '\n' then .done []
    else if c == '\r' then .cont .bscr
    else if c == '\\' then .done [92]
    else if c == '\'' then .done [39]
    else if c == '"' then .done [34]
    else if c == 'a' then .done [7]
    else if c == 'b' then .done [8]
    else if c == 'f' then .done [12]
    else if c == 'n' then .done [10]
    else if c == 'r' then .done [13]
    else if c == 't' then .done [9]
    else if c == 'v' then .done [11]
    else if isOctC c then .cont (.oct 1 (c.toNat - 48))
    else if c == 'x' then .cont (.hex 2 0)
    else if c == 'u' then .cont (.hex 4 0)
    else if c == 'U' then .cont (.hex 8 0)
    else if c == 'N' then .err
    else if c == cNUL then .err
    else .done [92, c.toNat]
  | .bscr, c => if c == '\n' then .done [] else .redo []
  | .oct n v, c =>
    if isOctC c then
      (if n ≥ 2 then .done [v * 8 + (c.toNat - 48)] else .cont (.oct (n + 1) (v * 8 + (c.toNat - 48))))
    else .redo [v]
  | .hex need v, c =>
    if isHexC c then
      (if need ≤ 1 then (if v * 16 + hexVal c ≤ 0x10FFFF then .done [v * 16 + hexVal c] else .err)
       else .cont (.hex (need - 1) (v * 16 + hexVal c)))
    else .err

/-! ## `"…"` : one single-line double-quoted literal -/

/-- Result of one character inside a `"…"` literal. -/
inductive LitOut
  | err
  | close (out : CpStr)               -- this character is the terminating quote
  | next (st : LexSt) (out : CpStr)
deriving DecidableEq, Repr

/-- An ordinary character (state `norm`) of a `"…"` literal: a raw LF / CR ends the physical line
    (unterminated literal), a raw NUL makes CPython reject the whole source. -/
def litNorm (c : Char) : LitOut :=
  if c == '"' then .close []
  else if c == '\\' then .next .bs []
  else if c == '\n' || c == '\r' || c == cNUL then .err
  else .next .norm [c.toNat]

def litStep (st : LexSt) (c : Char) : LitOut :=
  match st with
  | .norm => litNorm c
  | st =>
    match escStep st c with
    | .err => .err
    | .done out => .next .norm out
    | .cont st' => .next st' []
    | .redo out =>
      match litNorm c with
      | .err => .err
      | .close o => .close (out ++ o)
      | .next st' o => .next st' (out ++ o)

/-- Run over the text after the opening quote: the value, provided the terminating quote is the LAST
    character of the text. -/
def litRun (st : LexSt) : Str → Option CpStr
  | [] => none
  | c :: cs =>
    match litStep st c with
    | .err => none
    | .close out => if cs.isEmpty then some out else none
    | .next st' out => (litRun st' cs).map (out ++ ·)

/-- The text is exactly one non-raw `"…"` literal; its value as code points. -/
def evalStrLitCp : Str → Option CpStr
  | '"' :: rest => litRun .norm rest
  | _ => none

/-- Code points → Lean string; `none` if a surrogate (or an out-of-range value) occurs. -/
def cpsToStr : CpStr → Option Str
  | [] => some []
  | n :: ns => if n.isValidChar then (cpsToStr ns).map (Char.ofNat n :: ·) else none

def strToCps (s : Str) : CpStr := s.map Char.toNat

/-- The text is exactly one non-raw `"…"` literal evaluating to the (surrogate-free) string. -/
def evalStrLit (t : Str) : Option Str := (evalStrLitCp t).bind cpsToStr

/-! ## `"""…"""` : one triple-quoted literal -/

inductive TqOut
  | err
  | close
  | next (st : LexSt) (q : Nat)     -- `q` = number of unescaped `"` just seen (0, 1, 2)
deriving DecidableEq, Repr

def tqNorm (q : Nat) (c : Char) : TqOut :=
  if c == '"' then (if q ≥ 2 then .close else .next .norm (q + 1))
  else if c == '\\' then .next .bs 0
  else if c == cNUL then .err
  else .next .norm 0

def tqStep (st : LexSt) (q : Nat) (c : Char) : TqOut :=
  match st with
  | .norm => tqNorm q c
  | st =>
    match escStep st c with
    | .err => .err
    | .done _ => .next .norm 0
    | .cont st' => .next st' 0
    | .redo _ => tqNorm 0 c

/-- Run over the text after the opening `"""`: true iff the first unescaped `"""` is the end of the text
    and every escape before it is well formed. -/
def tqRun (st : LexSt) (q : Nat) : Str → Bool
  | [] => false
  | c :: cs =>
    match tqStep st q c with
    | .err => false
    | .close => cs.isEmpty
    | .next st' q' => tqRun st' q' cs

/-- The text is exactly one non-raw `"""…"""` literal (nothing before, nothing after). -/
def isOneTripleQuoted : Str → Bool
  | '"' :: '"' :: '"' :: rest => tqRun .norm 0 rest
  | _ => false

/-! ## `# …` : one comment line -/

/-- No physical line end (`\n`, `\r` — CPython translates a lone CR to a newline) and no NUL (CPython
    rejects any source containing one).  `\x0b`, `\x0c`, U+0085, U+2028 … are NOT line ends. -/
def commentBody (s : Str) : Bool := s.all (fun c => !(c == '\n' || c == '\r' || c == cNUL))

/-- `#` followed by a comment body: the text is one COMMENT token. -/
def isOneCommentLine : Str → Bool
  | '#' :: rest => commentBody rest
  | _ => false

/-- Strip the indentation a `CodeWriter` puts in front of a line. -/
def dropIndent : Str → Str
  | [] => []
  | c :: cs => if c == ' ' then dropIndent cs else c :: cs

end Pog
