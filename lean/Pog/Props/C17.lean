import Pog.Lemmas.Http
/-
  C17 — the transport applies defaults, per-request headers and auth as documented.

  FULL STATEMENT: for every combination of transport default headers, per-request headers and
  authentication plug-ins (bearer token, API key in header / query / cookie, extra headers, OAuth2 with
  refresh, compositions in any order) the request that leaves the transport carries the per-request
  headers over the defaults, then each plug-in's contribution in composition order, with an API key
  placed in the location and under the name it was configured with; the caller's query parameters,
  body and other arguments pass through unchanged.

  What is proved about the model `Pog.Model.Http` (= `HttpxTransport._prepare_headers/request`,
  `CompositeAuth`, `BearerAuth`, `HeadersAuth`, `ApiKeyAuth`, `OAuth2Auth`; tied to the code by corr_c17.py).
  Every part of the full statement holds of the current code (F27a and F27b are repaired).

    composition order     : a composite is the left-to-right Kleisli fold of its plug-ins          (full)
    sequential writes     : the headers dict is `{}` merged (`merge_headers`: a write deletes the other
                            spellings of its name) with defaults, request headers, plug-in writes, in that
                            order; an EXACT key is present iff the last writer of that name spelled it so   (full)
    header precedence     : on the WIRE (case-insensitive names) the last writer wins, one line per name  (full)
                            — F27a repaired: `x-b` default + `X-B` per-request header used to be BOTH sent
    API key, header       : placed under the configured name                                        (full)
    API key, query/cookie : placed in the configured location under the configured name             (full)
                            — F27b repaired: the key used to reach httpx NOWHERE
    API key, other        : `ValueError`                                                            (full)
    bearer_token          : used iff no auth plug-in is configured                                  (full)
    passthrough           : every other keyword reaches httpx unchanged; params / cookies are the caller's
                            (same value, absent stays absent) unless a plug-in places an API key there:
                            then the caller's entries with the plug-ins' writes applied in order        (full)
    OAuth2 refresh        : the header carries `cb tok` iff it is non-empty and different, else `tok` (full)
-/
namespace Pog.C17
open Pog

/-! ## composition order -/

/-- `CompositeAuth(*ps).authenticate_request` applies the plug-ins one after the other, left to right,
    each on the result of the previous one; the first exception aborts (monadic fold in `Except`). -/
theorem composite_order (ps : List Plugin) (a : RequestArgs) :
    authenticate (.composite ps) a = ps.foldlM (fun acc p => authenticate p acc) a := by
  rw [authenticate_composite]; exact authenticateAll_eq_foldlM ps a

/-- The headers written by a composite are the concatenation of its members' writes, in order; nesting
    is flattened. -/
theorem composite_contrib (ps : List Plugin) :
    contrib (.composite ps) = (ps.map contrib).flatten := by
  rw [contrib]
  induction ps with
  | nil => simp [contribAll]
  | cons p ps ih => simp [contribAll, ih]

/-! ## the headers dict = sequential case-insensitive writes -/

/-- `_prepare_headers` raises exactly the exception of the first failing plug-in, otherwise its result is
    `{}` merged — `merge_headers`, in this order — with the default headers, the per-request
    headers, and each plug-in's writes in composition order (or the `bearer_token` line). -/
theorem headers_are_sequential_writes (defaults reqHeaders : Option Dict) (auth : Option Plugin)
    (bearer : Option Str) :
    prepareHeaders defaults reqHeaders auth bearer =
      match auth.bind firstErr with
      | some e => .error e
      | none => .ok (dictUpdateCI [] (allWrites defaults reqHeaders auth bearer)) :=
  prepareHeaders_spec defaults reqHeaders auth bearer

/-- The dict handed to httpx, read by EXACT (case-sensitive) key: `k` is present iff the LAST writer of that
    header name — in any spelling, among defaults, per-request headers, plug-ins in order — spelled it `k`,
    and then it carries that writer's value; in particular a key that was only written in an earlier layer
    under another spelling is gone.  No key occurs twice. -/
theorem header_last_writer_wins_exact (defaults reqHeaders : Option Dict) (auth : Option Plugin)
    (bearer : Option Str) (res : Dict) (h : prepareHeaders defaults reqHeaders auth bearer = .ok res) :
    (∀ k, dictGet res k =
        match lastWriterCI (allWrites defaults reqHeaders auth bearer) k with
        | some w => if w.1 = k then some w.2 else none
        | none => none)
    ∧ (∀ k, k ∈ dictKeys res ↔ ∃ v, lastWriterCI (allWrites defaults reqHeaders auth bearer) k = some (k, v))
    ∧ (dictKeys res).Nodup := by
  rw [prepareHeaders_spec] at h
  cases he : auth.bind firstErr with
  | some e => simp [he] at h
  | none =>
    simp only [he, Except.ok.injEq] at h
    subst h
    have hg : ∀ k, dictGet (dictUpdateCI [] (allWrites defaults reqHeaders auth bearer)) k =
        match lastWriterCI (allWrites defaults reqHeaders auth bearer) k with
        | some w => if w.1 = k then some w.2 else none
        | none => none := by
      intro k; rw [dictGet_dictUpdateCI]; cases lastWriterCI (allWrites defaults reqHeaders auth bearer) k <;> simp [dictGet]
    refine ⟨hg, fun k => ?_, nodup_dictUpdateCI _ _ (by simp [dictKeys])⟩
    rw [← dictGet_isSome_iff, hg]
    cases hl : lastWriterCI (allWrites defaults reqHeaders auth bearer) k with
    | none => simp
    | some w =>
      obtain ⟨k1, v1⟩ := w
      by_cases hk : k1 = k
      · subst hk; simp
      · simp [hk]

/-! ## header precedence on the wire -/

/-- FULL STATEMENT (F27a repaired).  For every combination of default headers, per-request headers, auth
    plug-in (any composition) and bearer token, whatever the spellings: under each header name (ASCII
    case-insensitive, as httpx and HTTP read it) the request carries the value of the LAST writer among
    [defaults, per-request headers, plug-ins in composition order / bearer token] and nothing else — i.e.
    plug-ins over per-request headers over defaults; every written name is sent on exactly one line. -/
theorem header_precedence (defaults reqHeaders : Option Dict) (auth : Option Plugin)
    (bearer : Option Str) (res : Dict)
    (h : prepareHeaders defaults reqHeaders auth bearer = .ok res) :
    (∀ name, wireLookup res name = (lastWriteCI (allWrites defaults reqHeaders auth bearer) name).toList)
    ∧ (∀ name, wireLookup res name =
        (((lastWriteCI (authWrites auth bearer) name).or (lastWriteCI (reqHeaders.getD []) name)).or
          (lastWriteCI (defaults.getD []) name)).toList)
    ∧ (∀ k ∈ dictKeys (allWrites defaults reqHeaders auth bearer), (wireLookup res k).length = 1)
    ∧ (∀ name, (wireLookup res name).length ≤ 1) := by
  rw [prepareHeaders_spec] at h
  cases he : auth.bind firstErr with
  | some e => simp [he] at h
  | none =>
    simp only [he, Except.ok.injEq] at h
    subst h
    have hw := wireLookup_dictUpdateCI_nil (allWrites defaults reqHeaders auth bearer)
    refine ⟨hw, fun name => ?_, fun k hk => ?_, fun name => ?_⟩
    · rw [hw]; simp [allWrites, lastWriteCI_append, Option.or_assoc]
    · rw [hw]
      have := (lastWriteCI_isSome_of_mem _ k k hk (ciEq_refl k))
      cases hl : lastWriteCI (allWrites defaults reqHeaders auth bearer) k with
      | none => simp [hl] at this
      | some v => simp
    · rw [hw]; cases lastWriteCI (allWrites defaults reqHeaders auth bearer) name <;> simp

/-- The hypothesis of `header_precedence` is satisfiable on an input with case variants in every layer:
    the former witness of F27a extended by a plug-in that writes a third spelling. -/
example : ∃ res, prepareHeaders (some [("x-b".toList, "d".toList)]) (some [("X-B".toList, "r".toList)])
    (some (.headers [("X-b".toList, "p".toList)])) none = .ok res :=
  ⟨[("X-b".toList, "p".toList)], by decide⟩

/-- Former witness of F27a: default `x-b: d`, per-request `X-B: r`, no auth.  The dict handed to httpx has
    ONE entry, spelled as the per-request header spelled it, and one line `X-B: r` goes out — the value of
    the last writer of that header name. -/
theorem header_precedence_former_witness :
    prepareHeaders (some [("x-b".toList, "d".toList)]) (some [("X-B".toList, "r".toList)]) none none
        = .ok [("X-B".toList, "r".toList)]
    ∧ wireLookup [("X-B".toList, "r".toList)] "x-b".toList = ["r".toList]
    ∧ (lastWriteCI (allWrites (some [("x-b".toList, "d".toList)]) (some [("X-B".toList, "r".toList)]) none none)
        "x-b".toList).toList = ["r".toList] := by
  decide

/-- Former witness between a plug-in and a per-request header: `BearerAuth` writes `Authorization`, the
    caller's lower-case `authorization` is replaced, one credential is sent. -/
theorem header_precedence_former_witness_auth :
    (match prepareHeaders none (some [("authorization".toList, "mine".toList)])
        (some (.bearer "t".toList)) none with
      | .ok res => wireLookup res "Authorization".toList
      | .error _ => []) = ["Bearer t".toList] := by
  decide

/-- Plug-ins among themselves: the last plug-in in composition order wins even when an earlier one used the
    spelling again that is already in the dict (`Authorization` — `authorization` — `Authorization`). -/
example :
    (match prepareHeaders (some [("X-B".toList, "d".toList), ("Accept".toList, "a".toList)])
        (some [("x-b".toList, "r".toList)])
        (some (.composite [.bearer "t".toList, .headers [("authorization".toList, "low".toList)],
          .oauth2 "o".toList none, .headers [("X-b".toList, "p".toList)]])) none with
      | .ok res => (wireLookup res "x-b".toList, wireLookup res "AUTHORIZATION".toList, res)
      | .error _ => ([], [], [])) =
      (["p".toList], ["Bearer o".toList], [("Accept".toList, "a".toList),
        ("Authorization".toList, "Bearer o".toList), ("X-b".toList, "p".toList)]) := by
  decide

/-! ## API key placement

  FULL STATEMENT (holds): `location = "header"` → one header line `name: key`; `location = "query"` → the request's
  params contain `name ↦ key`; `location = "cookie"` → the request's cookies contain `name ↦ key`. -/

/-- `location="header"`: the request carries `name: key` — in the dict under exactly the configured spelling,
    on the wire as the ONLY line of that name — whatever the defaults and per-request headers. -/
theorem apikey_header_placed (defaults reqHeaders : Option Dict) (bearer : Option Str) (key name : Str) :
    ∃ res, prepareHeaders defaults reqHeaders (some (.apiKey key locHeader name)) bearer = .ok res
      ∧ dictGet res name = some key ∧ wireLookup res name = [key] := by
  refine ⟨dictUpdateCI [] (allWrites defaults reqHeaders (some (.apiKey key locHeader name)) bearer), ?_, ?_, ?_⟩
  · rw [prepareHeaders_spec]; simp [firstErr]
  · simp [dictGet_dictUpdateCI, allWrites, authWrites, contrib, lastWriterCI_append, lastWriterCI, ciEq_refl]
  · simp [wireLookup_dictUpdateCI_nil, allWrites, authWrites, contrib, lastWriteCI_append, lastWriteCI, ciEq_refl]

/-- FULL STATEMENT (F27b repaired).  With `location="query"` the params handed to httpx are the caller's params
    (absent / `None` = `{}`) with `name ↦ key` assigned — an entry of exactly that name is replaced in place,
    otherwise the key is appended — and reading `name` back yields `key`; the cookies are the caller's and the
    headers are those built from defaults and per-request headers alone.  With `location="cookie"` the same
    with params and cookies exchanged.  For EVERY key, name, default headers, bearer token and caller arguments. -/
theorem apikey_query_cookie_placed {β : Type} (defaults : Option Dict) (bearer : Option Str)
    (c : CallerArgs β) (key name : Str) :
    (sendArgs { auth := some (.apiKey key locQuery name), bearerToken := bearer, defaultHeaders := defaults } c
      = .ok { headers := baseHeaders defaults c.headers, params := some (dictSet (c.params.getD []) name key),
              cookies := c.cookies, other := c.other }
      ∧ dictGet (dictSet (c.params.getD []) name key) name = some key)
    ∧ (sendArgs { auth := some (.apiKey key locCookie name), bearerToken := bearer, defaultHeaders := defaults } c
      = .ok { headers := baseHeaders defaults c.headers, params := c.params,
              cookies := some (dictSet (c.cookies.getD []) name key), other := c.other }
      ∧ dictGet (dictSet (c.cookies.getD []) name key) name = some key) := by
  refine ⟨⟨?_, by simp [dictGet_dictSet]⟩, ⟨?_, by simp [dictGet_dictSet]⟩⟩
  · simp [sendArgs, prepareRequest, authenticate, locQuery_ne_locHeader]
    cases c.cookies <;> rfl
  · simp [sendArgs, prepareRequest, authenticate, locCookie_ne_locHeader, locCookie_ne_locQuery]
    cases c.params <;> rfl

/-- The same inside any composite, at any position: if no plug-in raises, the request is sent and its params
    (cookies) hold `name ↦ key`, unless a LATER plug-in of the composite writes the same query (cookie) name — then
    that later one wins, as composition order demands. -/
theorem apikey_query_cookie_placed_in_composite {β : Type} (defaults : Option Dict) (bearer : Option Str)
    (c : CallerArgs β) (pre post : List Plugin) (key name : Str) (hne : firstErrAll (pre ++ post) = none) :
    (name ∉ dictKeys (contribQAll post) →
      ∃ s, sendArgs { auth := some (.composite (pre ++ [.apiKey key locQuery name] ++ post)), bearerToken := bearer,
                      defaultHeaders := defaults } c = .ok s
        ∧ s.params.bind (fun d => dictGet d name) = some key)
    ∧ (name ∉ dictKeys (contribCAll post) →
      ∃ s, sendArgs { auth := some (.composite (pre ++ [.apiKey key locCookie name] ++ post)), bearerToken := bearer,
                      defaultHeaders := defaults } c = .ok s
        ∧ s.cookies.bind (fun d => dictGet d name) = some key) := by
  have hne' := hne
  rw [firstErrAll_append] at hne'
  have hpre : firstErrAll pre = none := by
    cases h : firstErrAll pre with
    | none => rfl
    | some e => simp [h] at hne'
  have hpost : firstErrAll post = none := by simpa [hpre] using hne'
  have hlw : ∀ (ws : Dict), name ∉ dictKeys ws → lastWrite ws name = none := by
    intro ws h
    cases hl : lastWrite ws name with
    | none => rfl
    | some v => exact absurd ((lastWrite_isSome_iff ws name).mp (by simp [hl])) h
  constructor
  · intro hq
    rw [sendArgs_spec]
    have hf : (some (Plugin.composite (pre ++ [.apiKey key locQuery name] ++ post))).bind firstErr = none := by
      simp [firstErrAll_append, firstErrAll_cons, firstErr, hpre, hpost]
    simp only [hf]
    refine ⟨_, rfl, ?_⟩
    simp [queryWrites, contribQAll_append, contribQAll, contribQ, dictGet_writeInto, lastWrite_append, lastWrite,
      hlw _ hq]
  · intro hq
    rw [sendArgs_spec]
    have hf : (some (Plugin.composite (pre ++ [.apiKey key locCookie name] ++ post))).bind firstErr = none := by
      simp [firstErrAll_append, firstErrAll_cons, firstErr, hpre, hpost]
    simp only [hf]
    refine ⟨_, rfl, ?_⟩
    simp [cookieWrites, contribCAll_append, contribCAll, contribC, dictGet_writeInto, lastWrite_append, lastWrite,
      hlw _ hq]

/-- The hypotheses of `apikey_query_cookie_placed_in_composite` are satisfiable with plug-ins on both sides. -/
example : firstErrAll ([.bearer "b".toList] ++ [.apiKey "k".toList locQuery "other".toList, .headers []]) = none
    ∧ "api_key".toList ∉ dictKeys (contribQAll [.apiKey "k".toList locQuery "other".toList, .headers []]) := by
  decide

/-- A query / cookie API key does not touch the headers: removing that plug-in from a composite, at any
    position, does not change what `_prepare_headers` returns (headers or exception). -/
theorem apikey_query_cookie_leaves_headers (defaults reqHeaders : Option Dict) (bearer : Option Str)
    (pre post : List Plugin) (key name loc : Str) (hloc : loc = locQuery ∨ loc = locCookie) :
    prepareHeaders defaults reqHeaders (some (.composite (pre ++ [.apiKey key loc name] ++ post))) bearer
      = prepareHeaders defaults reqHeaders (some (.composite (pre ++ post))) bearer := by
  have hq : locQuery ≠ locHeader := by decide
  have hc1 : locCookie ≠ locHeader := by decide
  have he : firstErr (.apiKey key loc name) = none := by
    rcases hloc with h | h <;> subst h <;> simp [firstErr]
  have hcn : contrib (.apiKey key loc name) = [] := by
    rcases hloc with h | h <;> subst h <;> simp [contrib, hq, hc1]
  simp only [prepareHeaders_spec, Option.bind_some, firstErr_composite, allWrites, authWrites,
    contrib_composite, firstErrAll_append, contribAll_append, firstErrAll_cons, contribAll, he, hcn]
  simp [firstErrAll]

/-- Former witness of F27b on the plain configuration: `ApiKeyAuth("SECRET", "query", "api_key")`, a caller that
    passes no params: httpx gets `params={"api_key": "SECRET"}`, no cookies, no headers; with
    `ApiKeyAuth("SECRET", "cookie", "sid")` it gets `cookies={"sid": "SECRET"}`. -/
theorem apikey_query_placed_former_witness :
    ((match sendArgs { auth := some (.apiKey "SECRET".toList "query".toList "api_key".toList) }
        ({ other := () } : CallerArgs Unit) with
      | .ok s => s.params
      | .error _ => none) = some [("api_key".toList, "SECRET".toList)]
    ∧ (match sendArgs { auth := some (.apiKey "SECRET".toList "query".toList "api_key".toList) }
        ({ other := () } : CallerArgs Unit) with
      | .ok s => (s.headers, s.cookies)
      | .error _ => ([("raised".toList, [])], none)) = ([], none))
    ∧ ((match sendArgs { auth := some (.apiKey "SECRET".toList "cookie".toList "sid".toList) }
        ({ other := () } : CallerArgs Unit) with
      | .ok s => s.cookies
      | .error _ => none) = some [("sid".toList, "SECRET".toList)]
    ∧ (match sendArgs { auth := some (.apiKey "SECRET".toList "cookie".toList "sid".toList) }
        ({ other := () } : CallerArgs Unit) with
      | .ok s => (s.headers, s.params)
      | .error _ => ([("raised".toList, [])], none)) = ([], none)) :=
  ⟨⟨by decide, by decide⟩, ⟨by decide, by decide⟩⟩

/-- Any other `location` string: `ValueError("Invalid API key location: <loc>")` out of
    `_prepare_headers` (hence out of `request`, before httpx is called). -/
theorem apikey_bad_location_raises {β : Type} (defaults : Option Dict) (bearer : Option Str) (c : CallerArgs β)
    (key name loc : Str) (h : loc ≠ locHeader ∧ loc ≠ locQuery ∧ loc ≠ locCookie) :
    prepareHeaders defaults c.headers (some (.apiKey key loc name)) bearer
      = .error (.valueError (badLocationMsg loc))
    ∧ sendArgs { auth := some (.apiKey key loc name), bearerToken := bearer, defaultHeaders := defaults } c
      = .error (.valueError (badLocationMsg loc)) := by
  have hp : prepareHeaders defaults c.headers (some (.apiKey key loc name)) bearer
      = .error (.valueError (badLocationMsg loc)) := by
    rw [prepareHeaders_spec]; simp [firstErr, h.1, h.2.1, h.2.2]
  exact ⟨hp, by rw [sendArgs_spec]; simp [firstErr, h.1, h.2.1, h.2.2]⟩

example : "Header".toList ≠ locHeader ∧ "Header".toList ≠ locQuery ∧ "Header".toList ≠ locCookie := by decide

/-- A composite raises iff one of its members does (the first one's exception), never otherwise. -/
theorem composite_raises_iff (ps : List Plugin) (a : RequestArgs) :
    (∃ e, authenticate (.composite ps) a = .error e) ↔ ∃ p ∈ ps, firstErr p ≠ none := by
  have key : firstErrAll ps ≠ none ↔ ∃ p ∈ ps, firstErr p ≠ none := by
    induction ps with
    | nil => simp [firstErrAll]
    | cons p ps ih =>
      simp only [firstErrAll, List.mem_cons, exists_eq_or_imp]
      cases hp : firstErr p with
      | some e => simp
      | none => simpa using ih
  rw [← key]
  cases hf : firstErrAll ps with
  | some e =>
    have := authenticate_of_firstErr_some (.composite ps) a e (by simpa [firstErr] using hf)
    simp [this]
  | none =>
    obtain ⟨r, hr⟩ := authenticate_of_firstErr_none (.composite ps) a (by simpa [firstErr] using hf)
    simp [hr]

/-! ## bearer_token -/

/-- With an auth plug-in the `bearer_token` constructor argument is ignored; without one it sets
    `Authorization: Bearer <t>` (replacing a default / per-request header of that name, however spelled). -/
theorem bearer_token_only_without_auth (defaults reqHeaders : Option Dict) :
    (∀ (p : Plugin) (bearer : Option Str),
        prepareHeaders defaults reqHeaders (some p) bearer = prepareHeaders defaults reqHeaders (some p) none)
    ∧ (∀ t : Str, ∃ res, prepareHeaders defaults reqHeaders none (some t) = .ok res
        ∧ res = dictSetCI (baseHeaders defaults reqHeaders) hAuthorization (bearerValue t)
        ∧ dictGet res hAuthorization = some (bearerValue t))
    ∧ prepareHeaders defaults reqHeaders none none = .ok (baseHeaders defaults reqHeaders) := by
  refine ⟨fun p bearer => by simp [prepareHeaders, prepareRequest],
    fun t => ⟨_, by simp [prepareHeaders, prepareRequest], rfl, ?_⟩, by simp [prepareHeaders, prepareRequest]⟩
  simp [dictGet_dictSetCI]

/-! ## passthrough -/

/-- Query / cookie writes come from `ApiKeyAuth(location="query"|"cookie")` only: every other plug-in kind, and the
    `bearer_token` path, writes none. -/
theorem query_cookie_writes_only_from_apikey (tok : Str) (cb : Option (Str → Str)) (h : Dict) (key name : Str) :
    contribQ (.bearer tok) = [] ∧ contribC (.bearer tok) = []
    ∧ contribQ (.headers h) = [] ∧ contribC (.headers h) = []
    ∧ contribQ (.oauth2 tok cb) = [] ∧ contribC (.oauth2 tok cb) = []
    ∧ contribQ (.apiKey key locHeader name) = [] ∧ contribC (.apiKey key locHeader name) = []
    ∧ contribQ (.apiKey key locCookie name) = [] ∧ contribC (.apiKey key locQuery name) = []
    ∧ queryWrites none = [] ∧ cookieWrites none = [] := by
  simp [contribQ, contribC, queryWrites, cookieWrites, locQuery_ne_locHeader.symm, locCookie_ne_locHeader.symm,
    locCookie_ne_locQuery, locCookie_ne_locQuery.symm]

/-- Whatever the plug-in configuration: if the request is sent, httpx receives every other keyword unchanged;
    its `params` (`cookies`) are the caller's with the plug-ins' query (cookie) API keys assigned in composition
    order — so exactly the caller's value (absent stays absent) when no plug-in places a key there, and in any
    case every caller entry whose name no plug-in writes keeps its value; the headers depend on the caller's
    `headers` only; and the request is sent unless a plug-in raises. -/
theorem passthrough {β : Type} (t : Transport) (c : CallerArgs β) :
    (∀ s, sendArgs t c = .ok s →
        s.other = c.other
        ∧ s.params = writeInto c.params (queryWrites t.auth)
        ∧ s.cookies = writeInto c.cookies (cookieWrites t.auth)
        ∧ (queryWrites t.auth = [] → s.params = c.params)
        ∧ (cookieWrites t.auth = [] → s.cookies = c.cookies)
        ∧ (∀ k, k ∉ dictKeys (queryWrites t.auth) →
            s.params.bind (fun d => dictGet d k) = c.params.bind (fun d => dictGet d k))
        ∧ (∀ k, k ∉ dictKeys (cookieWrites t.auth) →
            s.cookies.bind (fun d => dictGet d k) = c.cookies.bind (fun d => dictGet d k))
        ∧ prepareHeaders t.defaultHeaders c.headers t.auth t.bearerToken = .ok s.headers)
    ∧ ((∃ s, sendArgs t c = .ok s) ↔ t.auth.bind firstErr = none) := by
  have hlw : ∀ (ws : Dict) (k : Str), k ∉ dictKeys ws → lastWrite ws k = none := by
    intro ws k h
    cases hl : lastWrite ws k with
    | none => rfl
    | some v => exact absurd ((lastWrite_isSome_iff ws k).mp (by simp [hl])) h
  constructor
  · intro s hs
    rw [sendArgs_spec] at hs
    rw [prepareHeaders_spec]
    cases he : t.auth.bind firstErr with
    | some e => simp [he] at hs
    | none =>
      simp only [he, Except.ok.injEq] at hs
      subst hs
      refine ⟨rfl, rfl, rfl, fun h => by simp [h], fun h => by simp [h], fun k hk => ?_, fun k hk => ?_, rfl⟩
      · simp [dictGet_writeInto, hlw _ k hk]
      · simp [dictGet_writeInto, hlw _ k hk]
  · rw [sendArgs_spec]
    cases t.auth.bind firstErr <;> simp

/-! ## OAuth2 refresh -/

/-- With a refresh callback the header carries `cb tok` when that is non-empty and differs from `tok`,
    otherwise `tok`; the plug-in keeps that token for the next request.  Without a callback: `tok`. -/
theorem oauth2_refresh (defaults reqHeaders : Option Dict) (bearer : Option Str) (tok : Str) (cb : Str → Str) :
    (∃ res, prepareHeaders defaults reqHeaders (some (.oauth2 tok (some cb))) bearer = .ok res
      ∧ dictGet res hAuthorization
          = some (bearerValue (if cb tok ≠ [] ∧ cb tok ≠ tok then cb tok else tok)))
    ∧ (∃ res, prepareHeaders defaults reqHeaders (some (.oauth2 tok none)) bearer = .ok res
      ∧ dictGet res hAuthorization = some (bearerValue tok))
    ∧ pluginAfter (.oauth2 tok (some cb))
        = .oauth2 (if cb tok ≠ [] ∧ cb tok ≠ tok then cb tok else tok) (some cb) := by
  refine ⟨⟨dictUpdateCI [] (allWrites defaults reqHeaders (some (.oauth2 tok (some cb))) bearer), ?_, ?_⟩,
    ⟨dictUpdateCI [] (allWrites defaults reqHeaders (some (.oauth2 tok none)) bearer), ?_, ?_⟩, ?_⟩
  · rw [prepareHeaders_spec]; simp [firstErr]
  · simp [dictGet_dictUpdateCI, allWrites, authWrites, contrib, lastWriterCI_append, lastWriterCI, ciEq_refl, effToken]
  · rw [prepareHeaders_spec]; simp [firstErr]
  · simp [dictGet_dictUpdateCI, allWrites, authWrites, contrib, lastWriterCI_append, lastWriterCI, ciEq_refl, effToken]
  · simp [pluginAfter, effToken]

/-- Non-vacuity: refreshed, refused because empty, refused because equal; second request after a refresh. -/
example :
    let cb : Str → Str := fun t => if t = "a".toList then "b".toList else if t = "b".toList then [] else t
    prepareHeaders none none (some (.oauth2 "a".toList (some cb))) none
        = .ok [("Authorization".toList, "Bearer b".toList)]
    ∧ prepareHeaders none none (some (.oauth2 "b".toList (some cb))) none
        = .ok [("Authorization".toList, "Bearer b".toList)]
    ∧ prepareHeaders none none (some (.oauth2 "c".toList (some cb))) none
        = .ok [("Authorization".toList, "Bearer c".toList)]
    ∧ prepareHeaders none none (some (pluginAfter (.oauth2 "a".toList (some cb)))) none
        = .ok [("Authorization".toList, "Bearer b".toList)] := by
  decide

end Pog.C17
