import Pog.Model.Conv
/-
  M-conv, part 2 — `DataclassSerializer.serialize` (core/utils.py:358-520) over an explicit HEAP, so that
  reference cycles and sharing can be expressed.

  Python                                         model
  ---------------------------------------------  ------------------------------------------------------
  an object reference / an immediate             `HVal` (`.ref id` for list, dict and dataclass objects)
  the objects that exist                         `Heap` (id ↦ `HObj`)
  what `unstructure_to_dict` returns             `PV`: JSON plus `.leak id` (a LIVE dataclass instance left in the
                                                 output: a field annotated with an unresolved forward reference is passed
                                                 through unchanged) and `.opaque` (bytearray, other objects: not JSON)
  `converter.unstructure` following references   `hUnstr … visited` (fuel = nesting depth)
  `_with_cycle_guard` / `_objects_in_progress`    `guardEnter`, the `visited.contains id` tests of `hUnstr`: the unstructure function
                                                 of every list, dict and dataclass type returns `None` for an object whose id
                                                 is in the set, and adds the id while it runs
  `_serialize_with_tracking(obj, visited)`       `serF … visited reg obj`
  `_ensure_all_dicts(obj, visited)`              `PV.ensureWith track reg obj` (`track` = `_serialize_with_tracking` with that `visited`)
  `_remove_none_values`                          `PV.removeNone`
  the `visited` set                              ONE set object is shared by all nested calls; every branch that adds an id
                                                 removes it again in `finally`, so at any call it holds exactly the ids of the
                                                 enclosing list / dataclass objects: passed down as `id :: visited`
  the registered unstructure hooks               threaded through (`unstructure_to_dict` registers the classes reachable from a
                                                 dataclass instance; the values of a dict are serialised one by one, so an
                                                 instance held by a dict registers its class like any other)
  RecursionError                                 `.error .fuel` for EVERY fuel (`C16.serializer_terminates`: never)

  `unstructure_to_dict(obj, visited)` hands the serializer's OWN set to cattrs: the set holds the ids of the enclosing
  objects whether the serializer's recursion or cattrs' walk entered them (F26, repaired: before, cattrs walked fields
  typed by a resolved class, `Any`, unions and dict values without consulting it).
-/
namespace Pog

inductive HVal where
  | none
  | bool (b : Bool)
  | int (n : Int)
  | str (s : Str)
  | bytes (v : Str)
  | bytearray (v : Str)
  | datetime (v : Str)
  | date (v : Str)
  | time (v : Str)
  | uuid (v : Str)
  | enum (cls : Str) (v : JsonV)
  | opaque (kind : Str) (v : Str)
  | ref (id : Nat)
  deriving Repr, Inhabited, DecidableEq

inductive HObj where
  | list (items : List HVal)
  | dict (kvs : List (Str × HVal))
  | inst (cls : Str) (attrs : List (Str × HVal))
  deriving Repr, Inhabited, DecidableEq

abbrev Heap := List (Nat × HObj)

def Heap.get (h : Heap) (id : Nat) : Option HObj :=
  match h with
  | [] => none
  | (i, o) :: rest => if i = id then some o else Heap.get rest id

inductive PV where
  | null
  | bool (b : Bool)
  | int (n : Int)
  | str (s : Str)
  | arr (xs : List PV)
  | obj (kvs : List (Str × PV))
  | leak (id : Nat)
  | opaque (kind : Str) (v : Str)
  deriving Repr, Inhabited

mutual
def PV.ofJsonV : JsonV → PV
  | .null => .null
  | .bool b => .bool b
  | .int n => .int n
  | .str s => .str s
  | .arr xs => .arr (PV.ofJsonVs xs)
  | .obj kvs => .obj (PV.ofJsonVKvs kvs)
def PV.ofJsonVs : List JsonV → List PV
  | [] => []
  | x :: xs => PV.ofJsonV x :: PV.ofJsonVs xs
def PV.ofJsonVKvs : List (Str × JsonV) → List (Str × PV)
  | [] => []
  | (k, v) :: rest => (k, PV.ofJsonV v) :: PV.ofJsonVKvs rest
end

mutual
/-- The JSON `json.dumps` would write; `none` = it raises `TypeError` (a leaked instance, a bytearray, …). -/
def PV.toJson? : PV → Option JsonV
  | .null => some .null
  | .bool b => some (.bool b)
  | .int n => some (.int n)
  | .str s => some (.str s)
  | .arr xs => (PV.toJsons? xs).map JsonV.arr
  | .obj kvs => (PV.toJsonKvs? kvs).map JsonV.obj
  | .leak _ => none
  | .opaque _ _ => none
def PV.toJsons? : List PV → Option (List JsonV)
  | [] => some []
  | x :: xs =>
    match PV.toJson? x, PV.toJsons? xs with
    | some j, some js => some (j :: js)
    | _, _ => none
def PV.toJsonKvs? : List (Str × PV) → Option (List (Str × JsonV))
  | [] => some []
  | (k, v) :: rest =>
    match PV.toJson? v, PV.toJsonKvs? rest with
    | some j, some js => some ((k, j) :: js)
    | _, _ => none
end

def PV.isNull : PV → Bool
  | .null => true
  | _ => false

mutual
/-- `_remove_none_values`: drop `None`-valued dict entries, recursively; list items are kept. -/
def PV.removeNone : PV → PV
  | .obj kvs => .obj (PV.removeNoneKvs kvs)
  | .arr xs => .arr (PV.removeNoneList xs)
  | .null => .null
  | .bool b => .bool b
  | .int n => .int n
  | .str s => .str s
  | .leak i => .leak i
  | .opaque k v => .opaque k v
def PV.removeNoneKvs : List (Str × PV) → List (Str × PV)
  | [] => []
  | (k, v) :: rest =>
    if v.isNull then PV.removeNoneKvs rest else (k, PV.removeNone v) :: PV.removeNoneKvs rest
def PV.removeNoneList : List PV → List PV
  | [] => []
  | x :: xs => PV.removeNone x :: PV.removeNoneList xs
end

/-! ## cattrs unstructuring, following references -/

/-- The JSON scalar a `str`/`int`-mixin enum member is for `json.dumps` (non-scalar member values are not modelled). -/
def enumPV : JsonV → PV
  | .null => .null
  | .bool b => .bool b
  | .int n => .int n
  | .str s => .str s
  | _ => .opaque "enum".toList []

/-- An immediate as it appears in cattrs' output when it is passed through unchanged. -/
def immediatePV : HVal → Option PV
  | .none => some .null
  | .bool b => some (.bool b)
  | .int n => some (.int n)
  | .str s => some (.str s)
  | .enum _ v => some (enumPV v)                     -- a `str`/`int`-mixin member IS a str/int for json
  | .bytes v => some (.opaque "bytes".toList v)
  | .bytearray v => some (.opaque "bytearray".toList v)
  | .datetime v => some (.opaque "datetime".toList v)
  | .date v => some (.opaque "date".toList v)
  | .time v => some (.opaque "time".toList v)
  | .uuid v => some (.opaque "uuid".toList v)
  | .opaque k v => some (.opaque k v)
  | .ref _ => none

/-- The identity hook (types without unstructure hook): immediates as they are, a dataclass instance LEAKS;
    a list/dict object passed through unchanged is outside the model. -/
def hIdentity (heap : Heap) (v : HVal) : Except UErr PV :=
  match v with
  | .ref id =>
    match heap.get id with
    | some (.inst _ _) => .ok (.leak id)
    | _ => .error .illTyped
  | _ =>
    match immediatePV v with
    | some p => .ok p
    | none => .error .illTyped

/-- `data.isoformat()` (see `unstrIso`). -/
def hUnstrIso (c : Codecs) (v : HVal) : Except UErr PV :=
  match v with
  | .datetime d => .ok (.str (c.datetime.encode d))
  | .date d => .ok (.str (c.date.encode d))
  | .time t => .ok (.str (c.time.encode t))
  | _ => .error .attrError

def hUnstrLeaf (c : Codecs) (heap : Heap) (l : Leaf) (v : HVal) : Except UErr PV :=
  if !leafHasUnstructureHook l then hIdentity heap v else
  match l with
  | .bytes =>
    match v with
    | .bytes b => .ok (.str (c.bytes.encode b))
    | _ => .error .typeError
  | .datetime => hUnstrIso c v
  | .date => hUnstrIso c v
  | .time => hUnstrIso c v
  | .uuid =>
    match v with
    | .uuid u => .ok (.str (c.uuid.encode u))
    | .none => .ok (.str (pyStr .null))
    | .bool b => .ok (.str (pyStr (.bool b)))
    | .int i => .ok (.str (pyStr (.int i)))
    | .str s => .ok (.str s)
    | _ => .error .illTyped                       -- `str(x)` of other objects is not modelled
  | _ => hIdentity heap v

def hUnstrFields (rec : Ty → HVal → Except UErr PV) (cd : ClassDecl) (useDump : Bool)
    (attrs : List (Str × HVal)) : List Field → Except UErr (List (Str × PV))
  | [] => .ok []
  | f :: fs =>
    match aget attrs f.pyName with
    | none => .error .attrError
    | some v =>
      match rec f.ty v with
      | .error e => .error e
      | .ok j =>
        match hUnstrFields rec cd useDump attrs fs with
        | .error e => .error e
        | .ok rest => .ok ((if useDump then dumpKey cd f else f.pyName, j) :: rest)

def hAttrs (heap : Heap) : HVal → List (Str × HVal)
  | .ref id =>
    match heap.get id with
    | some (.inst _ attrs) => attrs
    | _ => []
  | _ => []

/-- The cycle guard around the unstructure function of a container type (`_with_cycle_guard`): `none` = the object
    is being unstructured already (its id is in the set) and the call returns `None`; otherwise the set the wrapped
    function runs with — the id added for an object, unchanged for an immediate (nothing refers back to one). -/
def guardEnter (visited : List Nat) : HVal → Option (List Nat)
  | .ref id => if visited.contains id then none else some (id :: visited)
  | _ => some visited

/-- `converter.unstructure(v, unstructure_as=T)` / by runtime class, on heap values, with the guard set `visited`
    (`_objects_in_progress`: the ids of the enclosing dataclass / list / dict objects).  The unstructure function of
    every `list`, `dict` and dataclass type — the per-class hook and cattrs' default alike — sits behind the guard. -/
def hUnstr (c : Codecs) : Nat → Heap → List Nat → List Str → Decls → Option Ty → HVal → Except UErr PV
  | 0, _, _, _, _, _, _ => .error .fuel
  | n + 1, heap, visited, reg, decls, some t, v =>
    match t with
    | .leaf l => hUnstrLeaf c heap l v
    | .any => hUnstr c n heap visited reg decls none v
    | .none => hIdentity heap v
    | .fwd _ => hIdentity heap v
    | .list t' =>
      match v with
      | .ref id =>
        if visited.contains id then .ok .null else
        match heap.get id with
        | some (.list items) => (mapE (hUnstr c n heap (id :: visited) reg decls (some t')) items).map PV.arr
        | _ => .error .illTyped
      | _ => .error .illTyped
    | .dict t' =>
      match v with
      | .ref id =>
        if visited.contains id then .ok .null else
        match heap.get id with
        | some (.dict kvs) => (mapValsE (hUnstr c n heap (id :: visited) reg decls (some t')) kvs).map PV.obj
        | _ => .error .illTyped
      | _ => .error .illTyped
    | .optional t' =>
      match v with
      | .none => .ok .null
      | _ => hUnstr c n heap visited reg decls (some t') v
    | .union _ _ => hUnstr c n heap visited reg decls none v
    | .enum _ members =>
      if members.all JsonV.isStr then hIdentity heap v else
      match v with
      | .enum _ m => .ok (enumPV m)
      | _ => .error .attrError
    | .dc name =>
      match aget decls name with
      | none => .error .illTyped
      | some cd =>
        match guardEnter visited v with
        | none => .ok .null
        | some visited' =>
          (hUnstrFields (fun ft fv => hUnstr c n heap visited' reg decls (some ft) fv) cd (reg.contains name)
            (hAttrs heap v) cd.fields).map (fun kvs => PV.obj (aofPairs kvs))
  | n + 1, heap, visited, reg, decls, none, v =>
    match v with
    | .none => .ok .null
    | .bool b => .ok (.bool b)
    | .int i => .ok (.int i)
    | .str s => .ok (.str s)
    | .bytes b => .ok (.str (c.bytes.encode b))
    | .datetime d => .ok (.str (c.datetime.encode d))
    | .date d => .ok (.str (c.date.encode d))
    | .time t => .ok (.str (c.time.encode t))
    | .uuid u => .ok (.str (c.uuid.encode u))
    | .enum _ m => .ok (enumPV m)
    | .bytearray b => .ok (.opaque "bytearray".toList b)
    | .opaque k s => .ok (.opaque k s)
    | .ref id =>
      match heap.get id with
      | none => .error .illTyped
      | some (.list items) =>
        if visited.contains id then .ok .null else
        (mapE (hUnstr c n heap (id :: visited) reg decls none) items).map PV.arr
      | some (.dict kvs) =>
        if visited.contains id then .ok .null else
        (mapValsE (hUnstr c n heap (id :: visited) reg decls none) kvs).map PV.obj
      | some (.inst cls _) => hUnstr c n heap visited reg decls (some (.dc cls)) v

/-! ## the serializer -/

mutual
/-- `_ensure_all_dicts(p, visited)`: post-processing of cattrs' output.  A leaked dataclass instance goes back through
    `_serialize_with_tracking` (`track`, which carries the shared `visited` set); in a dict, `None` values are skipped
    and so are values that become `None`; lists are mapped; everything else is returned as it is.  The hook registry
    is threaded through the calls of `track`. -/
def PV.ensureWith (track : List Str → Nat → Except UErr (PV × List Str)) :
    List Str → PV → Except UErr (PV × List Str)
  | reg, .leak id => track reg id
  | reg, .obj kvs =>
    match PV.ensureKvsWith track reg kvs with
    | .error e => .error e
    | .ok (ps, reg1) => .ok (.obj ps, reg1)
  | reg, .arr xs =>
    match PV.ensureListWith track reg xs with
    | .error e => .error e
    | .ok (ps, reg1) => .ok (.arr ps, reg1)
  | reg, .null => .ok (.null, reg)
  | reg, .bool b => .ok (.bool b, reg)
  | reg, .int n => .ok (.int n, reg)
  | reg, .str s => .ok (.str s, reg)
  | reg, .opaque k v => .ok (.opaque k v, reg)
def PV.ensureKvsWith (track : List Str → Nat → Except UErr (PV × List Str)) :
    List Str → List (Str × PV) → Except UErr (List (Str × PV) × List Str)
  | reg, [] => .ok ([], reg)
  | reg, (k, v) :: rest =>
    if v.isNull then PV.ensureKvsWith track reg rest else
    match PV.ensureWith track reg v with
    | .error e => .error e
    | .ok (p, reg1) =>
      match PV.ensureKvsWith track reg1 rest with
      | .error e => .error e
      | .ok (ps, reg2) => .ok (if p.isNull then ps else (k, p) :: ps, reg2)
def PV.ensureListWith (track : List Str → Nat → Except UErr (PV × List Str)) :
    List Str → List PV → Except UErr (List PV × List Str)
  | reg, [] => .ok ([], reg)
  | reg, x :: xs =>
    match PV.ensureWith track reg x with
    | .error e => .error e
    | .ok (p, reg1) =>
      match PV.ensureListWith track reg1 xs with
      | .error e => .error e
      | .ok (ps, reg2) => .ok (p :: ps, reg2)
end

/-- A left-to-right map that threads the hook registry. -/
def mapSt {α β : Type} (f : List Str → α → Except UErr (β × List Str)) :
    List Str → List α → Except UErr (List β × List Str)
  | reg, [] => .ok ([], reg)
  | reg, x :: xs =>
    match f reg x with
    | .error e => .error e
    | .ok (y, reg1) =>
      match mapSt f reg1 xs with
      | .error e => .error e
      | .ok (ys, reg2) => .ok (y :: ys, reg2)

/-- The dict branch of `_serialize_with_tracking`: every value goes through `f` (the tracked recursion), left to right,
    threading the hook registry; an entry whose value becomes `None` is dropped (keys are `str`: returned unchanged). -/
def mapStKvs {α : Type} (f : List Str → α → Except UErr (PV × List Str)) :
    List Str → List (Str × α) → Except UErr (List (Str × PV) × List Str)
  | reg, [] => .ok ([], reg)
  | reg, (k, x) :: rest =>
    match f reg x with
    | .error e => .error e
    | .ok (p, reg1) =>
      match mapStKvs f reg1 rest with
      | .error e => .error e
      | .ok (ps, reg2) => .ok (if p.isNull then ps else (k, p) :: ps, reg2)

def b64Encode (v : Str) : Str := v     -- values are kept as their canonical base64 spelling (see `Codecs.exec`)

/-- `DataclassSerializer._serialize_with_tracking(v, visited)`; returns the result and the hook registry after the
    call.  The fuel counts nested `_serialize_with_tracking` / cattrs calls (`_ensure_all_dicts` walks a finite value). -/
def serF (c : Codecs) : Nat → Heap → Decls → List Nat → List Str → HVal → Except UErr (PV × List Str)
  | 0, _, _, _, _, _ => .error .fuel
  | n + 1, heap, decls, visited, reg, v =>
    match v with
    | .none => .ok (.null, reg)
    | .bool b => .ok (.bool b, reg)
    | .int i => .ok (.int i, reg)
    | .str s => .ok (.str s, reg)
    | .enum _ m => .ok (enumPV m, reg)                -- a `str`/`int`-mixin member passes `isinstance(obj, (str, int, …))`
    | .bytearray b => .ok (.str (b64Encode b), reg)
    | .ref id =>
      if visited.contains id then .ok (.null, reg) else
      match heap.get id with
      | none => .error .illTyped
      | some (.list items) =>
        match mapSt (fun r item => serF c n heap decls (id :: visited) r item) reg items with
        | .error e => .error e
        | .ok (ps, reg1) => .ok (.arr ps, reg1)
      | some (.inst cls _) =>
        -- `unstructure_to_dict(obj)`: register, then unstructure by runtime class
        -- (the guarded hook of the class adds `id` to the shared set while cattrs walks, and removes it again)
        let reg1 := (regTy n decls [] (.dc cls)).foldl insertName reg
        match hUnstr c n heap visited reg1 decls (some (.dc cls)) v with
        | .error e => .error e
        | .ok result =>
          match PV.ensureWith (fun r i => serF c n heap decls (id :: visited) r (.ref i)) reg1 result with
          | .error e => .error e
          | .ok (p, reg2) => .ok (p.removeNone, reg2)
      | some (.dict kvs) =>
        -- the same tracked recursion as for a list, value by value (F48, repaired: a dict used to go to cattrs as a whole)
        match mapStKvs (fun r x => serF c n heap decls (id :: visited) r x) reg kvs with
        | .error e => .error e
        | .ok (ps, reg1) => .ok (.obj ps, reg1)
    | _ =>
      match hUnstr c n heap visited reg decls none v with
      | .error e => .error e
      | .ok result => .ok (result.removeNone, reg)

/-- `DataclassSerializer.serialize(obj)`. -/
def serialize (c : Codecs) (fuel : Nat) (heap : Heap) (decls : Decls) (reg : List Str) (root : HVal) :
    Except UErr (PV × List Str) :=
  serF c fuel heap decls [] reg root

mutual
/-- No dict anywhere in the value has a `None` value. -/
def PV.noNullKeys : PV → Bool
  | .obj kvs => PV.noNullKeysKvs kvs
  | .arr xs => PV.noNullKeysList xs
  | _ => true
def PV.noNullKeysKvs : List (Str × PV) → Bool
  | [] => true
  | (_, v) :: rest => !v.isNull && PV.noNullKeys v && PV.noNullKeysKvs rest
def PV.noNullKeysList : List PV → Bool
  | [] => true
  | x :: xs => PV.noNullKeys x && PV.noNullKeysList xs
end

def HObj.children : HObj → List HVal
  | .list items => items
  | .dict kvs => kvs.map Prod.snd
  | .inst _ attrs => attrs.map Prod.snd

mutual
/-- The live dataclass instances left in a cattrs result. -/
def PV.leaks : PV → List Nat
  | .leak id => [id]
  | .arr xs => PV.leaksList xs
  | .obj kvs => PV.leaksKvs kvs
  | .null => []
  | .bool _ => []
  | .int _ => []
  | .str _ => []
  | .opaque _ _ => []
def PV.leaksList : List PV → List Nat
  | [] => []
  | x :: xs => PV.leaks x ++ PV.leaksList xs
def PV.leaksKvs : List (Str × PV) → List Nat
  | [] => []
  | (_, v) :: rest => PV.leaks v ++ PV.leaksKvs rest
end

end Pog
