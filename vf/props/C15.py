"""C15 — spec text can never alter the structure of generated code."""
from __future__ import annotations

from .. import findings
from . import _generic as g

PROP = "C15"
CORR = "vf.corr.c15"
F25 = ["enum-value-unescaped", "meta-key-unescaped", "param-name-unescaped", "header-name-unescaped", "discriminator-key-unescaped", "media-type-unescaped",
       "literal-split-by-splitlines", "default-astral-surrogates", "comment-cr", "docstring-triple-quote", "docstring-trailing-quote", "docstring-bad-escape",
       "title-in-docstring", "nul-byte-in-source"]
CLASSES = {c: "F25" for c in F25}


def check(run, ctx) -> None:
    known = findings.Known(run, PROP)
    g.run_corr(run, ctx, CORR, "PyLex (refereed by ast) + Sinks (every renderer vs the real one)", quick=0.8, thorough=6.0)
    g.run_oracle(run, ctx, known, CORR, "C15 position x payload matrix through the whole generator", CLASSES, quick=0.7, thorough=5.0)
    known.report_unreplayed()


def search(run, ctx) -> None:
    check(run, ctx)


def replay(run, ctx, rec) -> bool:
    return g.replay_generic(rec)
