import Pog.Model.Basic
/-
  Model of the import machinery of the generator.

    * `relImport`        = `context/import_collector.py: make_relative_import`
    * `pyResolveRel`     = CPython's resolution of `from <dots><rest> import x` inside a module whose
                           `__package__` is given (`importlib._bootstrap._resolve_name`,
                           `importlib.util.resolve_name`)                               [TRUSTED: CPython]
    * `calcRel`          = `RenderContext.calculate_relative_path_for_internal_module`
                           (with `os.path.relpath` written out)                        [relpath: TRUSTED: CPython]
    * `moduleDotPath`    = `RenderContext.get_current_module_dot_path`
    * `classifyImport`   = `RenderContext.add_import` (the 6-step classification) followed by
                           `ImportCollector.add_import` / `add_plain_import` / `add_relative_import`

  Abstractions (checked by the correspondence on well-formed inputs only):
    * file-system paths are lists of components of the `abspath`/`resolve()`d path (no `.`/`..`/empty
      components, no symlinks); whether the import target exists as a directory is an input (`isDir`).
    * dotted names are split with `str.split(".")`; the components of the *target* handed to `calcRel` are
      non-empty and contain no path separator.
-/
namespace Pog

/-! ## dotted names -/

/-- python `s.split(".")`. -/
def splitDot : Str → List Str
  | [] => [[]]
  | c :: cs =>
    if c = '.' then [] :: splitDot cs
    else match splitDot cs with
      | [] => [[c]]
      | h :: t => (c :: h) :: t

/-- python `".".join(parts)`. -/
def joinDots (parts : List Str) : Str := joinWith ['.'] parts

/-- `module.split(".")[0]`. -/
def topLevel (m : Str) : Str := (splitDot m).headD []

/-- The `while L < len(a) and L < len(b) and a[L] == b[L]: L += 1` loop; also
    `len(os.path.commonprefix([a, b]))` on lists. -/
def commonLen : List Str → List Str → Nat
  | a :: as, b :: bs => if a = b then commonLen as bs + 1 else 0
  | _, _ => 0

/-! ## `make_relative_import` -/

/-- `make_relative_import(current_module_dot_path, target_module_dot_path)`. -/
def relImport (cur tgt : Str) : Str :=
  let cp := splitDot cur
  let tp := splitDot tgt
  let dir := cp.dropLast
  let L := commonLen dir tp
  let up := dir.length - L
  let rem := tp.drop L
  if up = 0 then
    let direct := decide (cp.length < tp.length) && startsWith tgt (cur ++ ['.'])
    let fin := if direct then tp.drop cp.length else rem
    '.' :: joinDots fin
  else List.replicate (up + 1) '.' ++ joinDots rem

/-! ## CPython: resolution of a relative module name -/

/-- leading dots of a module name and the rest. -/
def countDots : Str → Nat × Str
  | [] => (0, [])
  | c :: cs => if c = '.' then ((countDots cs).1 + 1, (countDots cs).2) else (0, c :: cs)

/-- `importlib.util.resolve_name(rel, ".".join(pkg))` as a list of components; `none` = ImportError
    (no parent package, or "attempted relative import beyond top-level package").  One dot is the
    package itself, every further dot one level up. -/
def pyResolveRel (pkg : List Str) (rel : Str) : Option (List Str) :=
  match countDots rel with
  | (0, rest) => some (splitDot rest)
  | (level + 1, rest) =>
    if pkg = [] then none
    else if pkg.length < level + 1 then none
    else some (pkg.take (pkg.length - level) ++ (if rest = [] then [] else splitDot rest))

/-! ## `calculate_relative_path_for_internal_module` -/

def dotdot : Str := ['.', '.']
def dot1 : Str := ['.']
def pySuffix : Str := ['.', 'p', 'y']

/-- `os.path.relpath(target, start=start)` on component lists. -/
def relpathC (start target : List Str) : List Str :=
  let L := commonLen start target
  let r := List.replicate (start.length - L) dotdot ++ target.drop L
  if r = [] then [dot1] else r

/-- `if not is_target_package and relative_file_path.endswith(".py"): relative_file_path[:-3]`
    (the string ends with `.py` iff its last component does). -/
def stripPyLast : List Str → List Str
  | [] => []
  | [x] => if endsWith x pySuffix then [x.take (x.length - 3)] else [x]
  | x :: y :: r => x :: stripPyLast (y :: r)

structure RelLoop where
  level : Nat
  parts : List Str
  found : Bool
  deriving DecidableEq, Repr

/-- one iteration of `for part in path_components:` -/
def relLoopStep (first : Str) (s : RelLoop) (part : Str) : RelLoop :=
  if part = dotdot then
    (if !s.found then { s with level := s.level + 1 } else s)
  else if part = dot1 then
    (if !(first = dot1) && !s.found then { s with parts := s.parts ++ [part] } else s)
  else { s with found := true, parts := s.parts ++ [part] }

/-- The absolute path of the import target: a directory `root/…/last` or a file `root/…/last.py`. -/
def targetAbs (root tparts : List Str) (isDir : Bool) : List Str :=
  if isDir then root ++ tparts
  else root ++ tparts.dropLast ++ [tparts.getLastD [] ++ pySuffix]

/-- The second half of `calculate_relative_path_for_internal_module`: from the components of the
    `os.path.relpath` result (`..`, `..`, `a`, `b`) to the dotted relative module name (`...a.b`). -/
def relToDotted (rel : List Str) : Str :=
  let st := rel.foldl (relLoopStep (rel.headD [])) ⟨0, [], false⟩
  let (dots, parts) :=
    if rel = [dot1] then (1, [])
    else if st.level = 0 && (st.parts = [] || st.parts = [dot1]) then
      (1, st.parts.filter (fun p => !(p = dot1)))
    else (st.level + 1, st.parts)
  List.replicate dots '.' ++ joinDots (parts.filter (fun p => !(p = [])))

/-- The first half: the components of `os.path.relpath(target_abs_path, start=current_dir_abs)`, the `.py`
    of a module file removed. -/
def relComponents (curFile root tparts : List Str) (isDir : Bool) : List Str :=
  let rel0 := relpathC curFile.dropLast (targetAbs root tparts isDir)
  if !isDir then stripPyLast rel0 else rel0

/-- `calculate_relative_path_for_internal_module` for a current file `curFile` (absolute components,
    last one the file name), package root `root`, target `tparts = target.split(".")`; `isDir` is the
    answer of `os.path.isdir(root/…/target)`.  `none` = the self-import `return None`. -/
def calcRel (curFile root tparts : List Str) (isDir : Bool) : Option Str :=
  if curFile = targetAbs root tparts isDir then none
  else some (relToDotted (relComponents curFile root tparts isDir))

/-! ## `get_current_module_dot_path` -/

/-- `Path.relative_to`: `none` = ValueError. -/
def relativeTo : List Str → List Str → Option (List Str)
  | p, [] => some p
  | [], _ :: _ => none
  | a :: as, b :: bs => if a = b then relativeTo as bs else none

def initName : Str := ['_', '_', 'i', 'n', 'i', 't', '_', '_']

/-- `get_current_module_dot_path`; `none` = `None` (file not below the project root; the impossible case
    "file = root", an IndexError in the code, is also mapped to `none`). -/
def moduleDotPath (projectRoot curFile : List Str) : Option Str :=
  match relativeTo curFile projectRoot with
  | none => none
  | some [] => none
  | some parts =>
    let parts := stripPyLast parts
    let parts := if parts.getLastD [] = initName then parts.dropLast else parts
    some (joinDots parts)

/-! ## `RenderContext.add_import` -/

def commonStdlib : List Str :=
  ["typing", "os", "sys", "re", "json", "collections", "datetime", "enum", "pathlib", "abc",
   "contextlib", "functools", "itertools", "logging", "math", "decimal", "dataclasses", "asyncio",
   "tempfile", "subprocess", "textwrap"].map String.toList

def knownThirdParty : List Str := ["httpx", "pydantic"].map String.toList

/-- `STDLIB_MODULES_PREFER_PLAIN_IMPORT_WHEN_NAME_MATCHES` -/
def preferPlain : List Str :=
  ["os", "sys", "re", "json", "contextlib", "functools", "itertools", "logging", "math", "asyncio",
   "tempfile", "subprocess", "textwrap"].map String.toList

structure ImpCtx where
  /-- `core_package_name` -/
  corePkg : Str
  /-- `use_absolute_imports` -/
  useAbs : Bool
  /-- `output_package_name` (`none` = `None`) -/
  outputPkg : Option Str
  /-- `package_root_for_generated_code` as absolute components -/
  pkgRoot : Option (List Str)
  /-- `overall_project_root` (never `None`: defaults to the cwd) -/
  projectRoot : List Str
  /-- `current_file` -/
  curFile : Option (List Str)
  /-- `os.path.isdir` of the import target below the package root -/
  tgtIsDir : Bool
  /-- `sys.builtin_module_names` -/
  builtinNames : List Str
  deriving Repr

/-- What ends up in the `ImportCollector`. -/
inductive ImpOut where
  | skip
  /-- `imports[module].add(name)` → `from module import name` -/
  | fromImport (module name : Str)
  /-- `plain_imports.add(module)` → `import module` -/
  | plain (module : Str)
  /-- `relative_imports[rel].add(name)` → `from rel import name` -/
  | rel (relModule name : Str)
  deriving DecidableEq, Repr

/-- The module text that is rendered into the import line. -/
def ImpOut.module? : ImpOut → Option Str
  | .skip => none
  | .fromImport m _ => some m
  | .plain m => some m
  | .rel m _ => some m

/-- python truthiness of `str | None`. -/
def truthy : Option Str → Bool
  | some (_ :: _) => true
  | _ => false

/-- `ImportCollector.add_import(module, name)` -/
def collAdd (m n : Str) : ImpOut :=
  if m = n && preferPlain.contains m then .plain m else .fromImport m n

/-- `if name: collector.add_import(module, name) else: collector.add_plain_import(module)` -/
def absOut (m : Str) (name : Option Str) : ImpOut :=
  match name with
  | some (c :: cs) => collAdd m (c :: cs)
  | _ => .plain m

/-- `get_current_package_name_for_generated_code` -/
def curPkgName (c : ImpCtx) : Option Str :=
  if truthy c.outputPkg then c.outputPkg
  else match c.pkgRoot with
    | some (x :: xs) => some ((x :: xs).getLastD [])
    | _ => none

/-- The "fix incomplete module paths" prefix step. -/
def fixModule (c : ImpCtx) (lm : Str) : Str :=
  match c.outputPkg with
  | some (o :: os) =>
    if c.useAbs then
      let comps := splitDot (o :: os)
      let rootPkg := comps.headD []
      let suffix := joinDots comps.tail
      if !(suffix = []) && startsWith lm (suffix ++ ['.']) then rootPkg ++ ['.'] ++ lm else lm
    else lm
  | _ => lm

/-- `get_current_module_dot_path()` of the context. -/
def curModule (c : ImpCtx) : Option Str :=
  match c.curFile with
  | some f => moduleDotPath c.projectRoot f
  | none => none

/-- `calculate_relative_path_for_internal_module(module_relative_to_gen_pkg_root)` of the context
    (`None` when `current_file` or the package root is not set). -/
def internalRel (c : ImpCtx) (modRel : Str) : Option Str :=
  match c.curFile, c.pkgRoot with
  | some (f :: fs), some (r :: rs) => calcRel (f :: fs) (r :: rs) (splitDot modRel) c.tgtIsDir
  | _, _ => none

/-- step 5 of `add_import` for a module inside the generated package `pkg`. -/
def internalOut (c : ImpCtx) (lm pkg : Str) (name : Option Str) : ImpOut :=
  if curModule c = some lm then .skip else
  match internalRel c (if lm = pkg then lm else lm.drop (pkg.length + 1)) with
  | some (d :: ds) =>
    (match name with
     | none => .skip
     | some n => .rel (d :: ds) n)
  | _ => absOut lm name

/-- `RenderContext.add_import(logical_module, name, is_typing_import)`. -/
def classifyImport (c : ImpCtx) (lm0 : Str) (name : Option Str) (isTyping : Bool) : ImpOut :=
  if lm0 = [] then .skip else
  let lm := fixModule c lm0
  -- 1. typing
  if isTyping && lm = "typing".toList && truthy name then collAdd "typing".toList (name.getD []) else
  -- 2. core package
  if lm = c.corePkg || startsWith lm (c.corePkg ++ ['.']) then absOut lm name else
  -- 3. stdlib / builtin
  if c.builtinNames.contains lm || commonStdlib.contains lm || commonStdlib.contains (topLevel lm) then
    absOut lm name else
  -- 4. known third party
  if knownThirdParty.contains lm || knownThirdParty.contains (topLevel lm) then absOut lm name else
  -- 5. internal to the generated package
  match curPkgName c with
  | some (p :: ps) =>
    if lm = p :: ps || startsWith lm (p :: ps ++ ['.']) then internalOut c lm (p :: ps) name
    else absOut lm name
  -- 6. external
  | _ => absOut lm name

end Pog
