import Pog.Lemmas.ParserFrame
import Pog.Lemmas.Parser
import Pog.Lemmas.Names
/-
  Lemmas about M-parser, part 3: which names end up in the registry.
-/
namespace Pog.Prs
open Pog Pog.Trk

theorem sanClass_ne_nil (s : Str) : sanClass s ≠ [] := by
  intro h
  have := sanClass_isPyIdent s
  rw [h] at this
  simp [isPyIdent] at this

theorem truthy_sanClass (s : Str) : truthy (some (sanClass s)) = true := by
  cases h : sanClass s with
  | nil => exact absurd h (sanClass_ne_nil s)
  | cons c cs => rfl

theorem dHas_dSet_self {β : Type} (k : Str) (v : β) (d : List (Str × β)) : dHas k (dSet k v d) = true := by
  simp [dHas, dGet_dSet_self]

theorem dHas_dSet_mono {β : Type} (k k' : Str) (v : β) (d : List (Str × β)) (h : dHas k d = true) :
    dHas k (dSet k' v d) = true := by
  by_cases e : k = k'
  · subst e; exact dHas_dSet_self _ _ _
  · simpa [dHas, dGet_dSet_ne _ _ _ _ e] using h

/-! ### the registry only grows -/

def RegMono (s s' : PSt) : Prop := ∀ k, s.regHas k = true → s'.regHas k = true

theorem doEnter_reg (s : PSt) (name : Option Str) (allow : Bool) :
    (s.doEnter name allow).2.2.reg = s.reg ∨
    ∃ n id, name = some n ∧ (Trk.enter s.tr name allow).2.stored = true ∧
      (s.doEnter name allow).2.2.reg = dSet n id s.reg := by
  unfold PSt.doEnter
  simp only []
  split
  · simp only [PSt.alloc]
    split
    · rename_i hst
      exact Or.inr ⟨_, _, rfl, hst, rfl⟩
    · exact Or.inl rfl
  · exact Or.inl rfl

theorem regMono_frame : Frame RegMono where
  refl := fun _ _ h => h
  trans := fun h1 h2 k h => h2 k (h1 k h)
  alloc := fun _ _ _ h => h
  modify := fun _ _ _ _ h => h
  regSet := fun s k' i k h => dHas_dSet_mono k k' i s.reg h
  enter := by
    intro s name allow k h
    rcases doEnter_reg s name allow with e | ⟨n, id, _, _, e⟩
    · unfold PSt.regHas; rw [e]; exact h
    · unfold PSt.regHas; rw [e]; exact dHas_dSet_mono k n id s.reg h
  exit := fun _ _ _ h => h
  reset := fun _ _ _ h => h
  misc := fun _ _ _ _ _ h => h

/-! ### placeholder states are registered -/

def isPh (v : SchemaState) : Bool := v == .phCycle || v == .phDepth || v == .phSelfRef

def PhRegI (s : PSt) : Prop :=
  ∀ n v, dGet n s.tr.states = some v → isPh v = true → s.regHas n = true

def PhReg (s s' : PSt) : Prop := PhRegI s → PhRegI s'

theorem check_states_form (s : TrSt) (n : Str) :
    (check s n).1.states = s.states ∨
    ∃ v', (check s n).1.states = dSet n v' s.states ∧
      (isPh v' = true → (check s n).2.stored = true ∧ ∃ k, (check s n).2.placeholder = some k) := by
  unfold check
  split
  · exact Or.inl rfl
  · exact Or.inl rfl
  · exact Or.inl rfl
  · exact Or.inl rfl
  · split
    · exact Or.inr ⟨_, rfl, fun _ => ⟨rfl, _, rfl⟩⟩
    · split
      · simp only []
        split
        · exact Or.inr ⟨_, rfl, fun _ => ⟨rfl, _, rfl⟩⟩
        · exact Or.inl rfl
      · exact Or.inr ⟨_, rfl, fun h => by simp [isPh] at h⟩

theorem check_stored_placeholder (s : TrSt) (n : Str) (h : (check s n).2.stored = true) :
    ∃ k, (check s n).2.placeholder = some k := by
  unfold check at h ⊢
  split
  · simp_all
  · simp_all
  · simp_all
  · simp_all
  · split
    · exact ⟨_, rfl⟩
    · split
      · simp only []
        split
        · exact ⟨_, rfl⟩
        · exact ⟨_, rfl⟩
      · simp_all

theorem check_states_ph (s : TrSt) (n k : Str) (v : SchemaState)
    (h : dGet k (check s n).1.states = some v) (hv : isPh v = true) :
    dGet k s.states = some v ∨ (k = n ∧ (check s n).2.stored = true) := by
  rcases check_states_form s n with e | ⟨v', e, hst⟩
  · rw [e] at h; exact Or.inl h
  · rw [e] at h
    by_cases hk : k = n
    · subst hk
      rw [dGet_dSet_self] at h
      cases h
      exact Or.inr ⟨rfl, (hst hv).1⟩
    · rw [dGet_dSet_ne _ _ _ _ hk] at h
      exact Or.inl h

theorem enter_some_eq (s : TrSt) (n : Str) (allow : Bool) :
    (enter s (some n) allow).1.states = (check { s with allowSelf := allow, depth := s.depth + 1 } n).1.states ∧
    (enter s (some n) allow).2 = (check { s with allowSelf := allow, depth := s.depth + 1 } n).2 := by
  unfold enter
  simp only []
  split <;> exact ⟨rfl, rfl⟩

theorem enter_states_ph (s : TrSt) (name : Option Str) (allow : Bool) (k : Str) (v : SchemaState)
    (h : dGet k (enter s name allow).1.states = some v) (hv : isPh v = true) :
    dGet k s.states = some v ∨ (name = some k ∧ (enter s name allow).2.stored = true) := by
  cases name with
  | none => exact Or.inl h
  | some n =>
    obtain ⟨e1, e2⟩ := enter_some_eq s n allow
    rw [e1] at h
    rcases check_states_ph _ n k v h hv with h1 | ⟨h1, h2⟩
    · exact Or.inl h1
    · subst h1
      exact Or.inr ⟨rfl, by rw [e2]; exact h2⟩

theorem exit_states_ph (s : TrSt) (name : Option Str) (k : Str) (v : SchemaState)
    (h : dGet k (exit s name).states = some v) (hv : isPh v = true) : dGet k s.states = some v := by
  unfold exit at h
  cases name with
  | none => exact h
  | some n =>
    simp only [] at h
    split at h
    · exact h
    · split at h
      · by_cases e : k = n
        · subst e
          rw [dGet_dSet_self] at h
          cases h
          simp [isPh] at hv
        · rwa [dGet_dSet_ne _ _ _ _ e] at h
      · exact h

theorem reset_states_ph (s : TrSt) (n k : Str) (v : SchemaState)
    (h : dGet k (reset s n).states = some v) (hv : isPh v = true) : dGet k s.states = some v := by
  unfold reset at h
  by_cases e : k = n
  · subst e
    rw [dGet_dSet_self] at h
    cases h
    simp [isPh] at hv
  · rwa [dGet_dSet_ne _ _ _ _ e] at h

theorem doEnter_stored_reg (s : PSt) (n : Str) (allow : Bool)
    (h : (Trk.enter s.tr (some n) allow).2.stored = true) :
    (s.doEnter (some n) allow).2.2.regHas n = true := by
  obtain ⟨_, e2⟩ := enter_some_eq s.tr n allow
  obtain ⟨k, hk⟩ := check_stored_placeholder _ n (by rw [← e2]; exact h)
  rw [← e2] at hk
  unfold PSt.doEnter
  simp only [hk, h, PSt.alloc, PSt.regSet, if_true, PSt.regHas]
  exact dHas_dSet_self _ _ _

theorem phReg_frame : Frame PhReg where
  refl := fun _ h => h
  trans := fun h1 h2 h => h2 (h1 h)
  alloc := fun _ _ h => h
  modify := fun _ _ _ h => h
  regSet := fun s k' i h n v hn hv => dHas_dSet_mono n k' i s.reg (h n v hn hv)
  enter := by
    intro s name allow hI k v hk hv
    have htr : (s.doEnter name allow).2.2.tr = (Trk.enter s.tr name allow).1 := (doEnter_spec s name allow).2.1
    rw [htr] at hk
    rcases enter_states_ph s.tr name allow k v hk hv with h1 | ⟨h1, h2⟩
    · exact regMono_frame.enter s name allow k (hI k v h1 hv)
    · subst h1
      exact doEnter_stored_reg s k allow h2
  exit := by
    intro s name hI k v hk hv
    exact hI k v (exit_states_ph s.tr name k v hk hv) hv
  reset := by
    intro s n hI k v hk hv
    exact hI k v (reset_states_ph s.tr n k v hk hv) hv
  misc := fun _ _ _ _ h => h

/-! ### a top-level schema gets registered -/

/-- top-level nodes covered by `toplevel_registers`: not an alias (`$ref`), not an array -/
def TopOk (nd : Node) : Bool :=
  match nd.core with
  | .ref _ => false
  | .arr _ => false
  | .nullable _ => false
  | _ => true

theorem get_alloc (s : PSt) (o : IR) : (s.alloc o).2.get (s.alloc o).1 = o := by
  simp [PSt.alloc, PSt.get]

theorem regHas_of_dGet (s : PSt) (k : Str) (i : Nat) (h : dGet k s.reg = some i) : s.regHas k = true := by
  simp [PSt.regHas, dHas, h]

theorem finishReg_registers (decls : Decls) (n m : Str) (id : Nat) (s : PSt)
    (hd : dHas n decls = true) (hname : (s.get id).name = some m) (hm : truthy (some m) = true) :
    (finish.finishReg decls n id s).2.regHas n = true ∨ (finish.finishReg decls n id s).2.regHas m = true := by
  unfold finish.finishReg
  simp only [hd, Bool.not_true, Bool.and_false, Bool.not_false, if_true]
  have key : regKey s (s.get id) n id = n ∨ regKey s (s.get id) n id = m := by
    unfold regKey
    simp only [hname, hm, if_true, Option.getD_some]
    split
    · split
      · exact Or.inl rfl
      · exact Or.inr rfl
    · exact Or.inr rfl
  have hreg : ∀ s1 : PSt, s1.reg = (s.regSet (regKey s (s.get id) n id) id).reg →
      s1.regHas n = true ∨ s1.regHas m = true := by
    intro s1 e
    unfold PSt.regHas
    rw [e]
    rcases key with k | k
    · left; rw [k]; exact dHas_dSet_self _ _ _
    · right; rw [k]; exact dHas_dSet_self _ _ _
  split
  · exact hreg _ rfl
  · exact hreg _ rfl

theorem finish_registers (decls : Decls) (n m : Str) (id : Nat) (s : PSt) (hn : truthy (some n) = true)
    (hd : dHas n decls = true) (hname : (s.get id).name = some m) (hm : truthy (some m) = true) :
    (finish decls (some n) id s).2.regHas n = true ∨ (finish decls (some n) id s).2.regHas m = true := by
  unfold finish
  simp only [hn, Bool.not_true, Bool.false_eq_true, if_false]
  split
  · rename_i ex hex
    split
    · exact Or.inl (regHas_of_dGet s n ex hex)
    · exact finishReg_registers decls n m id s hd hname hm
  · exact finishReg_registers decls n m id s hd hname hm

theorem alloc_finish_registers (decls : Decls) (n : Str) (s : PSt) (o : IR) (hn : truthy (some n) = true)
    (hd : dHas n decls = true) (ho : o.name = some (sanClass n)) :
    (finish decls (some n) (s.alloc (mkIR o)).1 (s.alloc (mkIR o)).2).2.regHas n = true ∨
    (finish decls (some n) (s.alloc (mkIR o)).1 (s.alloc (mkIR o)).2).2.regHas (sanClass (sanClass n)) = true := by
  refine finish_registers decls n (sanClass (sanClass n)) _ _ hn hd ?_ (truthy_sanClass _)
  rw [get_alloc]
  unfold mkIR
  simp [ho, truthy_sanClass]

theorem body_registers (decls : Decls) (P : PFn) (n : Str) (nd : Node) (allow : Bool) (s : PSt)
    (hn : truthy (some n) = true) (hd : dHas n decls = true) (hok : TopOk nd = true) :
    (body decls P (some n) nd allow s).2.regHas n = true ∨
    (body decls P (some n) nd allow s).2.regHas (sanClass (sanClass n)) = true := by
  unfold TopOk at hok
  unfold body
  simp only [hn, if_true, Option.map_some]
  split
  · rename_i h; rw [h] at hok; cases hok
  · exact alloc_finish_registers decls n _ _ hn hd rfl
  · exact alloc_finish_registers decls n _ _ hn hd rfl
  · rename_i h; rw [h] at hok; cases hok
  · exact alloc_finish_registers decls n _ _ hn hd rfl
  · exact alloc_finish_registers decls n _ _ hn hd rfl
  · exact alloc_finish_registers decls n _ _ hn hd rfl
  · rename_i h; rw [h] at hok; cases hok

theorem bodyAndExit_registers (decls : Decls) (P : PFn) (n : Str) (nd : Node) (allow : Bool) (s : PSt)
    (hn : truthy (some n) = true) (hd : dHas n decls = true) (hok : TopOk nd = true) :
    (bodyAndExit decls P (some n) nd allow s).2.regHas n = true ∨
    (bodyAndExit decls P (some n) nd allow s).2.regHas (sanClass (sanClass n)) = true :=
  body_registers decls P n nd allow s hn hd hok

/-- with an empty stack the tracker cannot answer with an unstored placeholder -/
theorem enter_create_stored_of_empty_stack (t : TrSt) (n : Str) (allow : Bool) (hs : t.stack = [])
    (h : (Trk.enter t (some n) allow).2.action = .createPlaceholder) :
    (Trk.enter t (some n) allow).2.stored = true := by
  obtain ⟨_, e2⟩ := enter_some_eq t n allow
  rw [e2] at h ⊢
  unfold check at h ⊢
  split
  · simp_all
  · simp_all
  · simp_all
  · simp_all
  · split
    · rfl
    · split
      · rename_i hc
        simp [hs] at hc
      · simp_all

theorem check_placeholder_state (s : TrSt) (n : Str) :
    (check s n).2.action = .returnPlaceholder → isPh (s.stateOf n) = true := by
  unfold check
  split
  · intro h; simp at h
  · rename_i heq; intro _; simp [heq, isPh]
  · rename_i heq; intro _; simp [heq, isPh]
  · rename_i heq; intro _; simp [heq, isPh]
  · split
    · intro h; simp at h
    · split
      · simp only []
        split <;> (intro h; simp at h)
      · intro h; simp at h

theorem enter_placeholder_state (t : TrSt) (n : Str) (allow : Bool)
    (h : (Trk.enter t (some n) allow).2.action = .returnPlaceholder) :
    ∃ v, dGet n t.states = some v ∧ isPh v = true := by
  obtain ⟨_, e2⟩ := enter_some_eq t n allow
  rw [e2] at h
  have h1 := check_placeholder_state _ n h
  have hso : TrSt.stateOf { t with allowSelf := allow, depth := t.depth + 1 } n = t.stateOf n := rfl
  rw [hso] at h1
  unfold TrSt.stateOf at h1
  cases hg : dGet n t.states with
  | none => rw [hg] at h1; simp [isPh] at h1
  | some v => rw [hg] at h1; exact ⟨v, rfl, h1⟩

theorem doEnter_reg_of_no_placeholder (s : PSt) (name : Option Str) (allow : Bool)
    (h : (Trk.enter s.tr name allow).2.placeholder = none) : (s.doEnter name allow).2.2.reg = s.reg := by
  unfold PSt.doEnter
  simp [h]

theorem check_existing_no_placeholder (s : TrSt) (n : Str) :
    (check s n).2.action = .returnExisting → (check s n).2.placeholder = none := by
  unfold check
  split
  · intro _; rfl
  · intro _; rfl
  · intro _; rfl
  · intro _; rfl
  · split
    · intro h; simp at h
    · split
      · simp only []
        split <;> (intro h; simp at h)
      · intro _; rfl

theorem enter_existing_no_placeholder (t : TrSt) (name : Option Str) (allow : Bool)
    (h : (Trk.enter t name allow).2.action = .returnExisting) : (Trk.enter t name allow).2.placeholder = none := by
  cases name with
  | none => rfl
  | some n =>
    obtain ⟨_, e2⟩ := enter_some_eq t n allow
    rw [e2] at h ⊢
    exact check_existing_no_placeholder _ n h

/-- `toplevel_registers`: a top-level `_parse_schema(n, node, allow_self_reference=True)` on a node that
    is neither an alias nor an array, started with an empty tracker stack, leaves `n` or the
    twice-sanitized class name of `n` in the registry. -/
theorem toplevel_registers (decls : Decls) (fuel : Nat) (n : Str) (nd : Node) (allow : Bool) (s : PSt)
    (hn : truthy (some n) = true) (hd : dHas n decls = true) (hok : TopOk nd = true)
    (hstack : s.tr.stack = []) (hI : PhRegI s) (hnot : s.regHas n = false) :
    (parse decls (fuel + 1) (some n) nd allow s).2.regHas n = true ∨
    (parse decls (fuel + 1) (some n) nd allow s).2.regHas (sanClass (sanClass n)) = true := by
  generalize hs0 : ({ s with nest := s.nest + 1, maxNest := max s.maxNest (s.nest + 1) } : PSt) = s0
  have h0tr : s0.tr = s.tr := by rw [← hs0]
  have h0reg : s0.reg = s.reg := by rw [← hs0]
  have e : ∀ k, (parse decls (fuel + 1) (some n) nd allow s).2.regHas k =
      (parseCore decls (parse decls fuel) (some n) nd allow s0).2.regHas k := by
    intro k; rw [← hs0]; rfl
  rw [e, e]
  unfold parseCore
  simp only []
  obtain ⟨hr, htr, _⟩ := doEnter_spec s0 (some n) allow
  rw [hr, h0tr]
  split
  · -- CREATE_PLACEHOLDER: with an empty stack it is the depth placeholder, stored under `n`
    rename_i hact
    left
    have := enter_create_stored_of_empty_stack s.tr n allow hstack hact
    have h2 := doEnter_stored_reg s0 n allow (by rw [h0tr]; exact this)
    exact h2
  · -- RETURN_PLACEHOLDER: the name would be registered already
    rename_i hact
    obtain ⟨v, hv, hph⟩ := enter_placeholder_state s.tr n allow hact
    have := hI n v hv hph
    rw [hnot] at this
    cases this
  · -- RETURN_EXISTING: not found (n is not registered), fall through
    rename_i hact
    have hreg : (s0.doEnter (some n) allow).2.2.reg = s.reg := by
      rw [doEnter_reg_of_no_placeholder s0 (some n) allow
        (by rw [h0tr]; exact enter_existing_no_placeholder s.tr (some n) allow hact), h0reg]
    have hnone : dGet n ((s0.doEnter (some n) allow).2.2.doExit (some n)).reg = none := by
      show dGet n (s0.doEnter (some n) allow).2.2.reg = none
      rw [hreg]
      cases hg : dGet n s.reg with
      | none => rfl
      | some i => rw [regHas_of_dGet s n i hg] at hnot; cases hnot
    simp only [hn, if_true, hnone]
    exact bodyAndExit_registers decls _ n nd allow _ hn hd hok
  · exact bodyAndExit_registers decls _ n nd allow _ hn hd hok

/-! ### `build_schemas` post-condition -/

theorem dHas_of_mem {β : Type} (d : List (Str × β)) (kv : Str × β) (h : kv ∈ d) : dHas kv.1 d = true := by
  induction d with
  | nil => cases h
  | cons p rest ih =>
    obtain ⟨k', v'⟩ := p
    simp only [dHas, dGet]
    by_cases e : k' = kv.1
    · simp [e]
    · simp only [e, if_false]
      rcases List.mem_cons.mp h with h1 | h1
      · subst h1; exact absurd rfl e
      · exact ih h1

/-- a declaration covered by `all_names_present_partial` -/
def GoodDecl (d : Str × Node) : Prop :=
  truthy (some d.1) = true ∧ TopOk d.2 = true ∧ sanClass (sanClass d.1) = sanClass d.1

instance (d : Str × Node) : Decidable (GoodDecl d) := by unfold GoodDecl; infer_instance

theorem parse_stack_nil (decls : Decls) (fuel : Nat) (name : Option Str) (node : Node) (allow : Bool) (s : PSt)
    (h : s.tr.stack = []) : (parse decls fuel name node allow s).2.tr.stack = [] := by
  obtain ⟨w, _, hs, hr, _⟩ := parse_good decls fuel name node allow s
  rw [hr]
  have := shaped_stack_sublist hs s.tr
  rw [h] at this
  exact List.eq_nil_of_sublist_nil this

theorem buildLoop_registers (decls : Decls) (fuel : Nat) (ds : List (Str × Node)) :
    ∀ s : PSt, s.tr.stack = [] → PhRegI s → (∀ d ∈ ds, d ∈ decls ∧ GoodDecl d) →
      (buildLoop decls (fuel + 1) ds s).tr.stack = [] ∧ PhRegI (buildLoop decls (fuel + 1) ds s) ∧
      RegMono s (buildLoop decls (fuel + 1) ds s) ∧
      ∀ d ∈ ds, (buildLoop decls (fuel + 1) ds s).regHas d.1 = true ∨
                (buildLoop decls (fuel + 1) ds s).regHas (sanClass d.1) = true := by
  induction ds with
  | nil =>
    intro s hs hI _
    exact ⟨hs, hI, fun _ h => h, fun d hd => by cases hd⟩
  | cons d rest ih =>
    intro s hs hI hgood
    obtain ⟨n, nd⟩ := d
    obtain ⟨hmem, hn, hok, hidem⟩ := hgood (n, nd) (List.mem_cons_self ..)
    have hrestgood : ∀ d ∈ rest, d ∈ decls ∧ GoodDecl d := fun d hd => hgood d (List.mem_cons_of_mem _ hd)
    simp only [buildLoop]
    split
    · rename_i hcond
      have hnot : s.regHas n = false := by
        cases h : s.regHas n with
        | false => rfl
        | true => simp [h] at hcond
      have hs1 := parse_stack_nil decls (fuel + 1) (some n) nd true s hs
      have hI1 : PhRegI (parse decls (fuel + 1) (some n) nd true s).2 :=
        parse_frame phReg_frame decls (fuel + 1) (some n) nd true s hI
      have hmono1 : RegMono s (parse decls (fuel + 1) (some n) nd true s).2 :=
        parse_frame regMono_frame decls (fuel + 1) (some n) nd true s
      have hreg1 := toplevel_registers decls fuel n nd true s hn (dHas_of_mem decls (n, nd) hmem) hok hs hI hnot
      rw [hidem] at hreg1
      obtain ⟨h1, h2, h3, h4⟩ := ih _ hs1 hI1 hrestgood
      refine ⟨h1, h2, fun k hk => h3 k (hmono1 k hk), ?_⟩
      intro d hd
      rcases List.mem_cons.mp hd with e | e
      · subst e
        rcases hreg1 with h | h
        · exact Or.inl (h3 _ h)
        · exact Or.inr (h3 _ h)
      · exact h4 d e
    · rename_i hcond
      obtain ⟨h1, h2, h3, h4⟩ := ih s hs hI hrestgood
      refine ⟨h1, h2, h3, ?_⟩
      intro d hd
      rcases List.mem_cons.mp hd with e | e
      · subst e
        have : s.regHas n = true ∨ s.regHas (sanClass n) = true := by
          cases h1 : s.regHas n with
          | true => exact Or.inl rfl
          | false =>
            cases h2 : s.regHas (sanClass n) with
            | true => exact Or.inr rfl
            | false => simp [h1, h2] at hcond
        rcases this with h | h
        · exact Or.inl (h3 _ h)
        · exact Or.inr (h3 _ h)
      · exact h4 d e

theorem buildSchemas_missing_nil (maxDepth fuel : Nat) (decls : Decls) (hgood : ∀ d ∈ decls, GoodDecl d) :
    missing decls (buildSchemas maxDepth (fuel + 1) decls) = [] := by
  have h := buildLoop_registers decls fuel decls { tr := { maxDepth := maxDepth } } rfl
    (fun n v hv _ => by simp [dGet] at hv) (fun d hd => ⟨hd, hgood d hd⟩)
  obtain ⟨_, _, _, h4⟩ := h
  unfold missing
  rw [List.filter_eq_nil_iff]
  intro n hn
  obtain ⟨d, hd, rfl⟩ := List.mem_map.mp hn
  unfold buildSchemas
  rcases h4 d hd with h | h <;> simp [h]

end Pog.Prs
