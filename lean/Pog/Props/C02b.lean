import Pog.Props.C02
import Pog.Props.C19
import Pog.Lemmas.ParserFaithful2
import Pog.Lemmas.Simple2Dec
/-
  C02 / C19, second partial fragment.  `C02.parse_faithful_partial` covers object schemas whose properties
  are plain primitives or `$ref`s (`Simple`).  `Simple2` (Pog/Lemmas/ParserFaithful2.lean) adds

    * properties that are ARRAYS of a plain primitive or of a `$ref` to a declared schema,
    * properties that are MAPS (`{type: object, additionalProperties: <primitive | $ref>}`, no `properties`),
    * declared (top-level) schemas that are themselves an array of a primitive / of a `$ref`, or a plain
      primitive alias (`{type: string}`); such a schema has no fields, and `$ref`s to it are kind `.ref`.

  The theorems are about the EXISTING `Faithful` (Pog/Model/ParserSpec.lean); `Kind` has no separate map
  constructor: a map property is `.obj` on both sides (`nodeKind (.obj _ _ _) = .obj`; the model's reference
  holder → registered `<Parent><Prop>` object of type `object` reads as `.obj`).

    simple_imp_simple2                 full     `Simple ⊆ Simple2`
    simple2_strict                     (example) a document in `Simple2` that is not in `Simple`
    parse_faithful_partial2            partial  on `Simple2`: no out-of-fuel, no RuntimeError, every declared name
                                                `Faithful`
    parse_perm_invariant_partial2      partial  on `Simple2` every re-ordering of the declarations gives the same
                                                set of models with the same fields (C19)
    ✗ parse_faithful_map_ctx_counterexample     why `Simple2.ctxFresh` is needed: a map property `Order.meta` is
                                                REGISTERED under `OrderMeta`; a declared schema of that name is
                                                then skipped by `build_schemas` and ends with zero fields
    ✗ parse_faithful_map_depth_counterexample   why a map costs a level (`propCost`): at `maxDepth = 1` the map
                                                property is a depth placeholder (kind `.ref OrderMeta`, not `.obj`)
                                                whereas the same schema with an array property is faithful

  Side conditions of `Simple2` beyond `Simple` (all decidable componentwise, see `invDecls_simple2`):
    cost      `rank` must leave room for the anonymous levels: an array / a map of `$ref t` needs
              `rank t + 3 ≤ rank owner` (array node, anonymous `$ref` node, target), an array / a map of a primitive
              needs `1 ≤ rank owner`; a top-level array of `$ref t` needs `rank t + 2 ≤ rank owner`
    ctxFresh  the context name `mapCtx owner key` (`<Owner><Key>`, or `<Key>` when it already starts with the
              owner's name) of a map property is not a declared name and is class-cased
    ctxInj    different map properties have different context names
-/
namespace Pog.C02b
open Pog Pog.Prs Pog.Trk Pog.C02

/-- `Simple ⊆ Simple2` (same `rank`). -/
theorem simple_imp_simple2 (decls : Decls) (rank : Str → Nat) (hS : Simple decls rank) : Simple2 decls rank :=
  hS.toSimple2

/-- `parse_faithful_partial2`.  On the fragment `Simple2 decls rank`
    * every declared schema is an object `{type: object, properties, required}` whose property nodes are plain
      primitives, `$ref`s to declared schemas, arrays of either, or maps (`additionalProperties`) of either —
      or it is itself an array of a primitive / `$ref`, or a plain primitive;
    * names non-empty, pairwise different, class-cased; property keys non-empty, pairwise different;
    * `rank` bounds the nesting below every schema (`Simple2.cost`: one level per named schema AND per anonymous
      node — the items node of an array is an anonymous `_parse_schema` call, a `$ref` inside it another one);
    * the context names under which map properties are parsed and registered are fresh and pairwise different;
    and with `rank n + 1 ≤ maxDepth` and the fuel, loading succeeds and EVERY declared name is `Faithful`. -/
theorem parse_faithful_partial2 (decls : Decls) (rank : Str → Nat) (hS : Simple2 decls rank) (maxDepth F : Nat)
    (hF : ∀ d ∈ decls, rank d.1 < F) (hD : ∀ d ∈ decls, rank d.1 + 1 ≤ maxDepth) :
    (buildSchemas maxDepth (F + 1) decls).oom = false ∧
    missing decls (buildSchemas maxDepth (F + 1) decls) = [] ∧
    ∀ d ∈ decls, Faithful decls (buildSchemas maxDepth (F + 1) decls) d.1 :=
  buildSchemas_faithful2 decls rank hS maxDepth F hF hD

/-- `parse_perm_invariant_partial2` (C19): on `Simple2` the declaration order is irrelevant — both orders load
    without error and every name has the same set of fields. -/
theorem parse_perm_invariant_partial2 (d d' : Decls) (rank : Str → Nat) (hp : d.Perm d') (hS : Simple2 d rank)
    (maxDepth F : Nat) (hF : ∀ x ∈ d, rank x.1 < F) (hD : ∀ x ∈ d, rank x.1 + 1 ≤ maxDepth) :
    missing d (buildSchemas maxDepth (F + 1) d) = [] ∧ missing d' (buildSchemas maxDepth (F + 1) d') = [] ∧
    ∀ x ∈ d, ∃ fs fs', modelFields d (buildSchemas maxDepth (F + 1) d) x.1 = some fs ∧
      modelFields d' (buildSchemas maxDepth (F + 1) d') x.1 = some fs' ∧ ∀ f, f ∈ fs ↔ f ∈ fs' := by
  have h1 := parse_faithful_partial2 d rank hS maxDepth F hF hD
  have h2 := parse_faithful_partial2 d' rank (hS.perm hp) maxDepth F
    (fun x hx => hF x (hp.mem_iff.mpr hx)) (fun x hx => hD x (hp.mem_iff.mpr hx))
  refine ⟨h1.2.1, h2.2.1, fun x hx => ?_⟩
  exact C19.parse_perm_invariant_of_faithful d d' hp hS.nodup _ _ x.1 (h1.2.2 x hx) (h2.2.2 x (hp.mem_iff.mp hx))

/-! ### non-vacuity -/

def cMap (a : Node) : Node := .obj none [] (some a)

/-- an inventory document: arrays of primitives / of `$ref`s, maps of primitives / of `$ref`s, a `$ref` to a
    top-level array, top-level arrays and a primitive alias -/
def invDecls : Decls :=
  [("Order".toList, .obj (some [("id".toList, .prim .integer false),
        ("tags".toList, .arr (.prim .string false)),
        ("lines".toList, .arr (cRef "Line")),
        ("meta".toList, cMap (.prim .string false)),
        ("byName".toList, cMap (cRef "Line")),
        ("first".toList, cRef "Line"),
        ("labels".toList, cRef "Labels")]) ["id".toList, "lines".toList] none),
   ("Line".toList, .obj (some [("sku".toList, cRef "Sku"), ("attrs".toList, cMap (.prim .integer false))])
                     ["sku".toList] none),
   ("Labels".toList, .arr (.prim .string false)),
   ("Lines".toList, .arr (cRef "Line")),
   ("Sku".toList, .prim .string false)]

def invRank (n : Str) : Nat :=
  if n = "Order".toList then 4 else if n = "Lines".toList then 3 else if n = "Line".toList then 1 else 0

/-- the document is in `Simple2` … -/
theorem invDecls_simple2 : Simple2 invDecls invRank ∧ (∀ d ∈ invDecls, invRank d.1 < 5) ∧
    (∀ d ∈ invDecls, invRank d.1 + 1 ≤ 150) :=
  ⟨⟨by decide, by decide, by decide +kernel, by decide, by decide +kernel, by decide +kernel⟩, by decide, by decide⟩

/-- … and not in `Simple` (whatever the rank) -/
theorem simple2_strict : ∀ rank, ¬ Simple invDecls rank := by
  intro rank h
  have := h.node ("Order".toList, _) (List.mem_cons_self ..)
  revert this
  decide

/-- the model evaluated on it: no error, every schema faithful (this is what `parse_faithful_partial2` proves
    for it, here checked by evaluation); `Order` has an array-of-primitive, an array-of-`$ref`, two map
    properties -/
example : let s := buildSchemas 150 6 invDecls
    s.oom = false ∧ missing invDecls s = [] ∧ (∀ d ∈ invDecls, Faithful invDecls s d.1) ∧
    modelFields invDecls s "Order".toList = some
      [⟨"id".toList, true, .prim .integer⟩, ⟨"tags".toList, false, .arr (.prim .string)⟩,
       ⟨"lines".toList, true, .arr (.ref "Line".toList)⟩, ⟨"meta".toList, false, .obj⟩,
       ⟨"byName".toList, false, .obj⟩, ⟨"first".toList, false, .ref "Line".toList⟩,
       ⟨"labels".toList, false, .ref "Labels".toList⟩] := by
  decide +kernel

example : ∀ d ∈ invDecls, Faithful invDecls (buildSchemas 150 6 invDecls) d.1 :=
  (parse_faithful_partial2 invDecls invRank invDecls_simple2.1 150 5 invDecls_simple2.2.1 invDecls_simple2.2.2).2.2

example : invDecls.Perm invDecls.reverse := (List.reverse_perm _).symm

example : ∀ d ∈ invDecls, Faithful invDecls.reverse (buildSchemas 150 6 invDecls.reverse) d.1 := by
  decide +kernel


/-! ### the fragment as a decision procedure (what the correspondence harness asks the driver) -/

/-- `inFragment2_sound`: when the driver's `inFragment2 maxDepth fuel decls ranks` answers `true`, the run
    `buildSchemas maxDepth fuel decls` it performs next neither runs out of fuel nor raises, and every declared
    name is `Faithful`.  (The harness marks every failure of the REAL loader on such a document as
    `UNEXPECTED-in-proved-fragment`: it would contradict this theorem or the model/code correspondence.) -/
theorem inFragment2_sound (maxDepth fuel : Nat) (decls : Decls) (rs : List (Str × Nat))
    (h : inFragment2 maxDepth fuel decls rs = true) :
    (buildSchemas maxDepth fuel decls).oom = false ∧
    missing decls (buildSchemas maxDepth fuel decls) = [] ∧
    ∀ d ∈ decls, Faithful decls (buildSchemas maxDepth fuel decls) d.1 := by
  unfold inFragment2 at h
  simp only [Bool.and_eq_true, decide_eq_true_eq, List.all_eq_true] at h
  obtain ⟨⟨hS, hF⟩, hD⟩ := h
  cases fuel with
  | zero => cases decls with
    | nil => exact ⟨rfl, rfl, fun d hd => by cases hd⟩
    | cons d ds => exact absurd (hF d (List.mem_cons_self ..)) (by omega)
  | succ F =>
    exact parse_faithful_partial2 decls (rankOf rs) hS maxDepth F
      (fun d hd => by have := hF d hd; omega) hD

/-- non-vacuity: the decision procedure accepts the example document (and rejects it at a depth limit that is too small) -/
example : inFragment2 150 6 invDecls (invDecls.map (fun d => (d.1, invRank d.1))) = true := by decide +kernel
example : inFragment2 3 6 invDecls (invDecls.map (fun d => (d.1, invRank d.1))) = false := by decide +kernel

/-! ### why the side conditions are there -/

/-- ✗ `Simple2.ctxFresh`.  The map property `Order.meta` is parsed under the name `OrderMeta` and REGISTERED in
    `parsed_schemas` under it (schema_parser.py `_parse_properties` → `_parse_schema(schema_name_for_parsing, …)`
    → registration at the end of `_parse_schema`).  A DECLARED schema `OrderMeta` later in the document is then
    "already registered": `build_schemas` skips it and it keeps the map object — zero fields instead of `code`.
    (Same defect class as `C02.parse_faithful_inline_named_like_schema_counterexample`, reached through a map.) -/
theorem parse_faithful_map_ctx_counterexample :
    let d : Decls := [("Order".toList, cObj [("meta", cMap (.prim .string false))]),
                      ("OrderMeta".toList, cObj [("code", .prim .string false)])]
    let s := buildSchemas 150 30 d
    s.oom = false ∧ missing d s = [] ∧
    modelFields d s "OrderMeta".toList = some [] ∧
    specFields d "OrderMeta".toList = [⟨"code".toList, false, .prim .string⟩] ∧
    ¬ Faithful d s "OrderMeta".toList ∧
    -- and `Order.meta` reads as a reference to the declared schema, not as a map
    modelFields d s "Order".toList = some [⟨"meta".toList, false, .ref "OrderMeta".toList⟩] ∧
    ¬ Faithful d s "Order".toList ∧
    -- declared in the opposite order `OrderMeta` is parsed first and is faithful, `Order.meta` still is not
    Faithful d.reverse (buildSchemas 150 30 d.reverse) "OrderMeta".toList ∧
    ¬ Faithful d.reverse (buildSchemas 150 30 d.reverse) "Order".toList := by
  decide +kernel

/-- ✗ `Simple2.cost` for maps.  A map property is a NAMED `_parse_schema` call, so it is subject to the depth
    test; an array of primitives is an anonymous one and is not.  At `PYOPENAPI_MAX_DEPTH = 1`: -/
theorem parse_faithful_map_depth_counterexample :
    let dm : Decls := [("Order".toList, cObj [("meta", cMap (.prim .string false))])]
    let da : Decls := [("Order".toList, cObj [("tags", .arr (.prim .string false))])]
    ¬ Faithful dm (buildSchemas 1 30 dm) "Order".toList ∧
    modelFields dm (buildSchemas 1 30 dm) "Order".toList = some [⟨"meta".toList, false, .ref "OrderMeta".toList⟩] ∧
    Faithful da (buildSchemas 1 30 da) "Order".toList ∧
    Faithful dm (buildSchemas 2 30 dm) "Order".toList := by
  decide +kernel

end Pog.C02b
