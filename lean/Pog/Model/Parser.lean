import Pog.Model.Tracker
/-
  M-parser: control skeleton and registry effects of
    core/parsing/schema_parser.py   (`_parse_schema`, `_parse_properties`, `_resolve_ref`,
                                     `_parse_composition_keywords`)
    core/parsing/keywords/{all_of,any_of,one_of}_parser.py
    core/loader/schemas/extractor.py:20-51 (`build_schemas` and its post-condition)
  on top of M-tracker.

  Python objects have identity and are mutated after they have been handed out (a property object
  is renamed, `items` is re-assigned, `_is_circular_ref` is set on an already registered schema),
  so the model has a HEAP of `IR` records (index = identity) and the registry `parsed_schemas`
  maps names to heap indices.  Tracked per object: name, type, properties (key ↦ object),
  required, items, additionalProperties, composition lists, "has a non-empty enum", the object a
  property holder refers to, and the four flags.  NOT tracked: descriptions, defaults, examples,
  formats, nullability, discriminators, generation names (none of them is branched on).

  Recursion is by FUEL in open-recursion style: `parseStep P` is `_parse_schema` with every
  recursive call replaced by the callback `P`; `parse 0` reports out-of-fuel, `parse (n+1) =
  parseStep (parse n)`.  `PSt.oom` is set iff some call ran out of fuel.

  Schema nodes are the inductive `Node` (see `Pog/Drv/Parser.lean` for the JSON rendering that is
  sent to the real parser).  Not in the language: `type: null`, typeless nodes, `None` nodes,
  non-mapping nodes, `description`-only inline objects, enum without type, malformed `$ref`.
-/
namespace Pog.Prs
open Pog Pog.Trk

inductive PrimTy
  | string | integer | number | boolean
  deriving DecidableEq, Repr, Inhabited

def PrimTy.str : PrimTy → Str
  | .string => "string".toList
  | .integer => "integer".toList
  | .number => "number".toList
  | .boolean => "boolean".toList

/-- A schema node.
    `ref t`               `{"$ref": "#/components/schemas/<t>"}`
    `prim ty e`           `{"type": ty}` plus a non-empty `"enum"` when `e`
    `obj props req ap`    `{"type": "object"}` plus `"properties"` (when `some`), `"required"`
                          (when non-empty), `"additionalProperties": <node>` (when `some`)
    `arr items`           `{"type": "array", "items": <node>}`
    `allOf parts props req`  `{"allOf": [...]}` plus `"properties"`/`"required"` when non-empty
    `oneOf parts` / `anyOf parts`
    `nullable n`          the dict of `n` with `"nullable": true` added -/
inductive Node
  | ref (target : Str)
  | prim (ty : PrimTy) (hasEnum : Bool)
  | obj (props : Option (List (Str × Node))) (req : List Str) (ap : Option Node)
  | arr (items : Node)
  | allOf (parts : List Node) (props : List (Str × Node)) (req : List Str)
  | oneOf (parts : List Node)
  | anyOf (parts : List Node)
  | nullable (n : Node)
  deriving Inhabited

/-- strip `nullable` wrappers: the key is never branched on. -/
def Node.core : Node → Node
  | .nullable n => n.core
  | n => n

def Node.isRef (n : Node) : Option Str := match n.core with | .ref t => some t | _ => none
def Node.isPrim (n : Node) : Bool := match n.core with | .prim _ _ => true | _ => false
def Node.isPlainPrim (n : Node) : Bool := match n.core with | .prim _ false => true | _ => false
/-- `type == "object"` and `"properties" in node` -/
def Node.isInlineObj (n : Node) : Bool := match n.core with | .obj (some _) _ _ => true | _ => false
def Node.isObjType (n : Node) : Bool := match n.core with | .obj _ _ _ => true | _ => false
/-- `is_simple_array`: array whose items are a `$ref` or a primitive (enum or not) -/
def Node.isSimpleArr (n : Node) : Bool :=
  match n.core with
  | .arr i => (i.isRef.isSome) || i.isPrim
  | _ => false

/-- `IRSchema` (the tracked part). -/
structure IR where
  name : Option Str := none
  type : Option Str := none
  props : List (Str × Nat) := []
  required : List Str := []
  items : Option Nat := none
  addl : Option Nat := none
  anyOf : Option (List Nat) := none
  oneOf : Option (List Nat) := none
  allOf : Option (List Nat) := none
  hasEnum : Bool := false
  refersTo : Option Nat := none
  unresolved : Bool := false
  circular : Bool := false
  depthMarker : Bool := false
  selfStub : Bool := false
  deriving DecidableEq, Repr, Inhabited

/-- Python truthiness of `str | None`. -/
def truthy : Option Str → Bool
  | some (_ :: _) => true
  | _ => false

/-- `IRSchema.__post_init__`: a truthy name is replaced by `sanitize_class_name(name)`. -/
def mkIR (o : IR) : IR := if truthy o.name then { o with name := o.name.map sanClass } else o

structure PSt where
  tr : TrSt := {}
  heap : List IR := []
  reg : List (Str × Nat) := []
  trace : List Ev := []
  oom : Bool := false
  nest : Nat := 0
  maxNest : Nat := 0
  deriving Repr

abbrev Decls := List (Str × Node)

def PSt.get (s : PSt) (i : Nat) : IR := s.heap.getD i {}
def PSt.alloc (s : PSt) (o : IR) : Nat × PSt := (s.heap.length, { s with heap := s.heap ++ [o] })
def PSt.modify (s : PSt) (i : Nat) (f : IR → IR) : PSt := { s with heap := s.heap.modify i f }
def PSt.regSet (s : PSt) (k : Str) (i : Nat) : PSt := { s with reg := dSet k i s.reg }
def PSt.regHas (s : PSt) (k : Str) : Bool := dHas k s.reg
/-- `name in parsed_schemas` for an optional name (`None in dict` is False) -/
def PSt.regHasO (s : PSt) : Option Str → Bool
  | some k => dHas k s.reg
  | none => false

def sObject : Str := "object".toList
def sArray : Str := "array".toList

/-- the placeholders of `create_*_placeholder` -/
def placeholderIR (k : PhKind) (n : Str) : IR :=
  match k with
  | .depth => mkIR { name := some (sanClass n), type := some sObject, depthMarker := true }
  | .cycle => mkIR { name := some (sanClass n), type := some sObject, unresolved := true, circular := true }
  | .selfRef => mkIR { name := some (sanClass n), type := some sObject, selfStub := true }

def PSt.doEnter (s : PSt) (name : Option Str) (allow : Bool) : EnterResult × Option Nat × PSt :=
  let r := Trk.enter s.tr name allow
  let s := { s with tr := r.1, trace := s.trace ++ [.enter name allow r.2.action] }
  match r.2.placeholder, name with
  | some k, some n =>
    let (id, s) := s.alloc (placeholderIR k n)
    (r.2, some id, if r.2.stored then s.regSet n id else s)
  | _, _ => (r.2, none, s)

def PSt.doExit (s : PSt) (name : Option Str) : PSt :=
  { s with tr := Trk.exit s.tr name, trace := s.trace ++ [.exit name] }

def PSt.doReset (s : PSt) (n : Str) : PSt :=
  { s with tr := Trk.reset s.tr n, trace := s.trace ++ [.reset n] }

/-- the callback standing for the recursive `_parse_schema(name, node, …, allow_self_reference)` -/
abbrev PFn := Option Str → Node → Bool → PSt → Nat × PSt

/-- last segment of `"#/components/schemas/" ++ t` split at `/` -/
def lastSeg (t : Str) : Str := (t.reverse.takeWhile (· != '/')).reverse

/-- `_resolve_ref` -/
def resolveRef (decls : Decls) (P : PFn) (t : Str) (allow : Bool) (s : PSt) : Nat × PSt :=
  let refName := lastSeg t
  if refName.isEmpty then s.alloc (mkIR { unresolved := true }) else
  match dGet refName s.reg with
  | some id =>
    if !(s.get id).depthMarker then (id, s)
    else match dGet refName decls with
      | none => s.alloc (mkIR { name := some (sanClass refName), unresolved := true })
      | some nd => P (some refName) nd allow s
  | none =>
    match dGet refName decls with
    | none => s.alloc (mkIR { name := some (sanClass refName), unresolved := true })
    | some nd => P (some refName) nd allow s

/-- parse a list of anonymous sub-schemas left to right -/
def parseList (P : PFn) (allow : Bool) : List Node → PSt → List Nat × PSt
  | [], s => ([], s)
  | n :: rest, s =>
    let (id, s) := P none n allow s
    let (ids, s) := parseList P allow rest s
    (id :: ids, s)

/-- the filter of `_parse_any_of_schemas` / `_parse_one_of_schemas` -/
def isEmptyIR (o : IR) : Bool :=
  o.type.isNone && o.props.isEmpty && o.items.isNone && !o.hasEnum
    && (o.anyOf.getD []).isEmpty && (o.oneOf.getD []).isEmpty && (o.allOf.getD []).isEmpty

def unionInto (acc : List Str) (xs : List Str) : List Str :=
  xs.foldl (fun a x => if a.contains x then a else a ++ [x]) acc

/-- `_process_all_of` (the `allOf` branch) -/
def mergeParts (s : PSt) : List Nat → List (Str × Nat) → List Str → List (Str × Nat) × List Str
  | [], mp, mr => (mp, mr)
  | id :: rest, mp, mr =>
    let o := s.get id
    let mp := o.props.foldl (fun m (kv : Str × Nat) => if dHas kv.1 m then m else m ++ [kv]) mp
    mergeParts s rest mp (unionInto mr o.required)

def parseOwn (P : PFn) (name : Option Str) (allow : Bool) :
    List (Str × Node) → List (Str × Nat) → PSt → List (Str × Nat) × PSt
  | [], mp, s => (mp, s)
  | (k, p) :: rest, mp, s =>
    let ctx : Str := if truthy name then name.getD [] ++ '.' :: k else k
    let (id, s) := P (some ctx) p allow s
    parseOwn P name allow rest (dSet k id mp) s

/-- `item_schema_name_for_recursive_parse` for inline items -/
def findCounter (reg : List (Str × Nat)) (orig : Str) (c : Nat) : Nat → Str
  | 0 => orig ++ natStr c
  | f + 1 => if dHas (orig ++ natStr c) reg then findCounter reg orig (c + 1) f else orig ++ natStr c

def itemName (s : PSt) (name : Option Str) (items : Node) : Option Str :=
  if items.isRef.isSome || items.isPrim then none else
  let base : Str := if truthy name then name.getD [] else "AnonymousArray".toList
  let nm := sanClass (base ++ sItem)
  if !truthy name && s.regHas nm then some (findCounter s.reg nm 2 (s.reg.length + 1)) else some nm

/-- parse the items and wrap a promoted inline object in a reference holder -/
def parseItems (P : PFn) (name : Option Str) (items : Node) (allow : Bool) (s : PSt) : Nat × PSt :=
  let inm := itemName s name items
  let (aid, s) := P inm items allow s
  if items.isObjType && (s.get aid).name == inm then
    s.alloc (mkIR { type := (s.get aid).name, refersTo := some aid })
  else (aid, s)

def primTypes : List Str := [PrimTy.string.str, PrimTy.integer.str, PrimTy.number.str, PrimTy.boolean.str]

/-- registration key logic shared by `_parse_schema` and the inline-object promotion:
    the object's own (sanitized) name, unless that key is taken by ANOTHER object — then the raw
    name. -/
def regKey (s : PSt) (o : IR) (raw : Str) (id : Nat) : Str :=
  let key := if truthy o.name then o.name.getD [] else raw
  match dGet key s.reg with
  | some ex => if ex != id then raw else key
  | none => key

/-- the first detected cycle that starts and ends at `n` decides (`break`) -/
def cycleMark (n : Str) : List CycleInfo → Bool
  | [] => false
  | ci :: rest =>
    if ci.path.head? == some n && ci.path.getLast? == some n then
      ci.path.length == 2 || (ci.path.length == 3 && hasSub sItem (ci.path.getD 1 []))
    else cycleMark n rest

/-- schema_parser.py:846-923 — early return of a stored circular placeholder, registration,
    marking. -/
def finish (decls : Decls) (name : Option Str) (id : Nat) (s : PSt) : Nat × PSt :=
  match name with
  | some n =>
    if !truthy name then (id, s) else
    match dGet n s.reg with
    | some ex =>
      if (s.get ex).circular && ex != id then (ex, s) else finishReg decls n id s
    | none => finishReg decls n id s
  | none => (id, s)
where
  finishReg (decls : Decls) (n : Str) (id : Nat) (s : PSt) : Nat × PSt :=
    let o := s.get id
    let isPrimSchema := (match o.type with | some t => primTypes.contains t | none => false) && !o.hasEnum
    let synthPrim := isPrimSchema && !(dHas n decls)
    let s := if !synthPrim then s.regSet (regKey s o n id) id else s
    let s := if cycleMark n s.tr.cycles then s.modify id (fun o => { o with circular := true, unresolved := true })
             else s
    (id, s)

/-- `_parse_properties`, inline object with a parent name: promotion to `<Parent><Prop>`; the
    property becomes a holder that refers to the promoted schema. -/
def propInline (P : PFn) (parent : Option Str) (allow : Bool) (k : Str) (p : Node) (s : PSt) : Nat × PSt :=
  let pname := parent.getD [] ++ sanClass k
  let q := P (some pname) p allow s
  let o := q.2.get q.1
  let h := q.2.alloc (mkIR { name := some k, type := o.name, refersTo := some q.1 })
  (h.1, if !o.unresolved && !o.depthMarker && !o.circular then h.2.regSet (regKey h.2 o pname q.1) q.1 else h.2)

/-- the name under which a non-promoted property schema is parsed (`schema_name_for_parsing`) -/
def propCtxName (parent : Option Str) (k : Str) (p : Node) : Option Str :=
  let sp := sanClass k
  let ctx : Str :=
    if truthy parent then
      if startsWith (sp.map lowerA) ((parent.getD []).map lowerA) then sp else parent.getD [] ++ sp
    else sp
  if p.isPlainPrim || p.isSimpleArr then none else some ctx

def Node.enumFlag (p : Node) : Bool := match p.core with | .prim _ e => e | _ => false

/-- `_parse_properties`, every other non-`$ref` property. -/
def propOther (P : PFn) (parent : Option Str) (allow : Bool) (k : Str) (p : Node) (s : PSt) : Nat × PSt :=
  let nm := propCtxName parent k p
  let q := P nm p allow s
  let o := q.2.get q.1
  let registeredHere := match nm with
    | some c => o.name == some c && q.2.regHas c
    | none => false
  let shouldRef := registeredHere
    && (match nm with | some c => dGet c q.2.reg == some q.1 | none => false)
    && (o.type == some sObject || (o.type == some sArray && !p.isSimpleArr))
    && !o.unresolved && !o.depthMarker && !o.circular && !p.isPlainPrim
  if shouldRef then
    q.2.alloc (mkIR { type := o.name, refersTo := some q.1, hasEnum := !o.hasEnum && p.enumFlag,
                      items := if o.type == some sArray then o.items else none })
  else if registeredHere then
    q.2.alloc (mkIR { type := o.name, refersTo := some q.1, hasEnum := !o.hasEnum && p.enumFlag })
  else
    (q.1, q.2.modify q.1 (fun o => { o with name := some k, hasEnum := o.hasEnum || p.enumFlag }))

def propStep (decls : Decls) (P : PFn) (parent : Option Str) (allow : Bool) (k : Str) (p : Node) (s : PSt) :
    Nat × PSt :=
  match p.isRef with
  | some t => resolveRef decls P t allow s
  | none =>
    if p.isInlineObj && truthy parent then propInline P parent allow k p s
    else propOther P parent allow k p s

/-- `_parse_properties` -/
def parseProps (decls : Decls) (P : PFn) (parent : Option Str) (allow : Bool) :
    List (Str × Node) → List (Str × Nat) → PSt → List (Str × Nat) × PSt
  | [], acc, s => (acc, s)
  | (k, p) :: rest, acc, s =>
    if k.isEmpty || dHas k acc then parseProps decls P parent allow rest acc s else
    let q := propStep decls P parent allow k p s
    parseProps decls P parent allow rest (dSet k q.1 acc) q.2

def dedup (xs : List Str) : List Str := unionInto [] xs

/-- the `try:` body of `_parse_schema` for a mapping node -/
def body (decls : Decls) (P : PFn) (name : Option Str) (node : Node) (allow : Bool) (s : PSt) : Nat × PSt :=
  let san : Option Str := if truthy name then name.map sanClass else none
  match node.core with
  | .ref t =>
    let (rid, s) := resolveRef decls P t allow s
    let rn := (s.get rid).name
    match name with
    | some n =>
      if !truthy name then (rid, s)
      else if truthy rn && rn != name && s.regHasO rn then (rid, s)
      else if !s.regHas n then (rid, s.regSet n rid)
      else (rid, s)
    | none => (rid, s)
  | .prim ty e =>
    let (id, s) := s.alloc (mkIR { name := san, type := some ty.str, hasEnum := e })
    finish decls name id s
  | .obj props req ap =>
    let (fp, s) := match props with
      | some ps => parseProps decls P san allow ps [] s
      | none => ([], s)
    let (apid, s) := match ap with
      | some a => let (i, s) := P none a allow s; (some i, s)
      | none => (none, s)
    let (id, s) := s.alloc (mkIR { name := san, type := some sObject, props := fp, required := dedup req,
                                   addl := apid })
    finish decls name id s
  | .arr items =>
    let (iid, s) := parseItems P name items allow s
    let (id, s) := s.alloc (mkIR { name := san, type := some sArray, items := some iid })
    -- "Re-parse items for complex array types" (schema_parser.py:782-844): always taken here
    let (iid2, s) := parseItems P name items allow s
    let s := s.modify id (fun o => { o with items := some iid2 })
    finish decls name id s
  | .allOf parts props req =>
    let (comps, s) := parseList P allow parts s
    let (mp, mr) := mergeParts s comps [] (dedup req)
    let (mp, s) := parseOwn P name allow props mp s
    let (id, s) := s.alloc (mkIR { name := san, type := some sObject, props := mp, required := mr,
                                   allOf := some comps })
    finish decls name id s
  | .oneOf parts =>
    let (ids, s) := parseList P allow parts s
    let kept := ids.filter (fun i => !isEmptyIR (s.get i))
    let (id, s) := s.alloc (mkIR { name := san, type := if kept.isEmpty then some sObject else none,
                                   oneOf := if kept.isEmpty then none else some kept })
    finish decls name id s
  | .anyOf parts =>
    let (ids, s) := parseList P allow parts s
    let kept := ids.filter (fun i => !isEmptyIR (s.get i))
    let (id, s) := s.alloc (mkIR { name := san, type := if kept.isEmpty then some sObject else none,
                                   anyOf := if kept.isEmpty then none else some kept })
    finish decls name id s
  | .nullable _ => (0, s)   -- unreachable: `core` strips every wrapper

def bodyAndExit (decls : Decls) (P : PFn) (name : Option Str) (node : Node) (allow : Bool) (s : PSt) :
    Nat × PSt :=
  let (id, s) := body decls P name node allow s
  (id, s.doExit name)

/-- `_parse_schema` with the recursive calls abstracted. -/
def parseCore (decls : Decls) (P : PFn) (name : Option Str) (node : Node) (allow : Bool) (s : PSt) :
    Nat × PSt :=
  let (r, ph, s) := s.doEnter name allow
  match r.action with
  | .createPlaceholder => (ph.getD 0, s.doExit name)
  | .returnPlaceholder =>
    let s := s.doExit name
    match name with
    | some n =>
      if truthy name then
        match dGet n s.reg with
        | some id => (id, s)
        | none => s.alloc (mkIR { name := some (sanClass n) })
      else s.alloc (mkIR {})
    | none => s.alloc (mkIR {})
  | .returnExisting =>
    let s := s.doExit name
    match name with
    | some n =>
      if truthy name then
        match dGet n s.reg with
        | some id => (id, s)
        | none => bodyAndExit decls P name node allow (s.doReset n)
      else bodyAndExit decls P name node allow s
    | none => bodyAndExit decls P name node allow s
  | .continueParsing => bodyAndExit decls P name node allow s

def parseStep (decls : Decls) (P : PFn) : PFn := fun name node allow s =>
  let n1 := s.nest + 1
  let s := { s with nest := n1, maxNest := max s.maxNest n1 }
  let (id, s) := parseCore decls P name node allow s
  (id, { s with nest := s.nest - 1 })

def parse (decls : Decls) : Nat → PFn
  | 0 => fun _ _ _ s => (0, { s with oom := true })
  | fuel + 1 => parseStep decls (parse decls fuel)

/-- the loop of `build_schemas` -/
def buildLoop (decls : Decls) (fuel : Nat) : List (Str × Node) → PSt → PSt
  | [], s => s
  | (n, nd) :: rest, s =>
    if !s.regHas n && !s.regHas (sanClass n) then
      buildLoop decls fuel rest (parse decls fuel (some n) nd true s).2
    else buildLoop decls fuel rest s

/-- names for which the post-condition of `build_schemas` raises `RuntimeError` -/
def missing (decls : Decls) (s : PSt) : List Str :=
  (decls.map (·.1)).filter (fun n => !s.regHas n && !s.regHas (sanClass n))

def buildSchemas (maxDepth fuel : Nat) (decls : Decls) : PSt :=
  buildLoop decls fuel decls { tr := { maxDepth := maxDepth } }

/-! ### observation -/

inductive ModelKind
  | full | cyclePlaceholder | depthPlaceholder | selfStub | unresolved
  deriving DecidableEq, Repr

def IR.kind (o : IR) : ModelKind :=
  if o.depthMarker then .depthPlaceholder
  else if o.circular then .cyclePlaceholder
  else if o.selfStub then .selfStub
  else if o.unresolved then .unresolved
  else .full

/-- the model registered for a declared name (`n`, else `sanitize_class_name(n)`) -/
def PSt.lookup (s : PSt) (n : Str) : Option Nat :=
  match dGet n s.reg with
  | some i => some i
  | none => dGet (sanClass n) s.reg

end Pog.Prs
