import Pog.Drv.Util
import Pog.Model.Fresh
import Pog.Model.Plan
open Lean Pog Pog.Drv Pog.Diff Pog.Plan
namespace Pog.Drv

def planFns : List String :=
  ["planWrites", "planRun", "showDiffs", "pyLines", "renderImports", "makeRelativeImport", "initExports",
   "relpathRoundtrip", "relpath", "normalise", "strPrefixTest", "pkgToPath", "ancestorsTo",
   "extractUrlVars", "finalParams", "codeParams", "importTables", "dedupTwice", "sortedStrs"]

private def optField (j : Json) (k : String) : Option Json :=
  match j.getObjVal? k with
  | .ok v => if v.isNull then none else some v
  | .error _ => none

private def strField (j : Json) (k : String) : Except String Str :=
  match optField j k with
  | some v => getStr v
  | none => pure []

private def getPair (j : Json) : Except String (Str × Str) := do
  let a ← j.getArr?
  match a.toList with
  | [x, y] => pure (← getStr x, ← getStr y)
  | [x] => pure (← getStr x, [])
  | _ => throw "expected [name, text]"

private def getPathPair (j : Json) : Except String (Path × Str) := do
  let a ← j.getArr?
  match a.toList with
  | [x, y] => pure (← getStrs x, ← getStr y)
  | [x] => pure (← getStrs x, [])
  | _ => throw "expected [path, text]"

private def pairsField (j : Json) (k : String) : Except String (List (Str × Str)) :=
  match optField j k with
  | some v => getList getPair v
  | none => pure []

/-- a JSON array indexed by the evaluation count; missing entries repeat the last one -/
private def indexed (xs : List α) (dflt : α) : Nat → α := fun k =>
  match xs[k]? with
  | some x => x
  | none => xs.getLast?.getD dflt

private def indexedField (f : Json → Except String α) (dflt : α) (j : Json) (k : String) :
    Except String (Nat → α) :=
  match optField j k with
  | some v => do pure (indexed (← getList f v) dflt)
  | none => pure (fun _ => dflt)

private def getSpec (j : Json) : Except String PlanSpec := do
  pure {
    aliases := ← strField j "aliases"
    registry := ← strField j "registry"
    runtime := ← (match optField j "runtime" with
      | some v => do
        let es ← getList getPathPair v
        es.mapM (fun e => match e.1.getLast? with
          | some n => pure (e.1.dropLast, n, e.2)
          | none => throw "empty runtime path")
      | none => pure [])
    coreInit := ← strField j "coreInit"
    authInit := ← strField j "authInit"
    readme := ← strField j "readme"
    config := ← strField j "config"
    models := ← pairsField j "models"
    modelsInit := ← strField j "modelsInit"
    endpoints := ← indexedField (getList getPair) [] j "endpoints"
    endpointsInit := ← indexedField getStr [] j "endpointsInit"
    client := ← strField j "client"
    mocks := ← indexedField (getList getPair) [] j "mocks"
    mockEndpointsInit := ← indexedField getStr [] j "mockEndpointsInit"
    mockClient := ← indexedField getStr [] j "mockClient"
    mocksInit := ← indexedField getStr [] j "mocksInit"
    richInit := ← strField j "richInit" }

private def getCfg (j : Json) : Except String PlanCfg := do
  let core ← (match optField j "corePackage" with
    | some v => do pure (some (← getStr v))
    | none => pure none)
  pure {
    root := ← getStrs (← j.getObjVal? "root")
    outputPackage := ← getStr (← j.getObjVal? "outputPackage")
    corePackage := core
    force := ← getBool (← j.getObjVal? "force")
    outExists := ← getBool (← j.getObjVal? "outExists")
    noPostprocess := (← (match optField j "noPostprocess" with
      | some v => getBool v
      | none => pure true))
    tmpDir := ← getStrs (← j.getObjVal? "tmpDir")
    tmpName := ← getStr (← j.getObjVal? "tmpName") }

private def jpath (p : Path) : Json := jstr (pathStr p)

private def jguard : Guard → Json
  | .always => Json.null
  | .ifAbsent q => Json.mkObj [("ifAbsent", jpath q)]
  | .ifPresent q => Json.mkObj [("ifPresent", jpath q)]

private def jact : Act → List (String × Json)
  | .mkdirs p => [("a", "mkdirs"), ("p", jpath p)]
  | .write p _ => [("a", "write"), ("p", jpath p)]
  | .append p _ => [("a", "append"), ("p", jpath p)]
  | .rename s d => [("a", "rename"), ("p", jpath s), ("p2", jpath d)]
  | .rmtree p => [("a", "rmtree"), ("p", jpath p)]
  | .rewrite p => [("a", "rewrite"), ("p", jpath p)]

private def jop (o : Op) : Json := Json.mkObj (("g", jguard o.guard) :: jact o.act)

private def writesOf : Act → List Path
  | .write p _ => [p]
  | .append p _ => [p]
  | .rename _ d => [d]
  | .rewrite p => [p]
  | _ => []
private def removesOf : Act → List Path
  | .rename s _ => [s]
  | .rmtree p => [p]
  | _ => []
private def mkdirsOf : Act → List Path
  | .mkdirs p => [p]
  | _ => []

private def getTree (j : Json) : Except String Tree := getList getPathPair j

private def jtree (t : List (Path × Str)) : Json :=
  jlist (fun e => Json.arr #[jpath e.1, jstr e.2]) t

private def getImpOp (j : Json) : Except String ImpOp := do
  let a ← j.getArr?
  match a.toList with
  | [k, m, n] =>
    let k ← k.getStr?
    if k == "imp" then pure (.imp (← getStr m) (← getStr n))
    else if k == "rel" then pure (.rel (← getStr m) (← getStr n))
    else throw s!"bad import op {k}"
  | [k, m] =>
    let k ← k.getStr?
    if k == "plain" then pure (.plain (← getStr m)) else throw s!"bad import op {k}"
  | _ => throw "bad import op"

private def optStrField (j : Json) (k : String) : Except String (Option Str) :=
  match optField j k with
  | some v => do pure (some (← getStr v))
  | none => pure none

private def getImpCtx (j : Json) : Except String ImpCtx := do
  pure {
    builtins := ← (match optField j "builtins" with
      | some v => getStrs v
      | none => pure [])
    current := ← optStrField j "current"
    pkgRoot := ← optStrField j "pkgRoot"
    corePkg := ← optStrField j "corePkg" }

private def getInitSchema (j : Json) : Except String InitSchema := do
  let a ← j.getArr?
  match a.toList with
  | [n, g, s, u] => pure ⟨← getStr n, ← getStr g, ← getStr s, ← getBool u⟩
  | _ => throw "expected [name, generation_name, final_module_stem, unresolved]"

private def getParam (j : Json) : Except String ParamInfo := do
  let a ← j.getArr?
  match a.toList with
  | [n, r, o] => pure ⟨← getStr n, ← getBool r, ← getStr o⟩
  | _ => throw "expected [name, required, original_name]"

private def jparam (p : ParamInfo) : Json := Json.arr #[jstr p.name, Json.bool p.required, jstr p.originalName]

private def joutcome : Outcome → Json
  | .success => "success"
  | .raisedDiff => "raisedDiff"
  | .raisedOther => "raisedOther"

def planRunFn (f : String) (a : Array Json) : Except String Json := do
  match f with
  | "planWrites" =>
    let cfg ← getCfg (← argN a 0)
    let sp ← getSpec (← argN a 1)
    let stages := plan cfg sp
    let ops := planOps cfg sp
    pure (Json.mkObj [
      ("diffMode", Json.bool cfg.diffMode),
      ("outDir", jpath (if cfg.diffMode then cfg.tmpOut else cfg.outDir)),
      ("coreDir", jpath (if cfg.diffMode then cfg.tmpCore else cfg.coreDir)),
      ("stages", jlist (fun s => Json.mkObj [("stage", Json.str s.1.name), ("ops", jlist jop s.2)]) stages),
      ("writes", jlist jpath (ops.flatMap (fun o => writesOf o.act)).eraseDups),
      ("removes", jlist jpath (ops.flatMap (fun o => removesOf o.act)).eraseDups),
      ("mkdirs", jlist jpath (ops.flatMap (fun o => mkdirsOf o.act)).eraseDups)])
  | "planRun" =>
    let cfg ← getCfg (← argN a 0)
    let sp ← getSpec (← argN a 1)
    let files ← getTree (← argN a 2)
    let dirs ← getList getStrs (← argN a 3)
    let fault ← getNat (← argN a 4)
    let r := runGenerate id cfg sp ⟨files, dirs⟩ fault
    pure (Json.mkObj [
      ("outcome", joutcome r.2),
      ("files", jtree r.1.files),
      ("dirs", jlist jpath r.1.dirs)])
  | "showDiffs" => pure (Json.bool (showDiffs (← getTree (← argN a 0)) (← getTree (← argN a 1))))
  | "pyLines" => pure (jstrs (pyLines (← getStr (← argN a 0))))
  | "renderImports" =>
    let ctx ← getImpCtx (← argN a 0)
    let ops ← getList getImpOp (← argN a 1)
    pure (Json.mkObj [
      ("statements", jstrs (importStatements ctx ops)),
      ("formatted", jstr (formattedImports ctx ops))])
  | "makeRelativeImport" =>
    pure (jstr (makeRelativeImport (← getStr (← argN a 0)) (← getStr (← argN a 1))))
  | "initExports" => pure (jstr (initExports (← getList getInitSchema (← argN a 0))))
  | "relpathRoundtrip" =>
    let out ← getStrs (← argN a 0)
    let core ← getStrs (← argN a 1)
    pure (Json.mkObj [("rel", jstrs (relpath core out)), ("target", jstrs (coreTarget out core))])
  | "relpath" => pure (jstrs (relpath (← getStrs (← argN a 0)) (← getStrs (← argN a 1))))
  | "normalise" => pure (jstrs (normalise (← getStrs (← argN a 0))))
  | "strPrefixTest" => pure (Json.bool (strPrefixTest (← getStrs (← argN a 0)) (← getStrs (← argN a 1))))
  | "pkgToPath" => pure (jstrs (pkgToPath (← getStrs (← argN a 0)) (← getStr (← argN a 1))))
  | "ancestorsTo" => pure (jlist jstrs (ancestorsTo (← getStrs (← argN a 0)) (← getStrs (← argN a 1))))
  | "extractUrlVars" => pure (jstrs (extractUrlVars (← getStr (← argN a 0))))
  | "finalParams" =>
    pure (jlist jparam (finalParams (← getList getParam (← argN a 0)) (← getStrs (← argN a 1))))
  | "codeParams" =>
    pure (jlist jparam (codeParams (← getList getParam (← argN a 0)) (← getStrs (← argN a 1))))
  | "importTables" =>
    pure (Json.mkObj [("preferPlain", jstrs preferPlainModules), ("commonStdlib", jstrs commonStdlib)])
  | "dedupTwice" =>
    let ids ← getStrs (← argN a 0)
    match dedupOpIds? [] ids with
    | none => pure Json.null
    | some once => pure (Json.arr #[jstrs once, jopt jstrs (dedupOpIds? [] once)])
  | "sortedStrs" =>
    let xs ← getStrs (← argN a 0)
    pure (Json.mkObj [("sorted", jstrs (pySorted xs)), ("sortedSet", jstrs (sortU xs))])
  | _ => throw s!"unknown function {f}"

def dispatchPlan : Dispatch := fun f a _ =>
  if planFns.contains f then some (planRunFn f a) else none

end Pog.Drv
