import Pog.Props.C02d
/-
  C02, own `properties` NEXT TO `allOf` (`{allOf: […], properties: {…}, required: […]}`) – NOT covered by
  `C02c.parse_faithful_partial3` (`simpleNode3` wants `.allOf parts [] _`).  This file does NOT extend the theorem
  (no `Simple4` / `parse_faithful_partial4` / `inFragment4`: see "what the invariant would need" below); it
  records, by evaluation of the model in the kernel, that the model IS faithful on such documents of several shapes,
  and the two boundaries found while evaluating.

    own_prims_faithful              (evaluated) `Child = allOf[$ref Base] + 4 own primitives (one nullable), required`,
                                                declared in both orders
    own_override_faithful           (evaluated) an own property REPLACES an inherited one of another type, in place
                                                (`dSet`), the inherited `required` is kept
    own_chain_faithful              (evaluated) grandchild → child → base, each level with own properties, an inline
                                                member with an array, declared children-first and parents-first
    own_siblings_faithful           (evaluated) two children of one base with the SAME own key of different types
                                                (tracker names `Cat.name` / `Dog.name`), used from a third schema by
                                                `$ref` and array of `$ref`
    ✗ parse_faithful_own_prim_depth_counterexample   an own primitive property is a NAMED `_parse_schema` call
                                                (`<Child>.<prop>`) and is subject to the depth test: at
                                                `PYOPENAPI_MAX_DEPTH = 1` the field is a depth placeholder
                                                (`.ref ChildName` instead of `.prim string`); a primitive property of
                                                a plain object is anonymous and is not.  Side condition a `Simple4`
                                                needs: `1 ≤ rank n` for an `allOf` schema with own properties.
    own_dup_key_model_vs_denotation (evaluated) a property LIST with a repeated key (impossible in a JSON / YAML
                                                mapping, possible in `Node`): the model keeps the LAST (`dSet`), the
                                                denotation the FIRST (`mergeKeyed`); `Simple4` needs `Nodup` own keys,
                                                as `simpleNode3` has for objects.

  ## What the invariant would need (why this is not a theorem yet)

  `parseOwn` parses the own property `k` of `Child` by `P (some "Child.k") p allow`.  For a plain primitive the callee
  enters the tracker under the name `Child.k`, allocates the IR object (name `sanClass "Child.k"` = `ChildK`), and
  `finish.finishReg` does NOT register it (`synthPrim`: primitive, no enum, name undeclared); `doExit` marks
  `Child.k` COMPLETED.  So after the call the tracker has a COMPLETED name that is not in the registry.  Three
  definitions at the ROOT of the proof (`Pog/Lemmas/ParserFaithful.lean`, shared by `Simple`, `Simple2`, `Simple3`)
  exclude exactly that state:

    1. `Step.states`  :  `∀ m, states' m = states m ∨ (states m = none ∧ states' m = completed ∧ regHas' m = true)`;
    2. `TK` / `TK3`, third clause:  `… ∨ (states m = completed ∧ regHas m = true) ∨ …`;
    3. `Step.regNew` is fine, but `enter_fresh3` / `TK3.afterEnter` use 2. to know that a name whose state is `none`
       is unregistered and that `enter` takes the `continueParsing` arm.

  The extension needs a THIRD alternative in 1. and a FOURTH disjunct in 2.:
       `states m = completed ∧ regHas m = false ∧ Dotted decls m`
  where `Dotted decls m := ∃ d ∈ decls, ∃ k ∈ ownKeys d.2, m = d.1 ++ '.' :: k`, together with
    a. a lemma that a dotted name is never a declared name nor a context name of `ctxs3` (all of those satisfy
       `sanClass c = c`, and `sanClass` output contains no `'.'`: needs `sanClass_no_dot` in
       Pog/Lemmas/ParserNames.lean), so that every existing use of clause 2. on declared / context names goes
       through unchanged (the new disjunct is refuted by `a.`);
    b. the ownership clause of `TK3` (4th conjunct) and `Own3` extended from `ctxs3 d.1 d.2` to
       `ctxs3 d.1 d.2 ++ dots d` – a dotted name has only been touched if its owner has, which is what makes it
       `none` when `parseOwn` reaches it (`CtxPre3.enter` analogue) – and injectivity
       `n ++ '.' :: k = n' ++ '.' :: k' → n = n' ∧ k = k'` for dot-free `n, n'` (split at the first dot);
    c. a contract `OwnPrimSpec P` for the callback (analogue of `EnumSpec3`, proved for `parseStep` like
       `parseStep_enumSpec3` via a `body_enum_eq`-style unfolding with `e = false`): with `c` dotted, `states c = none`,
       `depth + 1 ≤ maxDepth`:  result id `= heap.length`, heap grows by `mkIR {name := sanClass c, type := ty.str}`,
       `reg` unchanged, `states c := completed`; this gives `Denotes (.prim ty)` (the object is `Anon`: unregistered)
       and the new `Step`;
    d. `shapeIs_allOf` (Pog/Lemmas/ParserFaithful3s.lean) generalised from own `[]` to
       `own.foldl dSet (mergedF …)`, and the matching `All2 (FieldK …)`-is-preserved-by-`dSet`-on-both-sides lemma for
       `parseOwn` (`mergeKeyed [] own = own` when the own keys are `Nodup`);
    e. side conditions of `Simple4`: own keys `Nodup`, `1 ≤ rank n` (depth, see the counterexample), own nodes plain
       primitives (`nullable` allowed).  Enum / inline-object own properties ARE registered (`ChildK`, key chosen by
       `regKey`) and would additionally need the `ctxFresh / ctxNodup / ctxInj` treatment with context
       `sanClass (n ++ '.' :: k)`.
  1.–2. touch `Step` / `TK`, which every lemma of `ParserFaithful{,2,3a,3b,3c}.lean` (≈ 5 800 lines) constructs or
  destructs; that is a re-proof of the step lemmas, not an add-on file, and did not fit the time box.
-/
namespace Pog.C02e
open Pog Pog.Prs Pog.Trk Pog.C02 Pog.C02b Pog.C02c

/-- `{allOf: parts, properties: ps, required: req}` -/
def cOwn (parts : List Node) (ps : List (String × Node)) (req : List String) : Node :=
  .allOf parts (ps.map (fun kv => (kv.1.toList, kv.2))) (req.map String.toList)

/-! ### shape 1: one parent, own plain primitives -/

def ownA : Decls :=
  [("Base".toList, cInl [("id", .prim .integer false)] ["id"]),
   ("Child".toList, cOwn [cRef "Base"]
      [("name", .prim .string false), ("age", .nullable (.prim .integer false)),
       ("score", .prim .number false), ("ok", .prim .boolean false)] ["name", "ok"])]

theorem ownA_fuel : specFuel ownA = 7 := by simp [specFuel, ownA, Node.size, cInl, cRef, cOwn]

/-- `own_prims_faithful`: every schema is `Faithful`, in both declaration orders; the own properties are parsed under
    the tracker names `Child.name`, … which end COMPLETED and unregistered (the state the step invariant excludes);
    `inFragment3` rejects the document -/
theorem own_prims_faithful :
    (∀ x ∈ ownA, Faithful ownA (buildSchemas 150 30 ownA) x.1) ∧
    (∀ x ∈ ownA, Faithful ownA.reverse (buildSchemas 150 30 ownA.reverse) x.1) ∧
    modelFields ownA (buildSchemas 150 30 ownA) "Child".toList = some
      [⟨"id".toList, true, .prim .integer⟩, ⟨"name".toList, true, .prim .string⟩,
       ⟨"age".toList, false, .prim .integer⟩, ⟨"score".toList, false, .prim .number⟩,
       ⟨"ok".toList, true, .prim .boolean⟩] ∧
    dGet "Child.name".toList (buildSchemas 150 30 ownA).tr.states = some .completed ∧
    (buildSchemas 150 30 ownA).regHas "Child.name".toList = false ∧
    (buildSchemas 150 30 ownA).regHas "ChildName".toList = false ∧
    inFragment3 150 30 ownA [("Child".toList, 2)] = false := by
  simp only [faithful_iff_F, ← specFuel_perm (List.reverse_perm ownA).symm, ownA_fuel]
  decide +kernel

/-! ### shape 2: an own property overrides an inherited one -/

def ownB : Decls :=
  [("Base".toList, cInl [("id", .prim .integer false), ("x", .prim .string false)] ["id"]),
   ("Child".toList, cOwn [cRef "Base"] [("id", .prim .string false), ("y", .prim .boolean false)] ["y"])]

theorem ownB_fuel : specFuel ownB = 7 := by simp [specFuel, ownB, Node.size, cInl, cRef, cOwn]

/-- `own_override_faithful`: `Child.id` is the child's STRING, at the inherited position, still required (by `Base`) -/
theorem own_override_faithful :
    (∀ x ∈ ownB, Faithful ownB (buildSchemas 150 30 ownB) x.1) ∧
    (∀ x ∈ ownB, Faithful ownB.reverse (buildSchemas 150 30 ownB.reverse) x.1) ∧
    modelFields ownB (buildSchemas 150 30 ownB) "Child".toList = some
      [⟨"id".toList, true, .prim .string⟩, ⟨"x".toList, false, .prim .string⟩, ⟨"y".toList, true, .prim .boolean⟩] := by
  simp only [faithful_iff_F, ← specFuel_perm (List.reverse_perm ownB).symm, ownB_fuel]
  decide +kernel

/-! ### shape 3: a chain, own properties at every level, an inline member, children declared first -/

def ownC : Decls :=
  [("GrandChild".toList, cOwn [cRef "Child"] [("g", .prim .boolean false)] ["g", "id"]),
   ("Child".toList, cOwn [cRef "Base", cInl [("tags", .arr (.prim .string false))] []]
      [("name", .prim .string false)] ["name"]),
   ("Base".toList, cInl [("id", .prim .integer false)] [])]

theorem ownC_fuel : specFuel ownC = 11 := by simp [specFuel, ownC, Node.size, cInl, cRef, cOwn]

/-- `own_chain_faithful`: `GrandChild` has the four fields of the chain; `id` is required only by the grandchild -/
theorem own_chain_faithful :
    (∀ x ∈ ownC, Faithful ownC (buildSchemas 150 30 ownC) x.1) ∧
    (∀ x ∈ ownC, Faithful ownC.reverse (buildSchemas 150 30 ownC.reverse) x.1) ∧
    modelFields ownC (buildSchemas 150 30 ownC) "GrandChild".toList = some
      [⟨"id".toList, true, .prim .integer⟩, ⟨"tags".toList, false, .arr (.prim .string)⟩,
       ⟨"name".toList, true, .prim .string⟩, ⟨"g".toList, true, .prim .boolean⟩] ∧
    modelFields ownC (buildSchemas 150 30 ownC) "Child".toList = some
      [⟨"id".toList, false, .prim .integer⟩, ⟨"tags".toList, false, .arr (.prim .string)⟩,
       ⟨"name".toList, true, .prim .string⟩] := by
  simp only [faithful_iff_F, ← specFuel_perm (List.reverse_perm ownC).symm, ownC_fuel]
  decide +kernel

/-! ### shape 4: siblings with the same own key, referenced from elsewhere -/

def ownD : Decls :=
  [("Base".toList, cInl [("id", .prim .integer false)] ["id"]),
   ("Cat".toList, cOwn [cRef "Base"] [("name", .prim .string false)] ["name"]),
   ("Dog".toList, cOwn [cRef "Base"] [("name", .prim .integer false)] []),
   ("Owner".toList, cInl [("cat", cRef "Cat"), ("dogs", .arr (cRef "Dog"))] [])]

theorem ownD_fuel : specFuel ownD = 12 := by simp [specFuel, ownD, Node.size, cInl, cRef, cOwn]

/-- `own_siblings_faithful`: `Cat.name` is a required string, `Dog.name` an optional integer; no cross-talk -/
theorem own_siblings_faithful :
    (∀ x ∈ ownD, Faithful ownD (buildSchemas 150 30 ownD) x.1) ∧
    (∀ x ∈ ownD, Faithful ownD.reverse (buildSchemas 150 30 ownD.reverse) x.1) ∧
    modelFields ownD (buildSchemas 150 30 ownD) "Cat".toList = some
      [⟨"id".toList, true, .prim .integer⟩, ⟨"name".toList, true, .prim .string⟩] ∧
    modelFields ownD (buildSchemas 150 30 ownD) "Dog".toList = some
      [⟨"id".toList, true, .prim .integer⟩, ⟨"name".toList, false, .prim .integer⟩] := by
  simp only [faithful_iff_F, ← specFuel_perm (List.reverse_perm ownD).symm, ownD_fuel]
  decide +kernel

/-! ### boundaries -/

/-- ✗ An own primitive property costs a depth level.  `Child = {allOf: [], properties: {name: string}}` at
    `PYOPENAPI_MAX_DEPTH = 1`: `_parse_schema("Child.name", …)` is entered at depth 1 and hits the limit, the field is
    the depth placeholder `ChildName` (kind `.ref ChildName`); at depth limit 2 the model is faithful.  The same
    property of a plain object (`{type: object, properties: {name: string}}`) is parsed anonymously and is faithful at
    depth limit 1.  (Real loader, same two documents, `PYOPENAPI_MAX_DEPTH=1`: `Child.properties["name"]` is
    `IRSchema(name="ChildName", type="object", _max_depth_exceeded_marker=True)` and `parsed_schemas` gains the key
    `Child.name`; the plain object gives `type="string"`; at limit 2 both give `type="string"`.) -/
theorem parse_faithful_own_prim_depth_counterexample :
    let d : Decls := [("Child".toList, cOwn [] [("name", .prim .string false)] [])]
    let o : Decls := [("Child".toList, cInl [("name", .prim .string false)] [])]
    specFields d "Child".toList = [⟨"name".toList, false, .prim .string⟩] ∧
    modelFields d (buildSchemas 1 30 d) "Child".toList = some [⟨"name".toList, false, .ref "ChildName".toList⟩] ∧
    ¬ Faithful d (buildSchemas 1 30 d) "Child".toList ∧
    Faithful d (buildSchemas 2 30 d) "Child".toList ∧
    Faithful o (buildSchemas 1 30 o) "Child".toList := by
  decide +kernel

/-- A property LIST with a repeated own key (not expressible in a JSON / YAML mapping): the model keeps the last
    (`parseOwn` assigns `merged_props[k]` twice), the denotation the first; a `Simple4` must ask for `Nodup` own keys. -/
theorem own_dup_key_model_vs_denotation :
    let d : Decls := [("Child".toList, cOwn [] [("a", .prim .string false), ("a", .prim .integer false)] [])]
    modelFields d (buildSchemas 150 30 d) "Child".toList = some [⟨"a".toList, false, .prim .integer⟩] ∧
    specFields d "Child".toList = [⟨"a".toList, false, .prim .string⟩] := by
  decide +kernel

end Pog.C02e
