"""Seeded string generators (names, hostile text)."""
from __future__ import annotations

import itertools
import random

ALPHABET13 = ["a", "b", "A", "B", "0", "1", "_", "-", " ", ".", "$", "é", "用"]

WORDS = ["user", "User", "group", "Group", "id", "ID", "HTTP", "Server", "get", "list", "by", "Item", "Property",
         "data", "type", "class", "None", "none", "True", "import", "def", "2fa", "v2", "API", "Response", "List",
         "x", "X", "foo", "Foo", "foo_2", "bar"]
SEPS = ["", "_", "-", " ", ".", "/", "{", "}", "__", "$", ":", "+"]

UNICODE_POOL = ["é", "É", "ß", "ñ", "用", "户", "ʼ", "²", "٣", "İ", "ǅ", "ﬁ", "Ω", "ω", "·", "ª", "Ⅷ", "😀", "𝔘", "‍", "ā"]


def exhaustive(alphabet=ALPHABET13, maxlen=4):
    for n in range(maxlen + 1):
        for t in itertools.product(alphabet, repeat=n):
            yield "".join(t)


def random_name(r: random.Random) -> str:
    k = r.random()
    if k < 0.55:
        n = r.randint(1, 4)
        parts = []
        for i in range(n):
            parts.append(r.choice(WORDS))
            if i < n - 1:
                parts.append(r.choice(SEPS))
        if r.random() < 0.15:
            parts.insert(0, r.choice(SEPS))
        if r.random() < 0.15:
            parts.append(r.choice(SEPS))
        return "".join(parts)
    if k < 0.8:
        return "".join(r.choice(ALPHABET13 + ["C", "c", "Z", "z", "9", "{", "}", "/"]) for _ in range(r.randint(0, 9)))
    if k < 0.93:
        pool = UNICODE_POOL + list("abAB01_- ")
        return "".join(r.choice(pool) for _ in range(r.randint(1, 7)))
    # arbitrary BMP / astral scalar values (no surrogates, no U+03A3 whose lower() is context dependent)
    out = []
    for _ in range(r.randint(1, 6)):
        while True:
            cp = r.choice([r.randint(0x20, 0x7E), r.randint(0xA0, 0x24FF), r.randint(0x3000, 0x9FFF), r.randint(0x1F300, 0x1F6FF)])
            if not (0xD800 <= cp <= 0xDFFF) and cp != 0x03A3:
                break
        out.append(chr(cp))
    return "".join(out)


def colliding_pool(r: random.Random) -> list[str]:
    """A small pool of names many of which collide after sanitisation."""
    base = r.choice(["foo", "userId", "a-b", "Email", "type", "x", "HTTPServer", "field"])
    variants = {
        "foo": ["foo", "Foo", "foo_", "FOO", "foo_2", "foo-2", "foo_2_2", "foo2", "_foo", "foo_3"],
        "userId": ["userId", "user_id", "user-id", "UserId", "userID", "user id", "user_id_2", "User_Id", "userId2"],
        "a-b": ["a-b", "a_b", "a b", "a.b", "A-B", "a_b_2", "a__b", "aB"],
        "Email": ["Email", "email", "Email_", "Email2", "EMAIL", "e-mail", "Email_2", "email2"],
        "type": ["type", "Type", "type_", "TYPE", "type_2", "Type2", "type-"],
        "x": ["x", "X", "x_", "_x", "x_2", "x_1", "x1", "X_1", "x_3"],
        "HTTPServer": ["HTTPServer", "HttpServer", "http_server", "httpServer", "HTTP_Server", "http-server", "HTTPServer2", "http_server_2"],
        # a dataclass attribute is never called `field` (it would shadow dataclasses.field): `field_`, then the usual `_2`, `_3`
        "field": ["field", "Field", "field_", "FIELD", "field_2", "field__2", "fields", "-field-", "field__3"],
    }[base]
    return variants
