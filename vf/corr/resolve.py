#!/venv/bin/python
"""Schema type resolver — correspondence of the Lean model `Pog.Resolve` with the real `OpenAPISchemaResolver`.

run():    (a) `os.path.basename` / `os.path.dirname` and the self-import test vs `pathBasename` / `pathDirname` /
              `selfImport`; `import_module` selection vs `importModuleOf`;
          (b) random `IRSchema` graphs (trees, tied into cycles only through the registry) resolved by the real
              `OpenAPISchemaResolver(OpenAPIReferenceResolver(reg)).resolve_schema(schema, ctx, required, resolve_underlying)`
              with a recording context vs `resolve` (fuel 64): `python_type`, `is_optional`, `is_forward_ref`,
              `needs_import`, `import_module`, `import_name`, the ORDERED `add_import` list, and the names python's own
              parser finds in `python_type` vs the model's `usedNames`; `RecursionError` <-> out of fuel.
oracle(): property 1 ("every name a template uses has an import request") evaluated on the real resolver alone:
          names of `ast.parse(python_type, mode="eval")` (none when the result is a forward reference) must be builtins or
          names passed to `context.add_import`; besides, `is_optional == (not required)`, forward references only inside
          `models/<stem>.py`, distinct `Union[...]` members.

Importable: no work and no `pyopenapi_gen` import at module import time.
"""
from __future__ import annotations

import ast
import contextlib
import json
import os
import random
import subprocess
import sys

DEFAULT_DRIVER = "/verif/lean/.lake/build/bin/driver"
FUEL = 64

RULE = (
    "paths: random '/'-separated strings over {'', a, models, pet.py, pet, .py, x} with doubled/leading/trailing slashes -> "
    "os.path.basename/dirname vs pathBasename/pathDirname, (basename == stem+'.py' and basename(dirname) == 'models') vs "
    "selfImport; NON-TRIVIAL when the path holds a '/'. "
    "resolve: IRSchema trees of depth <= 4 from node kinds {primitive (all formats incl. unknown/empty), named model "
    "(name/generation_name/final_module_stem each possibly None or ''), string enum and boolean enum with/without "
    "generation_name (enum values incl. None/0/1/duplicates), array with/without items, anyOf/oneOf with 0-4 members and "
    "deliberate duplicates, allOf with typed/untyped parts, name-only reference, type-as-reference, null, fully random "
    "mix}; registry over a 6-name pool whose entries are the SAME object as a tree node or a separate object (cycles "
    "arise only through the registry: RecursionError <-> model `none`); context = recorder of add_import with "
    "render_context absent / present with any subset of {current_file (models/endpoints/odd paths, None, 123), add_import, "
    "calculate_relative_path_for_internal_module (prefix marker / constant / None / '' / raises)}; required and "
    "resolve_underlying random.  NON-TRIVIAL when the root branch is a registry jump, an array with items, a union loop, "
    "a named schema, or a string/boolean leaf that looks at enum/format, or the real resolver raised RecursionError."
)

NAMES = ["Pet", "Owner", "Tag", "Node", "Status", "Kind"]
STEMS = {"Pet": "pet", "Owner": "owner", "Tag": "tag", "Node": "node", "Status": "status", "Kind": "kind"}
FORMATS = [None, "", "date", "date-time", "time", "uuid", "email", "uri", "hostname", "ipv4", "ipv6", "binary",
           "int32", "password", "Date"]
PRIMS = ["string", "integer", "number", "boolean"]
TYPES = [None, "", "string", "integer", "number", "boolean", "array", "object", "null", "Any", "None", "weird"]
BOOL_ENUMS = [None, [], [True], [False], [True, False], [None, True], [None, False], [True, True], [None], [None, None],
              [True, False, None], [1], [0], ["x"], [""], [False, None, None]]
STR_ENUMS = [None, [], ["a"], ["a", "b"], [None]]
CUR_FILES = ["/out/models/pet.py", "/out/endpoints/pet.py", "models/pet.py", "pet.py", "/models/pet.py",
             "/out/models//pet.py", "/out/models/pet.py/", "", "/out/models/xpet.py", "/out/notmodels/pet.py",
             "/out/models/owner.py", "//pet.py", "/out/models/sub/pet.py", "/out/models/tag.py", "/out/models/node.py",
             "/out/endpoints/owner.py", "/out/models/status.py", "models//owner.py", "/out/xmodels/owner.py",
             "/out/models/pet.pyc", "/out/models/kind.py"]
BUILTINS = {"str", "int", "float", "bool", "bytes", "dict"}

CLASS_NAMED = "resolve.named_no_stem_no_import"
CLASS_ENUM = "resolve.string_enum_no_import"
CLASS_OTHER = "resolve.name_without_import"
CLASS_OPTIONAL = "resolve.optional_not_negated_required"
CLASS_FWD = "resolve.forward_ref_outside_models"
CLASS_UNION = "resolve.union_members_not_distinct"


# ---------------------------------------------------------------------------------------------- helpers

def _drive(driver: str, reqs: list) -> list:
    """one batch: the driver answers at EOF"""
    if not reqs:
        return []
    inp = "".join(json.dumps({"f": f, "a": list(a)}) + "\n" for f, *a in reqs)
    p = subprocess.run([driver], input=inp, capture_output=True, text=True, timeout=900)
    lines = p.stdout.splitlines()
    assert len(lines) == len(reqs), (len(lines), len(reqs), p.stderr[-2000:])
    res = [json.loads(x) for x in lines]
    for q, r in zip(reqs, res):
        if isinstance(r, dict) and "error" in r and len(r) == 1:
            raise RuntimeError(f"driver error {str(q)[:400]}: {r['error']}")
    return res


@contextlib.contextmanager
def _quiet():
    import logging
    import warnings
    prev = logging.root.manager.disable
    logging.disable(logging.CRITICAL)
    try:
        with warnings.catch_warnings():
            warnings.simplefilter("ignore")
            yield
    finally:
        logging.disable(prev)


class _Acc:
    def __init__(self):
        self.comparisons = 0
        self.disagreements = []
        self.nontrivial = set()
        self.samples = []
        self.dist = {}

    def cmp(self, label, request, model, impl, keep_sample=False):
        self.comparisons += 1
        if model != impl:
            if len(self.disagreements) < 50:
                self.disagreements.append({"label": label, "request": request, "model": model, "impl": impl})
        elif keep_sample and len(self.samples) < 6:
            self.samples.append({"label": label, "request": request, "result": impl})

    def count(self, key, n=1):
        self.dist[key] = self.dist.get(key, 0) + n

    def nt(self, key):
        self.nontrivial.add(key)


# ---------------------------------------------------------------------------------------------- case specs (pure JSON)
# A case is JSON: {"nodes": {id: node}, "root": id, "reg": [[key, id]…], "ctx": {…}, "required": b, "ru": b}
# node = {"name","type","format","enum","props","items": id?, "any_of": [id]?, "one_of": [id]?, "all_of": [id]?,
#         "gen","stem"}


class _Gen:
    def __init__(self, rng):
        self.rng = rng
        self.nodes = {}
        self.n = 0

    def new(self, **kw):
        node = {"name": None, "type": None, "format": None, "enum": None, "props": False, "items": None,
                "any_of": None, "one_of": None, "all_of": None, "gen": None, "stem": None}
        node.update(kw)
        self.n += 1
        k = str(self.n)
        self.nodes[k] = node
        return k

    def opt_name(self):
        r = self.rng.random()
        return None if r < 0.12 else "" if r < 0.18 else self.rng.choice(NAMES)

    def naming(self, p_named=0.5):
        """(name, gen, stem) of a possibly named schema"""
        rng = self.rng
        if rng.random() >= p_named:
            return {"name": self.opt_name() if rng.random() < 0.3 else None}
        name = self.opt_name() if rng.random() < 0.25 else rng.choice(NAMES)
        base = name or rng.choice(NAMES)
        r = rng.random()
        gen = None if r < 0.1 else "" if r < 0.15 else base if r < 0.8 else base + rng.choice(["_", "Model", "2"])
        r = rng.random()
        stem = None if r < 0.15 else "" if r < 0.2 else STEMS[base] if r < 0.9 else STEMS[rng.choice(NAMES)]
        return {"name": name, "gen": gen, "stem": stem}

    def node(self, depth):
        rng = self.rng
        kinds = ["prim", "prim", "model", "model", "senum", "benum", "array", "union", "union", "allof", "nameref", "typeref",
                 "null", "mix"]
        if depth >= 4:
            kinds = ["prim", "prim", "model", "model", "senum", "benum", "nameref", "typeref", "null", "array0"]
        kind = rng.choice(kinds)
        if kind == "prim":
            t = rng.choice(TYPES)
            return self.new(type=t, format=rng.choice(FORMATS) if rng.random() < 0.6 else None,
                            props=rng.random() < 0.15, **self.naming(0.2))
        if kind == "model":
            return self.new(type=rng.choice(["object", "object", "string", "integer", "array", None]),
                            props=rng.random() < 0.6, **self.naming(1.0))
        if kind == "senum":
            return self.new(type="string", enum=rng.choice(STR_ENUMS), format=rng.choice(FORMATS) if rng.random() < 0.3 else None,
                            **self.naming(0.6))
        if kind == "benum":
            return self.new(type="boolean", enum=rng.choice(BOOL_ENUMS), **self.naming(0.4))
        if kind == "array0":
            return self.new(type="array", **self.naming(0.2))
        if kind == "array":
            items = None if rng.random() < 0.15 else self.node(depth + 1)
            return self.new(type="array", items=items, **self.naming(0.25))
        if kind == "union":
            n = rng.choice([0, 1, 1, 2, 2, 3, 3, 4])
            ms = []
            for _ in range(n):
                if ms and rng.random() < 0.3:
                    ms.append(self.clone(rng.choice(ms)))      # a duplicate (a distinct object of the same shape)
                else:
                    ms.append(self.node(depth + 1))
            which = rng.choice(["any_of", "one_of"])
            kw = {which: ms}
            if rng.random() < 0.08:
                kw["one_of" if which == "any_of" else "any_of"] = [self.node(depth + 1)] if rng.random() < 0.5 else []
            if rng.random() < 0.08:
                kw["all_of"] = [self.node(depth + 1)] if rng.random() < 0.5 else []
            return self.new(type=rng.choice([None, None, "object", "string"]), **kw, **self.naming(0.25))
        if kind == "allof":
            n = rng.choice([0, 1, 2, 3])
            ms = []
            for _ in range(n):
                k = self.node(depth + 1)
                if rng.random() < 0.35:
                    self.nodes[k]["type"] = rng.choice([None, ""])
                ms.append(k)
            return self.new(type=rng.choice([None, "object"]), all_of=ms, **self.naming(0.25))
        if kind == "nameref":
            return self.new(name=rng.choice(NAMES), type=rng.choice([None, None, "object", "string", "array"]))
        if kind == "typeref":
            return self.new(type=rng.choice(NAMES), name=self.opt_name() if rng.random() < 0.3 else None)
        if kind == "null":
            return self.new()
        # mix: every field random
        kw = {"type": rng.choice(TYPES + NAMES[:2]), "format": rng.choice(FORMATS), "props": rng.random() < 0.3,
              "enum": rng.choice(BOOL_ENUMS + STR_ENUMS)}
        if rng.random() < 0.3:
            kw["items"] = self.node(depth + 1)
        for f in ("any_of", "one_of", "all_of"):
            if rng.random() < 0.15:
                kw[f] = [self.node(depth + 1) for _ in range(rng.choice([0, 1, 2]))]
        kw.update(self.naming(0.5))
        return self.new(**kw)

    def clone(self, k):
        src = self.nodes[k]
        kw = dict(src)
        if kw["items"] is not None:
            kw["items"] = self.clone(kw["items"])
        for f in ("any_of", "one_of", "all_of"):
            if kw[f] is not None:
                kw[f] = [self.clone(x) for x in kw[f]]
        return self.new(**kw)


def _gen_ctx(rng):
    r = rng.random()
    if r < 0.15:
        return {"rc": False}
    ctx = {"rc": True, "has_cur": rng.random() < 0.9, "has_add": rng.random() < 0.9}
    r = rng.random()
    if r < 0.4:
        ctx["cur"] = rng.choice(["/out/models/", "models/", "/p/q/models//", "/models/"]) + rng.choice(list(STEMS.values())) + ".py"
    else:
        ctx["cur"] = rng.choice(CUR_FILES) if r < 0.9 else None if r < 0.95 else 123
    r = rng.random()
    if r < 0.3:
        ctx["calc"] = None
    elif r < 0.55:
        ctx["calc"] = {"k": "prefix", "v": rng.choice(["REL.", "..", "."])}
    elif r < 0.7:
        ctx["calc"] = {"k": "const", "v": rng.choice(["MARK", "..models.x"])}
    elif r < 0.8:
        ctx["calc"] = {"k": "const", "v": None}
    elif r < 0.9:
        ctx["calc"] = {"k": "const", "v": ""}
    else:
        ctx["calc"] = {"k": "raises"}
    return ctx


def _gen_case(rng):
    g = _Gen(rng)
    root = g.node(0 if rng.random() < 0.8 else 3)
    tree_nodes = list(g.nodes)
    reg = []
    for key in rng.sample(NAMES, rng.choice([0, 1, 2, 3, 4, 6])):
        r = rng.random()
        named = [k for k in tree_nodes if g.nodes[k]["name"] == key]
        if named and r < 0.45:
            reg.append([key, rng.choice(named)])                    # the SAME object as a node of the tree
        elif r < 0.55:
            reg.append([key, rng.choice(tree_nodes)])               # some node of the tree under another key
        else:
            k = g.node(rng.choice([2, 3, 4]))                       # a separate object
            if rng.random() < 0.6:
                g.nodes[k]["name"] = key if rng.random() < 0.8 else rng.choice(NAMES)
            reg.append([key, k])
    return {"nodes": g.nodes, "root": root, "reg": reg, "ctx": _gen_ctx(rng),
            "required": rng.random() < 0.5, "ru": rng.random() < 0.35}


# ---------------------------------------------------------------------------------------------- building the real objects

def _build(case):
    """-> (root IRSchema, registry dict, {node id: IRSchema})"""
    from pyopenapi_gen import IRSchema
    objs = {}

    def mk(k):
        if k in objs:
            return objs[k]
        n = case["nodes"][k]
        o = IRSchema(
            name=n["name"], type=n["type"], format=n["format"],
            enum=list(n["enum"]) if n["enum"] is not None else None,
            properties={"p": IRSchema(type="string")} if n["props"] else {},
            items=mk(n["items"]) if n["items"] is not None else None,
            any_of=[mk(x) for x in n["any_of"]] if n["any_of"] is not None else None,
            one_of=[mk(x) for x in n["one_of"]] if n["one_of"] is not None else None,
            all_of=[mk(x) for x in n["all_of"]] if n["all_of"] is not None else None,
        )
        o.generation_name = n["gen"]
        o.final_module_stem = n["stem"]
        objs[k] = o
        return o

    root = mk(case["root"])
    reg = {key: mk(k) for key, k in case["reg"]}
    return root, reg, objs


class _Raises(Exception):
    pass


def _make_ctx(spec):
    """a recording TypeContext; returns (ctx, imports list)"""
    imports = []

    class Ctx:
        def add_import(self, module, name):
            imports.append([module, name])

        def add_conditional_import(self, condition, module, name):   # protocol completeness; the resolver never calls it
            imports.append([module, name])

    ctx = Ctx()
    if spec["rc"]:
        class RC:
            pass

        rc = RC()
        if spec["has_cur"]:
            rc.current_file = spec["cur"]
        if spec["has_add"]:
            rc.add_import = lambda *a, **k: None
        calc = spec["calc"]
        if calc is not None:
            if calc["k"] == "prefix":
                rc.calculate_relative_path_for_internal_module = lambda t, _p=calc["v"]: _p + t
            elif calc["k"] == "const":
                rc.calculate_relative_path_for_internal_module = lambda t, _v=calc["v"]: _v
            else:
                def boom(t):
                    raise _Raises(t)
                rc.calculate_relative_path_for_internal_module = boom
        ctx.render_context = rc
    return ctx, imports


def _ctx_for_model(spec):
    """(cur, rel) as the model sees the context"""
    if not spec["rc"]:
        return None, {"k": "absent"}
    cur = None
    if spec["has_cur"] and spec["has_add"] and isinstance(spec["cur"], str):
        cur = spec["cur"]
    calc = spec["calc"]
    rel = {"k": "absent"} if calc is None else calc
    return cur, rel


def _ir_json(o, uid_of, depth=0):
    """the model's view of one REAL IRSchema object (attributes read back after __post_init__)"""
    def lst(xs):
        return None if xs is None else [_ir_json(x, uid_of, depth + 1) for x in xs]
    enum = o.enum
    return {
        "uid": uid_of.setdefault(id(o), len(uid_of) + 1),
        "name": o.name, "gen": o.generation_name, "stem": o.final_module_stem, "ty": o.type, "format": o.format,
        "enum": bool(enum), "benum": [None if v is None else bool(v) for v in (enum or [])],
        "items": _ir_json(o.items, uid_of, depth + 1) if o.items is not None else None,
        "props": bool(o.properties),
        "anyOf": lst(o.any_of), "oneOf": lst(o.one_of), "allOf": lst(o.all_of),
    }


def _names_of(python_type: str):
    """names python's parser finds in the annotation text (None = not an expression)"""
    try:
        tree = ast.parse(python_type, mode="eval")
    except SyntaxError:
        return None
    return sorted({n.id for n in ast.walk(tree) if isinstance(n, ast.Name)})


def _run_real(case, tracing=False):
    """-> (result dict | None for RecursionError, trace of no-import leaves)"""
    from pyopenapi_gen.types.resolvers.reference_resolver import OpenAPIReferenceResolver
    from pyopenapi_gen.types.resolvers.schema_resolver import OpenAPISchemaResolver
    root, reg, _ = _build(case)
    ctx, imports = _make_ctx(case["ctx"])
    trace = []
    cls = OpenAPISchemaResolver
    if tracing:
        class Traced(OpenAPISchemaResolver):
            def _resolve_named_schema(self, schema, context, required):
                r = super()._resolve_named_schema(schema, context, required)
                if not r.needs_import and not r.is_forward_ref:
                    trace.append(("named", r.python_type))
                return r

            def _resolve_string(self, schema, context, required):
                before = len(imports)
                r = super()._resolve_string(schema, context, required)
                if len(imports) == before and r.python_type not in BUILTINS:
                    trace.append(("string", r.python_type))
                return r
        cls = Traced
    resolver = cls(OpenAPIReferenceResolver(reg))
    try:
        r = resolver.resolve_schema(root, ctx, case["required"], case["ru"])
    except RecursionError:
        return None, trace
    names = _names_of(r.python_type)
    return {
        "python_type": r.python_type, "is_optional": r.is_optional, "is_forward_ref": r.is_forward_ref,
        "needs_import": r.needs_import, "import_module": r.import_module, "import_name": r.import_name,
        "imports": imports, "names": [] if r.is_forward_ref else names,
    }, trace


def _model_request(case):
    root, reg, _ = _build(case)
    uid_of = {}
    s = _ir_json(root, uid_of)
    regj = [[k, _ir_json(v, uid_of)] for k, v in reg.items()]
    cur, rel = _ctx_for_model(case["ctx"])
    return ("resolve", regj, cur, rel, FUEL, s, case["required"], case["ru"], []), ("resolveBranch", regj, s, case["ru"])


# ---------------------------------------------------------------------------------------------- parts

def _part_paths(acc, rng, scale, driver):
    n = max(50, int(3000 * scale))
    pieces = ["", "a", "models", "pet.py", "pet", ".py", "x", "owner.py"]
    paths = list(CUR_FILES)
    for _ in range(n):
        k = rng.randint(0, 5)
        p = "/".join(rng.choice(pieces) for _ in range(k + 1))
        if rng.random() < 0.2:
            p = "/" + p
        paths.append(p)
    reqs = []
    for p in paths:
        reqs.append(("resPathBasename", p))
        reqs.append(("resPathDirname", p))
        stem = rng.choice(["pet", "owner", "x", ""])
        reqs.append(("resSelfImport", p, stem))
    res = _drive(driver, reqs)
    for q, m in zip(reqs, res):
        if q[0] == "resPathBasename":
            impl = os.path.basename(q[1])
        elif q[0] == "resPathDirname":
            impl = os.path.dirname(q[1])
        else:
            p, stem = q[1], q[2]
            impl = bool(p) and os.path.basename(p) == f"{stem}.py" and os.path.basename(os.path.dirname(p)) == "models"
            acc.count("paths.self_import" if impl else "paths.not_self")
        acc.cmp(q[0], list(q[1:]), m, impl, keep_sample=(q[0] == "resPathDirname" and "//" in q[1] and len(acc.samples) < 2))
        if "/" in q[1]:
            acc.nt(("path", q[0], q[1], q[2] if len(q) > 2 else ""))
    # import_module selection
    rels = [{"k": "absent"}, {"k": "raises"}, {"k": "const", "v": None}, {"k": "const", "v": ""}, {"k": "const", "v": "MARK"},
            {"k": "prefix", "v": "REL."}, {"k": "prefix", "v": ""}]
    reqs = [("resImportModule", r, st) for r in rels for st in ["pet", "owner", "a.b", ""]]
    res = _drive(driver, reqs)
    for q, m in zip(reqs, res):
        r, st = q[1], q[2]
        impl = f"..models.{st}"
        if r["k"] == "const" and r["v"]:
            impl = r["v"]
        elif r["k"] == "prefix" and (r["v"] + f"models.{st}"):
            impl = r["v"] + f"models.{st}"
        acc.cmp("resImportModule", [r, st], m, impl)


def _part_resolve(acc, rng, scale, driver):
    n = max(40, int(30000 * scale))
    cases = [_gen_case(rng) for _ in range(n)]
    reqs = []
    impls = []
    with _quiet():
        for c in cases:
            impl, _ = _run_real(c)
            impls.append(impl)
            a, b = _model_request(c)
            reqs.append(a)
            reqs.append(b)
    res = []
    B = 4000
    for i in range(0, len(reqs), B):
        res.extend(_drive(driver, reqs[i:i + B]))
    for i, (c, impl) in enumerate(zip(cases, impls)):
        model, branch = res[2 * i], res[2 * i + 1]
        hazard_free = cover_ok = None
        if model is not None:
            model = dict(model)
            model["names"] = sorted(set(model["names"]))
            hazard_free = model.pop("hazard_free")
            cover_ok = model.pop("cover_ok")
        interesting = impl is not None and (impl["is_forward_ref"] or "Union[" in impl["python_type"] or impl["needs_import"])
        acc.cmp("resolve", c, model, impl, keep_sample=interesting and i % 7 == 0)
        acc.count("branch." + branch)
        if impl is not None and model is not None:
            # property 1 evaluated on the REAL result vs the model's check, and the hypothesis of the partial theorem
            imported = {n for _, n in impl["imports"]}
            real_cover = all(n in BUILTINS or n in imported for n in impl["names"])
            acc.cmp("coverOK", c, cover_ok, real_cover)
            acc.cmp("hazardFree=>covered", c, (not hazard_free) or real_cover, True)
            acc.count("cover.hazard_free" if hazard_free else "cover.hazard")
            acc.count("cover.holds" if real_cover else "cover.violated")
        if impl is None:
            acc.count("outcome.recursion_error")
        else:
            acc.count("outcome.forward_ref" if impl["is_forward_ref"] else "outcome.needs_import" if impl["needs_import"]
                      else "outcome.plain")
            if "Union[" in impl["python_type"]:
                acc.count("outcome.has_union")
            if '"' in impl["python_type"]:
                acc.count("outcome.has_quoted_member")
            if "Literal[" in impl["python_type"]:
                acc.count("outcome.has_literal")
            acc.count("imports.%d" % min(len(impl["imports"]), 6))
        ctx = c["ctx"]
        acc.count("ctx." + ("no_render_context" if not ctx["rc"] else "render_context"))
        if c["ru"]:
            acc.count("resolve_underlying")
        nontrivial = impl is None or branch in ("goto", "array", "array:ru", "union", "union1", "leaf:named") or (
            branch in ("leaf:string", "leaf:boolean") and (impl["python_type"] not in ("str", "bool")))
        if nontrivial:
            acc.nt(("resolve", json.dumps(c, sort_keys=True)))


# ---------------------------------------------------------------------------------------------- API

def run(seed: int = 0, scale: float = 1.0, driver: str = DEFAULT_DRIVER) -> dict:
    rng = random.Random(seed)
    acc = _Acc()
    _part_paths(acc, rng, scale, driver)
    _part_resolve(acc, rng, scale, driver)
    kinds = {}
    for k in acc.nontrivial:
        kinds[k[0]] = kinds.get(k[0], 0) + 1
    acc.dist["nontrivial_by_part"] = kinds
    return {"comparisons": acc.comparisons, "disagreements": acc.disagreements, "nontrivial": len(acc.nontrivial),
            "rule": RULE, "samples": acc.samples[:6], "distribution": acc.dist}


def _violations(case):
    """-> list of (class id, observed, expected) for one case on the real resolver"""
    with _quiet():
        r, trace = _run_real(case, tracing=True)
    if r is None:
        return []
    out = []
    imported = {n for _, n in r["imports"]}
    names = r["names"]
    if names is not None:
        missing = [n for n in names if n not in BUILTINS and n not in imported]
        if missing:
            kinds = {k for k, t in trace if t in missing}
            cls = CLASS_NAMED if "named" in kinds else CLASS_ENUM if "string" in kinds else CLASS_OTHER
            out.append((cls, {"python_type": r["python_type"], "imports": r["imports"], "missing": missing},
                        "every unquoted name of python_type is a builtin or was passed to context.add_import"))
    if r["is_optional"] != (not case["required"]):
        out.append((CLASS_OPTIONAL, {"is_optional": r["is_optional"], "required": case["required"]}, "is_optional == not required"))
    if r["is_forward_ref"] or '"' in r["python_type"]:
        cur, _ = _ctx_for_model(case["ctx"])
        ok = bool(cur) and cur.endswith(".py") and os.path.basename(os.path.dirname(cur)) == "models"
        if not ok:
            out.append((CLASS_FWD, {"python_type": r["python_type"], "current_file": cur},
                        "forward references only when current_file is models/<stem>.py"))
    if names is not None:
        tree = ast.parse(r["python_type"], mode="eval")
        for node in ast.walk(tree):
            if isinstance(node, ast.Subscript) and isinstance(node.value, ast.Name) and node.value.id == "Union":
                elts = node.slice.elts if isinstance(node.slice, ast.Tuple) else [node.slice]
                texts = [ast.unparse(e) for e in elts]
                if len(set(texts)) != len(texts):
                    out.append((CLASS_UNION, {"python_type": r["python_type"]}, "Union members pairwise distinct"))
    return out


def oracle(seed: int = 0, scale: float = 1.0) -> dict:
    rng = random.Random(seed * 7919 + 13)
    n = max(40, int(30000 * scale))
    failures = []
    per_class = {}
    evaluations = 0
    for _ in range(n):
        case = _gen_case(rng)
        evaluations += 1
        for cls, observed, expected in _violations(case):
            per_class[cls] = per_class.get(cls, 0) + 1
            if per_class[cls] <= 8:
                failures.append({"class": cls, "case": {"class": cls, "spec": case}, "observed": observed, "expected": expected})
    return {"evaluations": evaluations, "failures": failures, "failures_per_class": per_class}


def replay(case) -> bool:
    """re-run one oracle case; True iff it still violates the property (same defect class)"""
    return any(cls == case["class"] for cls, _, _ in _violations(case["spec"]))


if __name__ == "__main__":
    drv = sys.argv[1] if len(sys.argv) > 1 else os.path.join(os.path.dirname(os.path.abspath(__file__)), ".lake/build/bin/driver")
    import time
    t0 = time.time()
    out = run(0, 1.0, drv)
    for d in out["disagreements"][:10]:
        print(json.dumps(d, ensure_ascii=False)[:1500])
    print(json.dumps(out["distribution"], indent=1, sort_keys=True))
    print(f"{out['comparisons']} comparisons, {out['nontrivial']} non-trivial, {len(out['disagreements'])} disagreements, "
          f"{time.time() - t0:.1f}s")
    t0 = time.time()
    orc = oracle(0, 1.0)
    print(f"oracle: {orc['evaluations']} evaluations, failures per class {orc['failures_per_class']}, "
          f"replay ok {all(replay(f['case']) for f in orc['failures'])}, {time.time() - t0:.1f}s")
