"""C16 — bundled converter obeys round-trip laws for any mapped dataclass."""
from __future__ import annotations

from .. import findings
from . import _generic as g

PROP = "C16"
CORR = "vf.corr.conv"
CLASSES = {"union-firstmatch-lossy": "-", "union-prim-coercion": "-",
           # classes of the shared converter oracle that belong to C16 / C03
           # (leaf-uuid-unsupported / leaf-time-unsupported - F10, repaired - are not listed: a UUID / time value that does not decode
           #  or is left in the serializer's output is a violation here as well)
           # (serializer-cycle-recursion - F26, repaired - is not listed either: a cyclic graph that ends in RecursionError is a violation;
           #  nor are serializer-dict-leaks-instance / serializer-registry-dependent - F48, repaired)
           "error-path-lost-through-optional": "F49"}


class _Scoped:
    """The converter oracle evaluates C03/C14/C16 together; classes that belong to another property are ignored here."""

    def __init__(self, known, mine):
        self.known, self.mine = known, mine

    def listed(self, fid):
        return fid == "-" or self.known.listed(fid)

    def hit(self, fid, case, what=""):
        return True if fid == "-" else self.known.hit(fid, case, what)


def check(run, ctx) -> None:
    known = findings.Known(run, PROP)
    g.run_corr(run, ctx, CORR, "Conv (structure/unstructure/_structure_union/serializer vs the real converter)", quick=1.0, thorough=8.0)
    g.replay_witnesses(run, known, {"F49": CORR})
    g.run_oracle(run, ctx, _Scoped(known, CLASSES), CORR, "converter laws on the real converter (random dataclass type trees, unions, payloads)", CLASSES, quick=1.0, thorough=8.0)
    known.report_unreplayed()


def search(run, ctx) -> None:
    check(run, ctx)


def replay(run, ctx, rec) -> bool:
    return g.replay_generic(rec)
