import Pog.Lemmas.Conv
import Pog.Lemmas.ConvRound
/-
  C14 — oneOf / anyOf unions are decoded to the variant the payload belongs to.

  FULL STATEMENT: when a field, list item or response is a oneOf/anyOf union, decoding a payload that
  conforms to one variant yields a value that re-encodes to the same payload: no key of the payload is
  silently discarded by matching a different variant.  With a discriminator, the variant is exactly the
  one the discriminator value maps to, an unmapped value is an error rather than a guess, and a payload
  of a mapped variant that fails to decode is reported, not retried as another variant.

  What is proved about the model `Pog.Model.Conv` (= `_structure_union` of core/cattrs_converter.py; tied to
  the code by corr_conv.py).  `✗` marks parts of the full statement that are FALSE of the current code.

    discriminated_exact               : mapped value ⇒ the result is what the mapped class yields, an instance of it (full)
    discriminated_unmapped_is_error   : non-empty mapping, value not a key ⇒ error, never a guess                  (full)
    discriminated_failure_not_retried : mapped class rejects ⇒ `Failed to deserialize as …`, other variants untried (full)
    no_mapping_falls_through          : `get_mapping()` None/empty, or property absent ⇒ metadata ignored          (full)
    firstmatch_lossless               : the decoded variant re-encodes to the payload                                 ✗
        — `Union[V1{a}, V2{a,b}]`: `{a,b}` ↦ `V1(a)`, `b` is dropped;  `Union[str, int]`: `5` ↦ `"5"`   (counterexamples)
    discriminated_independent_of_members : usable mapping + property present ⇒ the member LIST is irrelevant (any order, any set)  (full)
    union_result_is_one_members       : an ok result is None / ONE listed member's / the mapped class's / the dict itself (full)
    union_of_classes_yields_listed_class : union of classes, dict payload ⇒ instance of a listed class, from its own hook   (full)
        — holds when every dataclass variant listed BEFORE the payload's own variant rejects it          (partial;
          `firstmatch_roundtrip_partial` composes it with C16 `decode_encode`)
-/
namespace Pog.C14
open Pog

/-! ## with a discriminator -/

/-- The payload carries the discriminator property with a mapped value `s ↦ variant`: whatever the
    union's members and their order, the result is exactly that of structuring the payload as `variant`,
    and it is an instance of `variant`. -/
theorem discriminated_exact (c : Codecs) (n : Nat) (decls : Decls) (args : List Ty) (d : Disc)
    (kvs : List (Str × JsonV)) (m : List (Str × Str)) (s variant : Str) (v : Val)
    (hm : d.mapping = some m) (hp : aget kvs d.prop = some (.str s)) (hv : aget m s = some variant)
    (hok : structF c n decls (.dc variant) (.obj kvs) = .ok v) :
    structF c (n + 1) decls (.union args (some d)) (.obj kvs) = .ok v ∧ ∃ fs, v = .inst variant fs := by
  refine ⟨?_, structF_dc_ok_inst c n decls variant _ v hok⟩
  rw [structF_union, structUnion_disc_mapped _ args d kvs m s variant hm hp hv, hok]

/-- The mapping is non-empty and the discriminator value is not one of its keys (a string that is not
    mapped, or `null`, a number, a boolean, a list, an object): an error, for every list of members —
    no variant is guessed. -/
theorem discriminated_unmapped_is_error (c : Codecs) (n : Nat) (decls : Decls) (args : List Ty) (d : Disc)
    (kvs : List (Str × JsonV)) (m : List (Str × Str)) (dv : JsonV)
    (hm : d.mapping = some m) (hne : m ≠ []) (hp : aget kvs d.prop = some dv)
    (hun : ∀ s, dv = .str s → aget m s = none) :
    ∃ k, structF c (n + 1) decls (.union args (some d)) (.obj kvs) = .error (.leaf k)
      ∧ (k = .discUnknown ∨ k = .unhashable) := by
  rw [structF_union, structUnion_disc_unmapped _ args d kvs m dv hm hne hp hun]
  cases dv <;> exact ⟨_, rfl, by simp⟩

/-- The mapped class rejects the payload: the error is `Failed to deserialize as <variant> …` whatever
    the other members would have done with it. -/
theorem discriminated_failure_not_retried (c : Codecs) (n : Nat) (decls : Decls) (args : List Ty) (d : Disc)
    (kvs : List (Str × JsonV)) (m : List (Str × Str)) (s variant : Str) (e : SErr)
    (hm : d.mapping = some m) (hp : aget kvs d.prop = some (.str s)) (hv : aget m s = some variant)
    (hfail : structF c n decls (.dc variant) (.obj kvs) = .error e) :
    structF c (n + 1) decls (.union args (some d)) (.obj kvs) = .error (.leaf (.discFailed variant)) := by
  rw [structF_union, structUnion_disc_mapped _ args d kvs m s variant hm hp hv, hfail]

/-- `get_mapping()` returns `None` or `{}`, or the payload lacks the property (or is not a dict): the
    union is decoded exactly as if it had no discriminator (sequential first match, see below). -/
theorem no_mapping_falls_through (c : Codecs) (n : Nat) (decls : Decls) (args : List Ty) (d : Disc) (j : JsonV)
    (h : d.mapping = none ∨ d.mapping = some [] ∨ (∀ kvs, j = .obj kvs → aget kvs d.prop = none)) :
    structF c (n + 1) decls (.union args (some d)) j = structF c (n + 1) decls (.union args none) j := by
  rw [structF_union, structF_union, structUnion_disc_ignored _ args d j h]

/-! ### witnesses -/

def V1 : ClassDecl := { fields := [⟨"a".toList, .leaf .int, .required⟩], loadMap := none, dumpMap := none }
def V2 : ClassDecl :=
  { fields := [⟨"a".toList, .leaf .int, .required⟩, ⟨"b".toList, .leaf .int, .required⟩], loadMap := none, dumpMap := none }
def V3 : ClassDecl :=
  { fields := [⟨"kind".toList, .leaf .str, .required⟩, ⟨"c".toList, .leaf .int, .none⟩], loadMap := none, dumpMap := none }
def decls : Decls := [("V1".toList, V1), ("V2".toList, V2), ("V3".toList, V3)]
def disc : Disc :=
  { prop := "kind".toList, mapping := some [("one".toList, "V1".toList), ("two".toList, "V2".toList), ("three".toList, "V3".toList)] }
def members : List Ty := [.dc "V1".toList, .dc "V2".toList, .dc "V3".toList]

/-- `{"kind": "two", "a": 1, "b": 2}` — `V1` comes first and would accept it, the mapping says `V2`. -/
example : structF Codecs.exec 4 decls (.union members (some disc))
    (.obj [("kind".toList, .str "two".toList), ("a".toList, .int 1), ("b".toList, .int 2)])
      = .ok (.inst "V2".toList [("a".toList, .int 1), ("b".toList, .int 2)]) := by decide

/-- `{"kind": "zzz", "a": 1}` — `V1` would accept it; it is an error. -/
example : structF Codecs.exec 4 decls (.union members (some disc))
    (.obj [("kind".toList, .str "zzz".toList), ("a".toList, .int 1)]) = .error (.leaf .discUnknown) := by decide

/-- `{"kind": "two", "a": 1}` — not a `V2` (no `b`); `V1` would accept it; the failure is reported. -/
example : structF Codecs.exec 4 decls (.union members (some disc))
    (.obj [("kind".toList, .str "two".toList), ("a".toList, .int 1)])
      = .error (.leaf (.discFailed "V2".toList)) := by decide

/-- … and without the mapping the same payload is taken for a `V1`. -/
example : structF Codecs.exec 4 decls (.union members (some { disc with mapping := none }))
    (.obj [("kind".toList, .str "two".toList), ("a".toList, .int 1)])
      = .ok (.inst "V1".toList [("a".toList, .int 1)]) := by decide

/-- With a usable mapping and the discriminator property present in the payload, the LIST of members plays no part at all:
    any two unions carrying the same discriminator metadata decode the payload identically - reordering, adding or removing
    members (even the mapped class itself) cannot change the variant, turn an error into a guess or a guess into an error. -/
theorem discriminated_independent_of_members (c : Codecs) (n : Nat) (decls : Decls) (args args' : List Ty) (d : Disc)
    (kvs : List (Str × JsonV)) (m : List (Str × Str)) (dv : JsonV)
    (hm : d.mapping = some m) (hne : m ≠ []) (hp : aget kvs d.prop = some dv) :
    structF c (n + 1) decls (.union args (some d)) (.obj kvs) = structF c (n + 1) decls (.union args' (some d)) (.obj kvs) := by
  rw [structF_union, structF_union]
  by_cases hmapped : ∃ s variant, dv = .str s ∧ aget m s = some variant
  · obtain ⟨s, variant, rfl, hv⟩ := hmapped
    rw [structUnion_disc_mapped _ args d kvs m s variant hm hp hv, structUnion_disc_mapped _ args' d kvs m s variant hm hp hv]
  · have hun : ∀ s, dv = .str s → aget m s = none := by
      intro s hs
      cases h : aget m s with
      | none => rfl
      | some variant => exact absurd ⟨s, variant, hs, h⟩ hmapped
    rw [structUnion_disc_unmapped _ args d kvs m dv hm hne hp hun, structUnion_disc_unmapped _ args' d kvs m dv hm hne hp hun]

/-- Non-vacuity and contrast: the same payload, members reversed - with the mapping both orders give `V2`; without it the
    order decides (`V1` first: `V1`; reversed: `V3` rejects, `V2` accepts). -/
example : structF Codecs.exec 4 decls (.union members.reverse (some disc))
      (.obj [("kind".toList, .str "two".toList), ("a".toList, .int 1), ("b".toList, .int 2)])
    = .ok (.inst "V2".toList [("a".toList, .int 1), ("b".toList, .int 2)])
  ∧ structF Codecs.exec 4 decls (.union members none) (.obj [("a".toList, .int 1), ("b".toList, .int 2)])
    ≠ structF Codecs.exec 4 decls (.union members.reverse none) (.obj [("a".toList, .int 1), ("b".toList, .int 2)]) := by
  decide

/-! ## every successful union decode is ONE member's decode of the whole payload -/

/-- Whatever the members, their order and the discriminator metadata: when decoding a payload as a union succeeds, the
    value is (a) `None`, for a `null` payload of a union that lists `NoneType`; (b) exactly what ONE listed member yields
    for the whole payload; (c) exactly what the class the discriminator value maps to yields for the whole payload; or
    (d) the payload itself, when `dict[str, Any]` is a member.  The union never assembles a value from several members,
    never decodes a part of the payload, and never returns a class that neither is listed nor is mapped. -/
theorem union_result_is_one_members (c : Codecs) (n : Nat) (decls : Decls) (args : List Ty) (disc : Option Disc)
    (j : JsonV) (v : Val) (h : structF c (n + 1) decls (.union args disc) j = .ok v) :
    (j = .null ∧ v = .none ∧ args.any isNoneTy = true)
    ∨ (∃ t ∈ args, structF c n decls t j = .ok v)
    ∨ (∃ d m s variant kvs, disc = some d ∧ j = .obj kvs ∧ d.mapping = some m ∧ aget kvs d.prop = some (.str s)
          ∧ aget m s = some variant ∧ structF c n decls (.dc variant) j = .ok v)
    ∨ (args.any isDictAny = true ∧ isObj j = true ∧ v = Val.ofJson j) := by
  rw [structF_union] at h
  exact structUnion_ok_cases _ args disc j v h

/-- … hence a dict payload decoded by a union of dataclasses only (no discriminator) is an instance of a LISTED class,
    obtained from that class's own structure hook. -/
theorem union_of_classes_yields_listed_class (c : Codecs) (n : Nat) (decls : Decls) (args : List Ty)
    (kvs : List (Str × JsonV)) (v : Val) (hall : ∀ t ∈ args, isDcTy t = true)
    (h : structF c (n + 1) decls (.union args none) (.obj kvs) = .ok v) :
    ∃ name fs, Ty.dc name ∈ args ∧ v = .inst name fs ∧ structF c n decls (.dc name) (.obj kvs) = .ok v := by
  rcases union_result_is_one_members c n decls args none _ v h with h1 | ⟨t, ht, hr⟩ | ⟨d, _, _, _, _, hd, _⟩ | ⟨hany, _, _⟩
  · cases h1.1
  · have := hall t ht
    cases t <;> simp [isDcTy] at this
    rename_i name
    obtain ⟨fs, rfl⟩ := structF_dc_ok_inst c n decls name _ v hr
    exact ⟨name, fs, ht, rfl, hr⟩
  · cases hd
  · obtain ⟨t, ht, hta⟩ := List.any_eq_true.mp hany
    have := hall t ht
    cases t <;> simp [isDcTy, isDictAny] at this hta

/-- Non-vacuity: `{"a": 1, "b": 2}` against `Union[V1, V2, V3]` succeeds (as a `V1`, case (b)). -/
example : structF Codecs.exec 4 decls (.union members none) (.obj [("a".toList, .int 1), ("b".toList, .int 2)])
    = .ok (.inst "V1".toList [("a".toList, .int 1)]) := by decide

/-! ## without a discriminator: sequential first match

  ✗ FULL STATEMENT (false): for a payload `j` that conforms to member `t` of `Union[args]`,
      structF … (.union args none) j = .ok v  →  unstructuring `v` gives back `j`. -/

/-- Dict payload: if every dataclass member listed before `t` rejects the payload and `t` accepts it with
    `v`, the union yields `v` — so whatever holds for decoding `j` as `t` alone (C16 `decode_encode`: it
    re-encodes to `j`) holds for the union. -/
theorem firstmatch_lossless_partial (c : Codecs) (n : Nat) (decls : Decls) (args pre post : List Ty) (t : Ty)
    (kvs : List (Str × JsonV)) (v : Val)
    (hsplit : args.filter isDcTy = pre ++ t :: post)
    (hpre : ∀ u ∈ pre, ∃ e, structF c n decls u (.obj kvs) = .error e)
    (h : structF c n decls t (.obj kvs) = .ok v) :
    structF c (n + 1) decls (.union args none) (.obj kvs) = .ok v := by
  rw [structF_union]
  exact structUnion_obj_first_dc _ args kvs pre post t v hsplit hpre h

/-- … spelled out with C16 `decode_encode`: a document that conforms to the dataclass member `name` and is rejected by
    every dataclass member listed before it comes back from the union as itself (absent defaulted properties filled
    in): no key is lost, the union's runtime-class re-encoding picks `name`'s own hook. -/
theorem firstmatch_roundtrip_partial (c : Codecs) (n : Nat) (reg : List Str) (decls : Decls) (args pre post : List Ty)
    (name : Str) (kvs : List (Str × JsonV))
    (hwf : declsOk decls = true) (hreg : allRegistered reg decls = true)
    (hsplit : args.filter isDcTy = pre ++ .dc name :: post)
    (hpre : ∀ u ∈ pre, ∃ e, structF c n decls u (.obj kvs) = .error e)
    (hconf : conformsF c n decls (.dc name) (.obj kvs) = true) :
    ∃ v, structF c (n + 1) decls (.union args none) (.obj kvs) = .ok v
      ∧ unstrF c (n + 2) reg decls (some (.union args none)) v = .ok (normaliseF n decls (.dc name) (.obj kvs)) := by
  obtain ⟨v, h1, h2, _⟩ := roundtrip_core c reg decls hwf hreg n (.dc name) (.obj kvs) hconf
  obtain ⟨fs, rfl⟩ := structF_dc_ok_inst c n decls name _ v h1
  refine ⟨_, firstmatch_lossless_partial c n decls args pre post (.dc name) kvs _ hsplit hpre h1, ?_⟩
  simp only [unstrF, h2]

/-- Scalar / list payload: the same for the non-dataclass members. -/
theorem firstmatch_scalar_partial (c : Codecs) (n : Nat) (decls : Decls) (args pre post : List Ty) (t : Ty)
    (j : JsonV) (v : Val) (hj : isObj j = false) (hnull : j ≠ .null)
    (hsplit : args.filter isOtherVariant = pre ++ t :: post)
    (hpre : ∀ u ∈ pre, ∃ e, structF c n decls u j = .error e)
    (h : structF c n decls t j = .ok v) :
    structF c (n + 1) decls (.union args none) j = .ok v := by
  rw [structF_union]
  exact structUnion_scalar_first_other _ args j pre post t v hj hnull hsplit hpre h

/-- The hypotheses are satisfiable non-trivially: `{"a": 1, "b": 2}` against `Union[V3, V2, V1]` — `V3`
    rejects (no `kind`), `V2` accepts. -/
example : ([.dc "V3".toList, .dc "V2".toList, .dc "V1".toList] : List Ty).filter isDcTy
      = [.dc "V3".toList] ++ .dc "V2".toList :: [.dc "V1".toList]
    ∧ (∃ e, structF Codecs.exec 3 decls (.dc "V3".toList) (.obj [("a".toList, .int 1), ("b".toList, .int 2)]) = .error e)
    ∧ structF Codecs.exec 3 decls (.dc "V2".toList) (.obj [("a".toList, .int 1), ("b".toList, .int 2)])
        = .ok (.inst "V2".toList [("a".toList, .int 1), ("b".toList, .int 2)]) := by
  refine ⟨rfl, ⟨_, rfl⟩, by decide⟩

/-- ✗ witness 1: `Union[V1, V2]` with `V1 = {a}`, `V2 = {a, b}`.  The payload `{"a": 1, "b": 2}` is a `V2`;
    it is decoded as `V1(a=1)` (unknown keys are ignored, first success wins) and re-encodes to
    `{"a": 1}` — `b` is gone. -/
theorem firstmatch_lossless_counterexample :
    structF Codecs.exec 4 decls (.union [.dc "V1".toList, .dc "V2".toList] none)
        (.obj [("a".toList, .int 1), ("b".toList, .int 2)])
      = .ok (.inst "V1".toList [("a".toList, .int 1)])
    ∧ roundtrip Codecs.exec 4 [] decls (.union [.dc "V1".toList, .dc "V2".toList] none)
        (.obj [("a".toList, .int 1), ("b".toList, .int 2)])
      = .ok (.ok (.obj [("a".toList, .int 1)])) := by
  decide

/-- … while the same payload against `Union[V2, V1]` survives: the outcome depends on the member order. -/
theorem firstmatch_order_dependent :
    roundtrip Codecs.exec 4 [] decls (.union [.dc "V2".toList, .dc "V1".toList] none)
        (.obj [("a".toList, .int 1), ("b".toList, .int 2)])
      = .ok (.ok (.obj [("a".toList, .int 1), ("b".toList, .int 2)])) := by
  decide

/-- ✗ witness 2: `Union[str, int]`: the integer `5` is decoded by CALLING `str` — it becomes the string
    `"5"` and is sent back as a string.  (`Union[int, str]` turns the string `"7"` into the number 7.) -/
theorem firstmatch_prim_coercion_counterexample :
    roundtrip Codecs.exec 4 [] [] (.union [.leaf .str, .leaf .int] none) (.int 5) = .ok (.ok (.str "5".toList))
    ∧ roundtrip Codecs.exec 4 [] [] (.union [.leaf .int, .leaf .str] none) (.str "7".toList) = .ok (.ok (.int 7)) := by
  decide

/-- The first counterexample is outside the hypothesis of `firstmatch_lossless_partial` for `t = V2`:
    the earlier member `V1` does not reject the payload. -/
example : ¬ ∃ e, structF Codecs.exec 3 decls (.dc "V1".toList) (.obj [("a".toList, .int 1), ("b".toList, .int 2)])
    = .error e := by
  intro ⟨e, h⟩
  have hv : structF Codecs.exec 3 decls (.dc "V1".toList) (.obj [("a".toList, .int 1), ("b".toList, .int 2)])
      = .ok (.inst "V1".toList [("a".toList, .int 1)]) := by decide
  rw [hv] at h
  cases h

end Pog.C14
