#!/bin/sh
# usage: tools/run_seeded.sh [ids...]  — runs each seeded change against the check of the property it breaks (serially)
HERE=$(cd "$(dirname "$0")/.." && pwd)
cd "$HERE"
IDS="$@"; [ -z "$IDS" ] && IDS=$(ls seeded)
for ID in $IDS; do
  P=$(python3 -c "import json;print(json.load(open('seeded/$ID/meta.json'))['breaks_property'])")
  echo "#### $ID ($P)"
  if python3 -c "import json,sys;sys.exit(0 if json.load(open('seeded/$ID/meta.json')).get('obsolete') else 1)"; then echo "== $P obsolete (the site / mechanism was removed by a later fix: commit; see meta.json)"; continue; fi
  tools/try_mutant.sh "$HERE/seeded/$ID/patch.diff" $P 2>&1 | cut -c1-330
done
