import Std.Data.String.ToNat
import Pog.Model.Fresh
import Pog.Lemmas.Names
import Pog.Lemmas.SanIdem
/-
  Lemmas about the "suffix until unused" loops of `Pog.Model.Fresh` used by `Pog.Props.C20`.
-/
namespace Pog

/-! ### Decimal rendering -/

theorem natStr_inj {i j : Nat} (h : natStr i = natStr j) : i = j :=
  Nat.repr_injective (String.toList_injective h)

theorem natStr_eq (k : Nat) : natStr k = Nat.toDigits 10 k := by
  simp [natStr, Nat.repr]

theorem natStr_ne_nil (k : Nat) : natStr k ≠ [] := by
  rw [natStr_eq]; exact Nat.toDigits_ne_nil

theorem natStr_digits (k : Nat) : ∀ c ∈ natStr k, isDigitA c = true := by
  intro c hc
  rw [natStr_eq] at hc
  have := Nat.isDigit_of_mem_toDigits (by decide) (by decide) hc
  rw [isDigit_iff] at this
  rw [isDigitA_iff]; exact this

/-! ### Injectivity of the candidate generators -/

theorem sufUnderscore_inj (base : Str) (i j : Nat)
    (h : sufUnderscore base i = sufUnderscore base j) : i = j := by
  unfold sufUnderscore at h
  have := List.append_cancel_left h
  exact natStr_inj (List.cons.inj this).2

theorem sufPlain_inj (base : Str) (i j : Nat) (h : sufPlain base i = sufPlain base j) : i = j := by
  unfold sufPlain at h
  exact natStr_inj (List.append_cancel_left h)

theorem classCand_inj (base : Str) (i j : Nat) (h : classCand base i = classCand base j) : i = j := by
  unfold classCand at h
  split at h <;> exact natStr_inj (List.append_cancel_left h)

/-! ### The fuelled search always succeeds (pigeonhole) -/

theorem findFresh_spec (mk : Nat → Str) (hinj : ∀ i j, mk i = mk j → i = j) (seen : List Str) :
    ∀ (fuel k : Nat) (ghost : List Str), (∀ j, k ≤ j → (mk j ∈ seen ↔ mk j ∈ ghost)) →
      ghost.length < fuel → ∃ k', findFresh mk seen k fuel = some k' ∧ mk k' ∉ seen := by
  intro fuel
  induction fuel with
  | zero => intro k ghost _ h; exact absurd h (Nat.not_lt_zero _)
  | succ fuel ih =>
    intro k ghost hg hlen
    unfold findFresh
    split
    · rename_i hmem
      have hmem : mk k ∈ seen := List.contains_iff_mem.1 hmem
      have hmemg : mk k ∈ ghost := (hg k (Nat.le_refl _)).1 hmem
      apply ih (k + 1) (ghost.filter (fun x => x != mk k))
      · intro j hj
        rw [hg j (by omega), List.mem_filter]
        constructor
        · intro h
          refine ⟨h, ?_⟩
          simp only [bne_iff_ne, ne_eq]
          intro heq
          have := hinj _ _ heq
          omega
        · exact fun h => h.1
      · have : (ghost.filter (fun x => x != mk k)).length < ghost.length := by
          rw [List.length_filter_lt_length_iff_exists]
          exact ⟨mk k, hmemg, by simp⟩
        omega
    · rename_i hmem
      exact ⟨k, rfl, fun h => hmem (List.contains_iff_mem.2 h)⟩

theorem freshName_spec (mk : Nat → Str) (start : Nat) (seen : List Str) (base : Str)
    (hinj : ∀ i j, mk i = mk j → i = j) :
    ∃ n, freshName mk start seen base = some n ∧ n ∉ seen := by
  unfold freshName
  split
  · obtain ⟨k', hk, hk'⟩ := findFresh_spec mk hinj seen (seen.length + 1) start seen
      (fun _ _ => Iff.rfl) (Nat.lt_succ_self _)
    exact ⟨mk k', by rw [hk]; rfl, hk'⟩
  · rename_i h
    exact ⟨base, rfl, fun hm => h (List.contains_iff_mem.2 hm)⟩

theorem assignAll_spec_aux (mk : Str → Nat → Str) (start : Nat)
    (hinj : ∀ b i j, mk b i = mk b j → i = j) (bases : List Str) :
    ∀ seen, ∃ l, assignAll mk start seen bases = some l ∧ l.Nodup ∧ (∀ x ∈ l, x ∉ seen) ∧
      l.length = bases.length := by
  induction bases with
  | nil => intro seen; exact ⟨[], rfl, List.nodup_nil, by simp, rfl⟩
  | cons b bs ih =>
    intro seen
    obtain ⟨n, hn, hns⟩ := freshName_spec (mk b) start seen b (hinj b)
    obtain ⟨rest, hr, hnd, hfresh, hlen⟩ := ih (n :: seen)
    refine ⟨n :: rest, ?_, ?_, ?_, ?_⟩
    · simp only [assignAll, hn, hr]
    · rw [List.nodup_cons]
      exact ⟨fun hmem => hfresh n hmem (by simp), hnd⟩
    · intro x hx
      rcases List.mem_cons.1 hx with rfl | hx
      · exact hns
      · exact fun hm => hfresh x hx (List.mem_cons_of_mem _ hm)
    · simp [hlen]

theorem assignAll_spec (mk : Str → Nat → Str) (start : Nat)
    (hinj : ∀ b i j, mk b i = mk b j → i = j) (bases : List Str) :
    ∃ l, assignAll mk start [] bases = some l ∧ l.Nodup ∧ l.length = bases.length := by
  obtain ⟨l, h1, h2, _, h3⟩ := assignAll_spec_aux mk start hinj bases []
  exact ⟨l, h1, h2, h3⟩

/-- `assignAll_spec` for bases obtained by mapping a sanitiser over the raw names. -/
theorem assignAll_map_spec {α : Type} (mk : Str → Nat → Str) (start : Nat)
    (hinj : ∀ b i j, mk b i = mk b j → i = j) (f : α → Str) (xs : List α) :
    ∃ l, assignAll mk start [] (xs.map f) = some l ∧ l.Nodup ∧ l.length = xs.length := by
  obtain ⟨l, h1, h2, h3⟩ := assignAll_spec mk start hinj (xs.map f)
  exact ⟨l, h1, h2, by rw [h3, List.length_map]⟩

/-! ### every assigned name is a base or a suffixed base; a dataclass field is never called `field` (F5 repaired) -/

theorem freshName_shape {mk : Nat → Str} {start : Nat} {seen : List Str} {base n : Str}
    (h : freshName mk start seen base = some n) : n = base ∨ ∃ k, n = mk k := by
  unfold freshName at h
  split at h
  · cases hf : findFresh mk seen start (seen.length + 1) with
    | none => rw [hf] at h; cases h
    | some k => rw [hf] at h; exact Or.inr ⟨k, (Option.some.inj h).symm⟩
  · exact Or.inl (Option.some.inj h).symm

theorem assignAll_mem_shape (mk : Str → Nat → Str) (start : Nat) :
    ∀ (bases seen l : List Str), assignAll mk start seen bases = some l →
      ∀ n ∈ l, ∃ b ∈ bases, n = b ∨ ∃ k, n = mk b k := by
  intro bases
  induction bases with
  | nil => intro seen l h n hn; simp only [assignAll, Option.some.injEq] at h; subst h; cases hn
  | cons b bs ih =>
    intro seen l h n hn
    simp only [assignAll] at h
    split at h
    · cases h
    · rename_i m hm
      split at h
      · cases h
      · rename_i rest hr
        have := Option.some.inj h
        subst this
        rcases List.mem_cons.mp hn with e | hn
        · subst e
          exact ⟨b, List.mem_cons_self, freshName_shape hm⟩
        · obtain ⟨b', hb', hs⟩ := ih _ _ hr n hn
          exact ⟨b', List.mem_cons_of_mem _ hb', hs⟩

theorem dcFieldBase_ne_field (p : Str) : dcFieldBase p ≠ "field".toList := by
  unfold dcFieldBase
  simp only
  split
  · rename_i h
    rw [beq_iff_eq.mp h]
    decide
  · rename_i h
    intro e
    exact h (by rw [e]; exact beq_self_eq_true _)

/-- The request is `sanitize_method_name(prop)` unless that is `field`. -/
theorem dcFieldBase_eq (p : Str) :
    dcFieldBase p = if sanMethod p = "field".toList then "field_".toList else sanMethod p := by
  unfold dcFieldBase
  simp only
  by_cases h : sanMethod p = "field".toList
  · rw [if_pos h, if_pos (by rw [h]; rfl), h]; rfl
  · rw [if_neg h, if_neg (by intro e; exact h (beq_iff_eq.mp e))]

/-- No field identifier of a dataclass is `field`: a requested name never is (`dcFieldBase`), and a suffixed one contains `_`. -/
theorem fieldNames_ne_field (props l : List Str) (h : fieldNames props = some l) : "field".toList ∉ l := by
  intro hm
  obtain ⟨b, hb, hs⟩ := assignAll_mem_shape sufUnderscore 2 _ _ _ h _ hm
  obtain ⟨p, _, hp⟩ := List.mem_map.mp hb
  rcases hs with e | ⟨k, e⟩
  · exact dcFieldBase_ne_field p (hp.trans e.symm)
  · have : '_' ∈ "field".toList := by rw [e]; simp [sufUnderscore]
    revert this
    decide

/-! ### A suffixed identifier stays a non-keyword identifier -/

theorem sufUnderscore_valid (base : Str) (k : Nat) (h : isPyIdent base = true) :
    isPyIdent (sufUnderscore base k) = true ∧ isKeyword (sufUnderscore base k) = false := by
  unfold sufUnderscore
  constructor
  · cases base with
    | nil => cases h
    | cons c cs =>
      simp only [isPyIdent, Bool.and_eq_true, List.cons_append, List.all_append, List.all_cons] at *
      refine ⟨h.1, h.2, by decide, ?_⟩
      rw [List.all_eq_true]
      exact fun x hx => isIdChar_of_isAlnumA (isAlnumA_of_digit (natStr_digits k x hx))
  · have hne := natStr_ne_nil k
    have hlast := natStr_digits k _ (List.getLast_mem hne)
    have : base ++ '_' :: natStr k = (base ++ '_' :: (natStr k).dropLast) ++ [(natStr k).getLast hne] := by
      rw [List.append_assoc, List.cons_append, List.dropLast_concat_getLast hne]
    rw [this]
    exact not_isKeyword_of_trail_digit _ _ hlast

/-! ### Operation ids: the method names of the suffix candidates `id_1, id_2, …` are pairwise different -/

theorem dropBraces_append (a b : Str) : dropBraces (a ++ b) = dropBraces a ++ dropBraces b := by
  simp [dropBraces]

theorem dropBraces_of_idChar {t : Str} (h : t.all isIdChar = true) : dropBraces t = t := by
  unfold dropBraces
  rw [List.filter_eq_self]
  intro c hc
  have h1 := List.all_eq_true.1 h c hc
  have : c ≠ '{' ∧ c ≠ '}' := by
    constructor <;> (intro hc; subst hc; revert h1; decide)
  simp [this.1, this.2]

theorem camelSplit1_noUpper : ∀ (t : Str) (prev : Option Char), t.all (fun c => !isUpperA c) = true →
    camelSplit1 prev t = t := by
  intro t
  induction t with
  | nil => intro _ _; rfl
  | cons c cs ih =>
    intro prev h
    simp only [List.all_cons, Bool.and_eq_true, Bool.not_eq_true'] at h
    unfold camelSplit1
    simp only [h.1, Bool.and_false]
    cases prev <;> simp [ih _ h.2]

theorem camelSplit1_append_tail (t : Str) (ht : t.all (fun c => !isUpperA c) = true) :
    ∀ (a : Str) (prev : Option Char), camelSplit1 prev (a ++ t) = camelSplit1 prev a ++ t := by
  intro a
  induction a with
  | nil => intro prev; simp only [List.nil_append]; rw [camelSplit1_noUpper t prev ht]; rfl
  | cons c cs ih =>
    intro prev
    simp only [List.cons_append, camelSplit1, ih]
    split <;> (try split) <;> rfl

theorem camelSplit2_noUpper : ∀ (t : Str) (b : Bool), t.all (fun c => !isUpperA c) = true →
    camelSplit2 b t = t := by
  intro t
  induction t with
  | nil => intro _ _; rfl
  | cons c cs ih =>
    intro b h
    simp only [List.all_cons, Bool.and_eq_true, Bool.not_eq_true'] at h
    unfold camelSplit2
    simp only [h.1, Bool.and_false, Bool.false_and, Bool.false_eq_true, if_false]
    rw [ih false h.2]

/-- A tail that has no capital and does not start with a lower-case letter passes through `camelSplit2` untouched and does not
    change what happens before it. -/
theorem camelSplit2_append_tail (t : Str) (ht : t.all (fun c => !isUpperA c) = true)
    (hh : ∀ d, t.head? = some d → isLowerA d = false) :
    ∀ (a : Str) (b : Bool), camelSplit2 b (a ++ t) = camelSplit2 b a ++ t := by
  intro a
  induction a with
  | nil => intro b; simp only [List.nil_append]; rw [camelSplit2_noUpper t b ht]; rfl
  | cons c cs ih =>
    intro b
    cases cs with
    | nil =>
      simp only [List.cons_append, List.nil_append]
      cases t with
      | nil => simp
      | cons d ds =>
        have hl : isLowerA d = false := hh d rfl
        have e : camelSplit2 (isUpperA c) (d :: ds) = d :: ds := camelSplit2_noUpper _ _ ht
        rw [camelSplit2, e]
        simp [hl, camelSplit2]
    | cons d ds =>
      simp only [List.cons_append] at ih ⊢
      unfold camelSplit2
      simp only [ih]
      split <;> rfl

theorem nonId_append (a b : Str) : nonIdToUnderscore (a ++ b) = nonIdToUnderscore a ++ nonIdToUnderscore b := by
  simp [nonIdToUnderscore]

theorem nonId_of_idChar {t : Str} (h : t.all isIdChar = true) : nonIdToUnderscore t = t := by
  unfold nonIdToUnderscore
  induction t with
  | nil => rfl
  | cons c cs ih =>
    simp only [List.all_cons, Bool.and_eq_true] at h
    simp [h.1, ih h.2]

theorem collapse_append_of_head_ne (d : Char) (y : Str) (hd : d ≠ '_') :
    ∀ x : Str, collapseUnderscores (x ++ d :: y) = collapseUnderscores x ++ collapseUnderscores (d :: y) := by
  intro x
  induction x with
  | nil => rfl
  | cons c cs ih =>
    cases cs with
    | nil =>
      simp only [List.cons_append, List.nil_append]
      rw [collapseUnderscores]
      have : (d == '_') = false := by simpa using hd
      simp [this, collapseUnderscores]
    | cons c' rest =>
      simp only [List.cons_append] at ih ⊢
      rw [collapseUnderscores, collapseUnderscores, ih]
      split <;> rfl

theorem collapse_of_no_us : ∀ s : Str, s.all (fun c => c != '_') = true → collapseUnderscores s = s := by
  intro s
  induction s with
  | nil => intro _; rfl
  | cons c cs ih =>
    intro h
    simp only [List.all_cons, Bool.and_eq_true, bne_iff_ne, ne_eq] at h
    cases cs with
    | nil => rfl
    | cons d ds =>
      rw [collapseUnderscores]
      have : (c == '_') = false := by simpa using h.1
      simp only [this, Bool.false_and, Bool.false_eq_true, if_false]
      rw [ih (by simpa using h.2)]

theorem lstripC_append_of_head (ch : Char) (t : Str) (ht : t.head? ≠ some ch) :
    ∀ p : Str, lstripC ch (p ++ t) = lstripC ch p ++ t := by
  intro p
  induction p with
  | nil => exact lstripC_id_of_head ht
  | cons c cs ih =>
    simp only [List.cons_append, lstripC]
    split
    · exact ih
    · rfl

/-- What `methodCore` makes of `id_<digits>`: a prefix that depends on `id` only, followed by the digits. -/
theorem methodCore_suffixed (id : Str) : ∃ q : Str, ∀ ds : Str, ds ≠ [] → ds.all isDigitA = true →
    methodCore (id ++ '_' :: ds) = q ++ ds := by
  refine ⟨(lstripC '_' (collapseUnderscores
    (nonIdToUnderscore (camelSplit2 false (camelSplit1 none (dropBraces id))) ++ ['_']))).map lowerA, ?_⟩
  intro ds hne hds
  have hd : ∀ c ∈ ds, isDigitA c = true := fun c hc => List.all_eq_true.1 hds c hc
  have hidc : ('_' :: ds).all isIdChar = true := by
    simp only [List.all_cons, isIdChar_us, Bool.true_and, List.all_eq_true]
    exact fun c hc => isIdChar_of_isAlnumA (isAlnumA_of_digit (hd c hc))
  have hnu : ('_' :: ds).all (fun c => !isUpperA c) = true := by
    simp only [List.all_cons, Bool.and_eq_true, List.all_eq_true]
    refine ⟨by decide, fun c hc => ?_⟩
    have := hd c hc
    simp only [Bool.not_eq_true']
    char_arith
  have hnus : ds.all (fun c => c != '_') = true := by
    rw [List.all_eq_true]
    intro c hc
    have := hd c hc
    simp only [bne_iff_ne, ne_eq]
    intro h; subst h; revert this; decide
  have hlow : ds.all lowId = true := by
    rw [List.all_eq_true]
    intro c hc
    have := hd c hc
    unfold lowId
    simp [this]
  obtain ⟨d, ds', rfl⟩ := List.exists_cons_of_ne_nil hne
  have hdne : d ≠ '_' := by
    have := hd d (by simp)
    intro h; subst h; revert this; decide
  rw [methodCore_eq]
  unfold methodPre
  rw [dropBraces_append, dropBraces_of_idChar hidc, camelSplit1_append_tail _ hnu,
    camelSplit2_append_tail _ hnu (by intro x hx; simp only [List.head?_cons, Option.some.injEq] at hx; subst hx; decide),
    nonId_append, nonId_of_idChar hidc]
  generalize nonIdToUnderscore (camelSplit2 false (camelSplit1 none (dropBraces id))) = A
  have e1 : A ++ '_' :: d :: ds' = (A ++ ['_']) ++ d :: ds' := by simp
  rw [e1, collapse_append_of_head_ne d ds' hdne, collapse_of_no_us _ hnus]
  generalize collapseUnderscores (A ++ ['_']) = P
  unfold stripC
  rw [lstripC_append_of_head '_' (d :: ds') (by simpa using hdne)]
  rw [rstripC_id_of_last]
  · rw [List.map_append, mapLower_id hlow]
  · rw [List.getLast?_append, List.getLast?_eq_some_getLast (List.cons_ne_nil d ds'), Option.some_or]
    intro h
    have hm := hd _ (List.getLast_mem (List.cons_ne_nil d ds'))
    rw [Option.some.inj h] at hm
    revert hm; decide

theorem sanMethod_eq_methodCore_eq {a b : Str} (h : sanMethod a = sanMethod b) : methodCore a = methodCore b := by
  have := congrArg methodCore h
  rwa [sanMethod_eq a, sanMethod_eq b, methodCore_methodPost (methodCore_clean a),
    methodCore_methodPost (methodCore_clean b)] at this

/-- Two different suffixes never give the same method name: `sanitize_method_name(f"{id}_{i}")` determines `i`. -/
theorem sufMethod_inj (id : Str) (i j : Nat) (h : sufMethod id i = sufMethod id j) : i = j := by
  unfold sufMethod sufId at h
  have h' := sanMethod_eq_methodCore_eq h
  obtain ⟨q, hq⟩ := methodCore_suffixed id
  rw [hq _ (natStr_ne_nil i) (List.all_eq_true.2 (natStr_digits i)),
    hq _ (natStr_ne_nil j) (List.all_eq_true.2 (natStr_digits j))] at h'
  exact natStr_inj (List.append_cancel_left h')

/-! ### Operation ids: the pass -/

theorem countOf_none_iff (seen : List (Str × Nat)) (k : Str) : countOf seen k = none ↔ k ∉ seenKeys seen := by
  induction seen with
  | nil => simp [countOf, seenKeys]
  | cons p ps ih =>
    obtain ⟨k', n⟩ := p
    simp only [countOf, seenKeys, List.map_cons, List.mem_cons, not_or] at ih ⊢
    split
    · rename_i heq
      have : k' = k := by simpa using heq
      simp [this]
    · rename_i heq
      have : k' ≠ k := by simpa using heq
      rw [ih]
      exact ⟨fun h => ⟨fun e => this e.symm, h⟩, fun h => h.2⟩

theorem seenKeys_setCount (seen : List (Str × Nat)) (k : Str) (v : Nat) :
    seenKeys (setCount seen k v) = seenKeys seen := by
  induction seen with
  | nil => rfl
  | cons p ps ih =>
    obtain ⟨k', n⟩ := p
    simp only [setCount, seenKeys, List.map_cons] at ih ⊢
    split <;> simp [ih]

theorem seenKeys_append (a b : List (Str × Nat)) : seenKeys (a ++ b) = seenKeys a ++ seenKeys b := by
  simp [seenKeys]

theorem seenKeys_length (seen : List (Str × Nat)) : (seenKeys seen).length = seen.length := by
  simp [seenKeys]

/-- The `while` loop of the pass ends within `|seen_methods| + 1` iterations, on a method name that is not taken. -/
theorem dedup_search_ends (seen : List (Str × Nat)) (id : Str) (start : Nat) :
    ∃ k, findFresh (sufMethod id) (seenKeys seen) start (seen.length + 1) = some k ∧
      sufMethod id k ∉ seenKeys seen := by
  apply findFresh_spec (sufMethod id) (sufMethod_inj id) (seenKeys seen) (seen.length + 1) start (seenKeys seen)
    (fun _ _ => Iff.rfl)
  rw [seenKeys_length]; exact Nat.lt_succ_self _

/-- The pass on every input and from every state of `seen_methods`: it ends (`some`), changes no length, every output id is the
    input id or the input id with a numeric suffix, and the METHOD NAMES of the output are pairwise different and different from
    every name already taken. -/
theorem dedupOpIds?_spec (ids : List Str) :
    ∀ seen, ∃ out, dedupOpIds? seen ids = some out ∧ out.length = ids.length ∧
      (out.map sanMethod).Nodup ∧ (∀ x ∈ out, sanMethod x ∉ seenKeys seen) ∧
      (∀ p ∈ ids.zip out, p.2 = p.1 ∨ ∃ n, p.2 = sufId p.1 n) := by
  induction ids with
  | nil => intro seen; exact ⟨[], rfl, rfl, List.nodup_nil, by simp, by simp⟩
  | cons id rest ih =>
    intro seen
    cases hc : countOf seen (sanMethod id) with
    | none =>
      obtain ⟨out, ho, hlen, hnd, hfresh, hsh⟩ := ih (seen ++ [(sanMethod id, 1)])
      have hnot : sanMethod id ∉ seenKeys seen := (countOf_none_iff _ _).1 hc
      refine ⟨id :: out, ?_, by simp [hlen], ?_, ?_, ?_⟩
      rotate_right
      · intro p hp
        rcases List.mem_cons.1 (by simpa using hp) with rfl | hp
        · exact Or.inl rfl
        · exact hsh p hp
      · simp only [dedupOpIds?, hc, ho]
      · rw [List.map_cons, List.nodup_cons]
        refine ⟨fun hm => ?_, hnd⟩
        obtain ⟨x, hx, hxe⟩ := List.mem_map.1 hm
        apply hfresh x hx
        rw [seenKeys_append, hxe]
        simp [seenKeys]
      · intro x hx
        rcases List.mem_cons.1 hx with rfl | hx
        · exact hnot
        · intro hm
          apply hfresh x hx
          rw [seenKeys_append]
          exact List.mem_append_left _ hm
    | some n =>
      obtain ⟨k, hk, hknot⟩ := dedup_search_ends seen id (n + 1)
      obtain ⟨out, ho, hlen, hnd, hfresh, hsh⟩ :=
        ih (setCount seen (sanMethod id) k ++ [(sufMethod id k, 1)])
      refine ⟨sufId id k :: out, ?_, by simp [hlen], ?_, ?_, ?_⟩
      rotate_right
      · intro p hp
        rcases List.mem_cons.1 (by simpa using hp) with rfl | hp
        · exact Or.inr ⟨k, rfl⟩
        · exact hsh p hp
      · simp only [dedupOpIds?, hc, hk, ho]
      · rw [List.map_cons, List.nodup_cons]
        refine ⟨fun hm => ?_, hnd⟩
        obtain ⟨x, hx, hxe⟩ := List.mem_map.1 hm
        apply hfresh x hx
        rw [seenKeys_append, seenKeys_setCount, hxe]
        simp [seenKeys, sufMethod]
      · intro x hx
        rcases List.mem_cons.1 hx with rfl | hx
        · exact hknot
        · intro hm
          apply hfresh x hx
          rw [seenKeys_append, seenKeys_setCount]
          exact List.mem_append_left _ hm

theorem dedupOpIds?_isSome (seen : List (Str × Nat)) (ids : List Str) : (dedupOpIds? seen ids).isSome = true := by
  obtain ⟨out, h, _⟩ := dedupOpIds?_spec ids seen
  rw [h]; rfl

theorem dedupOpIds?_eq_some (seen : List (Str × Nat)) (ids : List Str) :
    dedupOpIds? seen ids = some (dedupOpIds seen ids) := by
  obtain ⟨out, h, _⟩ := dedupOpIds?_spec ids seen
  rw [dedupOpIds, h]; rfl

theorem dedupOpIds_spec (seen : List (Str × Nat)) (ids : List Str) :
    (dedupOpIds seen ids).length = ids.length ∧ ((dedupOpIds seen ids).map sanMethod).Nodup ∧
      (∀ x ∈ dedupOpIds seen ids, sanMethod x ∉ seenKeys seen) ∧
      (∀ p ∈ ids.zip (dedupOpIds seen ids), p.2 = p.1 ∨ ∃ n, p.2 = sufId p.1 n) := by
  obtain ⟨out, h, h1, h2, h3, h4⟩ := dedupOpIds?_spec ids seen
  have : dedupOpIds seen ids = out := by rw [dedupOpIds, h]; rfl
  rw [this]; exact ⟨h1, h2, h3, h4⟩

/-- The method names after the pass are pairwise different - every input. -/
theorem methodNames_nodup (ids : List Str) : (methodNames ids).Nodup := (dedupOpIds_spec [] ids).2.1

theorem countOf_append_none (seen : List (Str × Nat)) (m k : Str) (n : Nat)
    (h : countOf seen k = none) (hne : m ≠ k) : countOf (seen ++ [(m, n)]) k = none := by
  induction seen with
  | nil => simp [countOf, hne]
  | cons p ps ih =>
    obtain ⟨k', n'⟩ := p
    simp only [countOf, List.cons_append] at h ⊢
    split
    · rename_i heq; simp [heq] at h
    · rename_i heq; simp only [heq] at h; exact ih h

theorem dedupOpIds?_id (ids : List Str) :
    ∀ seen, (∀ id ∈ ids, countOf seen (sanMethod id) = none) → (ids.map sanMethod).Nodup →
      dedupOpIds? seen ids = some ids := by
  induction ids with
  | nil => intro _ _ _; rfl
  | cons id rest ih =>
    intro seen hc hnd
    rw [List.map_cons, List.nodup_cons] at hnd
    have h0 := hc id (by simp)
    have : dedupOpIds? (seen ++ [(sanMethod id, 1)]) rest = some rest := by
      apply ih _ _ hnd.2
      intro id' hid'
      apply countOf_append_none _ _ _ _ (hc id' (List.mem_cons_of_mem _ hid'))
      intro heq
      exact hnd.1 (heq ▸ List.mem_map_of_mem hid')
    simp only [dedupOpIds?, h0, this]

theorem dedupOpIds_of_nodup (ids : List Str) (h : (ids.map sanMethod).Nodup) :
    dedupOpIds [] ids = ids ∧ (methodNames ids).Nodup := by
  have := dedupOpIds?_id ids [] (fun _ _ => rfl) h
  have e : dedupOpIds [] ids = ids := by rw [dedupOpIds, this]; rfl
  exact ⟨e, by rw [methodNames, e]; exact h⟩

/-- The pass is idempotent: a second run over its own output (what a second `emit` over the same operation objects does)
    changes nothing - every input. -/
theorem dedupOpIds_idempotent (ids : List Str) : dedupOpIds [] (dedupOpIds [] ids) = dedupOpIds [] ids :=
  (dedupOpIds_of_nodup _ (dedupOpIds_spec [] ids).2.1).1

end Pog
