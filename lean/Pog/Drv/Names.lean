import Pog.Drv.Util
import Pog.Model.Fresh
open Lean Pog Pog.Drv
namespace Pog.Drv

def namesFns : List String := ["tokenize","sanClass","sanModule","sanMethod","normTagKey","sanTagAttr","isValidPyIdentifier",
  "cleanOpId","enumMemberStr","fieldNames","enumMemberNames","enumMemberNamesOfValues","classNames","moduleStems","inlineName",
  "dedupOpIds","methodNames"]

def namesRun (f : String) (a : Array Json) (u : UInfo) : Except String Json := do
  match f with
  | "tokenize" => pure (jstrs (tokenize (← getStr (← argN a 0))))
  | "sanClass" => pure (jstr (sanClass (← getStr (← argN a 0))))
  | "sanModule" => pure (jstr (sanModule u (← getStr (← argN a 0))))
  | "sanMethod" => pure (jstr (sanMethod (← getStr (← argN a 0))))
  | "normTagKey" => pure (jstr (normTagKey u (← getStr (← argN a 0))))
  | "sanTagAttr" => pure (jstr (sanTagAttr u (← getStr (← argN a 0))))
  | "isValidPyIdentifier" => pure (Json.bool (isValidPyIdentifier (← getStr (← argN a 0))))
  | "cleanOpId" =>
    pure (jstr (cleanOpId (← getStr (← argN a 0)) (← getStr (← argN a 1)) (← getStr (← argN a 2))))
  | "enumMemberStr" => pure (jopt jstr (enumMemberStr u (← getStr (← argN a 0))))
  | "fieldNames" => pure (jopt jstrs (fieldNames (← getStrs (← argN a 0))))
  | "enumMemberNames" => pure (jopt jstrs (enumMemberNames (← getStrs (← argN a 0))))
  | "enumMemberNamesOfValues" => pure (jopt jstrs (enumMembersOfValues u (← getStrs (← argN a 0))))
  | "classNames" => pure (jopt jstrs (classNames (← getStrs (← argN a 0))))
  | "moduleStems" => pure (jopt jstrs (moduleStems u (← getStrs (← argN a 0))))
  | "inlineName" => pure (jopt jstr (inlineName (← getStrs (← argN a 0)) (← getStr (← argN a 1))))
  | "dedupOpIds" => pure (jopt jstrs (dedupOpIds? [] (← getStrs (← argN a 0))))
  | "methodNames" => pure (jstrs (methodNames (← getStrs (← argN a 0))))
  | _ => throw s!"unknown function {f}"


def dispatchNames : Dispatch := fun f a u =>
  if namesFns.contains f then some (namesRun f a u) else none

end Pog.Drv
