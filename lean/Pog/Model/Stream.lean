import Pog.Model.Basic
/-
  Model of `pyopenapi_gen/core/streaming_helpers.py` and of the httpx 0.28.1 machinery it sits on.

  MODELLED (branch for branch)
    * `httpx._decoders.LineDecoder.decode/flush`            → `LD.decode`, `LD.flush`
    * `httpx.Response.aiter_lines` over `aiter_text`         → `linesOf` (the `TextChunker(chunk_size=None)`
      drops empty text chunks: `ldFeed` skips them)
    * `iter_sse` / `_parse_sse_event` / `iter_sse_events_text` / `iter_ndjson` (up to `json.loads`)
  TRUSTED DESCRIPTIONS (checked only by the correspondence run, `corr_c18.py`)
    * `str.splitlines()`  = `splitLines` (a one-character-at-a-time automaton)
    * `str.lstrip()/strip()` whitespace set = `isPyWs`
    * the `codecs` incremental UTF-8 decoder restricted to VALID UTF-8 = `utf8Step`/`utf8Chunk`
  NOT MODELLED
    * `SSEEvent.retry` (`int(value)`; it is a function of the line list like every other field, so
      chunk independence covers it through `lines_chunk_independent`), `json.loads`, invalid UTF-8
      (`errors="replace"`), content-encodings (gzip …), non-UTF-8 charsets.
-/
namespace Pog

/-! ## `str.splitlines()` -/

/-- The line boundaries of `str.splitlines()` (= `NEWLINE_CHARS` of httpx's `LineDecoder`). -/
def isLineBreak (c : Char) : Bool :=
  c == '\n' || c == '\r' || c == '\x0b' || c == '\x0c' || c == '\x1c' || c == '\x1d' || c == '\x1e'
    || c == '\u0085' || c == '\u2028' || c == '\u2029'

/-- State of the line automaton: the characters of the current (unterminated) line and whether the
    last character was a `\r` whose line has not been emitted yet (it may still be followed by `\n`). -/
structure LSt where
  cur : Str
  pcr : Bool
deriving DecidableEq, Repr

def LSt.init : LSt := ⟨[], false⟩

/-- Feed one character: the lines completed by it (0, 1 or 2) and the next state. -/
def lstep (s : LSt) (c : Char) : List Str × LSt :=
  if s.pcr then
    if c == '\n' then ([s.cur], ⟨[], false⟩)
    else if c == '\r' then ([s.cur], ⟨[], true⟩)
    else if isLineBreak c then ([s.cur, []], ⟨[], false⟩)
    else ([s.cur], ⟨[c], false⟩)
  else
    if c == '\r' then ([], ⟨s.cur, true⟩)
    else if isLineBreak c then ([s.cur], ⟨[], false⟩)
    else ([], ⟨s.cur ++ [c], false⟩)

/-- Feed a string: all completed lines and the final state. -/
def lrun (s : LSt) : Str → List Str × LSt
  | [] => ([], s)
  | c :: cs => ((lstep s c).1 ++ (lrun (lstep s c).2 cs).1, (lrun (lstep s c).2 cs).2)

/-- End of input: a pending `\r` terminates its line; a non-empty unterminated line is delivered;
    a terminated last line is not followed by an empty one. -/
def lfinish (s : LSt) : List Str :=
  if s.pcr then [s.cur] else if s.cur.isEmpty then [] else [s.cur]

/-- Python `text.splitlines()`. -/
def splitLines (t : Str) : List Str := (lrun LSt.init t).1 ++ lfinish (lrun LSt.init t).2

/-! ## `httpx._decoders.LineDecoder` -/

/-- `self.buffer : list[str]`, `self.trailing_cr : bool`. -/
structure LD where
  buffer : List Str
  trailingCR : Bool
deriving DecidableEq, Repr

def LD.init : LD := ⟨[], false⟩

/-- `[buf + lines[0]] + lines[1:]`.  (`lines` is never empty there: see `splitLines_ne_nil`; Python
    would raise `IndexError`.) -/
def mergeFirst (buf : Str) : List Str → List Str
  | [] => []
  | l :: ls => (buf ++ l) :: ls

/-- The part of `decode` after the `\r` juggling; `text2` is `text` with the carried `\r` prepended and one
    trailing `\r` removed, `endsCR` the new `trailing_cr`. -/
def LD.decodeBody (buffer : List Str) (endsCR : Bool) (text2 : Str) : LD × List Str :=
  match text2.getLast? with
  | none => (⟨buffer, endsCR⟩, [])                                  -- `if not text: return []`
  | some last =>
    let trailingNewline := isLineBreak last                       -- `text[-1] in NEWLINE_CHARS`
    let lines := splitLines text2
    match lines, trailingNewline with
    | [l], false => (⟨buffer ++ [l], endsCR⟩, [])                  -- `len(lines) == 1 and not trailing_newline`
    | _, _ =>
      let lines1 := if buffer.isEmpty then lines else mergeFirst buffer.flatten lines   -- `if self.buffer:`
      if trailingNewline then (⟨[], endsCR⟩, lines1)
      else
        match lines1.getLast? with                                -- `self.buffer = [lines.pop()]`
        | some l => (⟨[l], endsCR⟩, lines1.dropLast)
        | none => (⟨[], endsCR⟩, [])                               -- unreachable (`IndexError` in Python)

/-- `LineDecoder.decode(text)`: new decoder state and returned lines. -/
def LD.decode (ld : LD) (text : Str) : LD × List Str :=
  let text1 := if ld.trailingCR then '\r' :: text else text       -- `text = "\r" + text`
  let endsCR := text1.getLast? == some '\r'                        -- `text.endswith("\r")`
  let text2 := if endsCR then text1.dropLast else text1            -- `text = text[:-1]`
  LD.decodeBody ld.buffer endsCR text2

/-- `LineDecoder.flush()`. -/
def LD.flush (ld : LD) : List Str :=
  if ld.buffer.isEmpty && !ld.trailingCR then [] else [ld.buffer.flatten]

/-- `Response.aiter_lines()` over the text chunks produced by `aiter_text()`; the `TextChunker`
    (`chunk_size=None`) drops empty strings, so `decode` is never called with `""`. -/
def ldFeed (ld : LD) : List Str → List Str
  | [] => ld.flush
  | t :: ts => if t.isEmpty then ldFeed ld ts else (ld.decode t).2 ++ ldFeed (ld.decode t).1 ts

def linesOf (chunks : List Str) : List Str := ldFeed LD.init chunks

/-! ## Python whitespace (`str.strip`, `str.lstrip` without argument) -/

/-- `Py_UNICODE_ISSPACE`. -/
def isPyWs (c : Char) : Bool :=
  let n := c.toNat
  (9 ≤ n && n ≤ 13) || (28 ≤ n && n ≤ 32) || n == 0x85 || n == 0xa0 || n == 0x1680
    || (0x2000 ≤ n && n ≤ 0x200a) || n == 0x2028 || n == 0x2029 || n == 0x202f || n == 0x205f || n == 0x3000

def lstripWs : Str → Str
  | [] => []
  | c :: cs => if isPyWs c then lstripWs cs else c :: cs

def rstripWs (s : Str) : Str := (lstripWs s.reverse).reverse

def stripWs (s : Str) : Str := rstripWs (lstripWs s)

/-! ## `_parse_sse_event` -/

/-- `SSEEvent` without `retry` (not modelled). -/
structure Event where
  data : Str
  event : Option Str
  id : Option Str
deriving DecidableEq, Repr

/-- The local variables `data`, `event`, `id` of `_parse_sse_event`. -/
structure PSt where
  data : List Str
  event : Option Str
  id : Option Str
deriving DecidableEq, Repr

def PSt.init : PSt := ⟨[], none, none⟩

/-- `line.split(":", 1)` when `":" in line`; `none` when there is no colon. -/
def splitColon : Str → Option (Str × Str)
  | [] => none
  | c :: cs =>
    if c == ':' then some ([], cs)
    else match splitColon cs with
      | some (f, v) => some (c :: f, v)
      | none => none

/-- One iteration of the `for line in lines` loop. -/
def parseLine (st : PSt) (line : Str) : PSt :=
  if line.head? == some ':' then st                                -- comment
  else
    match splitColon line with
    | none => st                                                   -- no colon: ignored
    | some (field, value) =>
      let v := lstripWs value
      if field == "data".toList then { st with data := st.data ++ [v] }
      else if field == "event".toList then { st with event := some v }
      else if field == "id".toList then { st with id := some v }
      else st                                                      -- `retry` (not modelled) and unknown fields

def parseLines (st : PSt) : List Str → PSt
  | [] => st
  | l :: ls => parseLines (parseLine st l) ls

def PSt.toEvent (st : PSt) : Event := ⟨joinWith ['\n'] st.data, st.event, st.id⟩

def parseEvent (lines : List Str) : Event := (parseLines PSt.init lines).toEvent

/-! ## `iter_sse`, `iter_sse_events_text`, `iter_ndjson` -/

/-- The `async for line` loop of `iter_sse` with its accumulator `event_lines`, then the
    "last event" flush.  (`if event:` is always true: `SSEEvent` defines neither `__bool__` nor `__len__`.) -/
def sseLoop (eventLines : List Str) : List Str → List Event
  | [] => if eventLines.isEmpty then [] else [parseEvent eventLines]
  | l :: ls =>
    if l.isEmpty then
      if eventLines.isEmpty then sseLoop eventLines ls
      else parseEvent eventLines :: sseLoop [] ls
    else sseLoop (eventLines ++ [l]) ls

def iterSSE (lines : List Str) : List Event := sseLoop [] lines

/-- `iter_sse_events_text` on the line list. -/
def sseDataOfLines (lines : List Str) : List Str :=
  ((iterSSE lines).filter (fun e => !e.data.isEmpty)).map Event.data

/-- `iter_ndjson` up to `json.loads`: the stripped non-empty lines. -/
def ndjsonOfLines (lines : List Str) : List Str :=
  (lines.map stripWs).filter (fun l => !l.isEmpty)

/-- `iter_sse_events_text(response)` as a function of the text chunks. -/
def sseEventsText (chunks : List Str) : List Str := sseDataOfLines (linesOf chunks)

/-- `iter_ndjson(response)` (before `json.loads`) as a function of the text chunks. -/
def iterNdjsonLines (chunks : List Str) : List Str := ndjsonOfLines (linesOf chunks)

/-! ## Byte level: the incremental UTF-8 decoder on VALID input

  `codecs.getincrementaldecoder("utf-8")(errors="replace").decode(chunk)` keeps the bytes of an incomplete
  trailing sequence and prepends them to the next chunk.  Only well-formed UTF-8 (Unicode table 3-7) is
  modelled; on anything else the model answers `none` ("outside the model"), it does not guess U+FFFD. -/

abbrev Byte := Nat

def isCont (b : Byte) : Bool := 0x80 ≤ b && b ≤ 0xBF

/-- Admissible second byte after a 3- or 4-byte lead `b0` (no overlongs, no surrogates, ≤ U+10FFFF). -/
def second3 (b0 b1 : Byte) : Bool :=
  if b0 == 0xE0 then 0xA0 ≤ b1 && b1 ≤ 0xBF
  else if b0 == 0xED then 0x80 ≤ b1 && b1 ≤ 0x9F
  else isCont b1
def second4 (b0 b1 : Byte) : Bool :=
  if b0 == 0xF0 then 0x90 ≤ b1 && b1 ≤ 0xBF
  else if b0 == 0xF4 then 0x80 ≤ b1 && b1 ≤ 0x8F
  else isCont b1

inductive USeq where
  | complete (c : Char)   -- a whole well-formed sequence
  | pending               -- a proper prefix of a well-formed sequence
  | invalid
deriving DecidableEq, Repr

/-- Classify the pending bytes plus one more byte. -/
def utf8Seq : List Byte → USeq
  | [b0] =>
    if b0 < 0x80 then .complete (Char.ofNat b0)
    else if 0xC2 ≤ b0 && b0 ≤ 0xF4 then .pending else .invalid
  | [b0, b1] =>
    if 0xC2 ≤ b0 && b0 ≤ 0xDF then
      if isCont b1 then .complete (Char.ofNat ((b0 - 0xC0) * 64 + (b1 - 0x80))) else .invalid
    else if 0xE0 ≤ b0 && b0 ≤ 0xEF then (if second3 b0 b1 then .pending else .invalid)
    else if 0xF0 ≤ b0 && b0 ≤ 0xF4 then (if second4 b0 b1 then .pending else .invalid)
    else .invalid
  | [b0, b1, b2] =>
    if 0xE0 ≤ b0 && b0 ≤ 0xEF then
      if second3 b0 b1 && isCont b2 then
        .complete (Char.ofNat ((b0 - 0xE0) * 4096 + (b1 - 0x80) * 64 + (b2 - 0x80)))
      else .invalid
    else if 0xF0 ≤ b0 && b0 ≤ 0xF4 then (if second4 b0 b1 && isCont b2 then .pending else .invalid)
    else .invalid
  | [b0, b1, b2, b3] =>
    if 0xF0 ≤ b0 && b0 ≤ 0xF4 && second4 b0 b1 && isCont b2 && isCont b3 then
      .complete (Char.ofNat ((b0 - 0xF0) * 262144 + (b1 - 0x80) * 4096 + (b2 - 0x80) * 64 + (b3 - 0x80)))
    else .invalid
  | _ => .invalid

/-- Feed bytes to the decoder whose pending (undecoded) bytes are `pend`:
    decoded text and new pending bytes, `none` on ill-formed input. -/
def utf8Run (pend : List Byte) : List Byte → Option (Str × List Byte)
  | [] => some ([], pend)
  | b :: bs =>
    match utf8Seq (pend ++ [b]) with
    | .complete c =>
      match utf8Run [] bs with
      | some (t, p) => some (c :: t, p)
      | none => none
    | .pending => utf8Run (pend ++ [b]) bs
    | .invalid => none

/-- `TextDecoder.decode(chunk)` for every chunk in turn: the list of decoded text chunks (empty ones
    included) and the final pending bytes. -/
def utf8Chunks (pend : List Byte) : List (List Byte) → Option (List Str × List Byte)
  | [] => some ([], pend)
  | ch :: chs =>
    match utf8Run pend ch with
    | none => none
    | some (t, p) =>
      match utf8Chunks p chs with
      | some (ts, p') => some (t :: ts, p')
      | none => none

/-- `bytes.decode("utf-8")` of a complete byte string (`none`: ill-formed or truncated). -/
def utf8Decode (bs : List Byte) : Option Str :=
  match utf8Run [] bs with
  | some (t, []) => some t
  | _ => none

/-- `str.encode("utf-8")` of one character. -/
def utf8EncodeChar (c : Char) : List Byte :=
  let n := c.toNat
  if n < 0x80 then [n]
  else if n < 0x800 then [0xC0 + n / 64, 0x80 + n % 64]
  else if n < 0x10000 then [0xE0 + n / 4096, 0x80 + n / 64 % 64, 0x80 + n % 64]
  else [0xF0 + n / 262144, 0x80 + n / 4096 % 64, 0x80 + n / 64 % 64, 0x80 + n % 64]

def utf8Encode : Str → List Byte
  | [] => []
  | c :: cs => utf8EncodeChar c ++ utf8Encode cs

/-- `aiter_text()` then `aiter_lines()` on byte chunks: `TextDecoder.decode` per chunk, final
    `TextDecoder.flush()` (must find nothing pending, else U+FFFD would be produced: outside the model). -/
def linesOfBytes (chunks : List (List Byte)) : Option (List Str) :=
  match utf8Chunks [] chunks with
  | some (ts, []) => some (linesOf ts)
  | _ => none

end Pog
