import Pog.Lemmas.ClientGen
/-
  ClientGen — `client.py` (`APIClientProtocol`, `APIClient`) and `mocks/mock_client.py` (`MockAPIClient`) as
  `ClientVisitor` (visit/client_visitor.py) writes them.  Model: Pog/Model/ClientGen.lean (skeleton of the three classes as data).
  Claimed by C07 (every tag group is a property of APIClient), C20 (property names), C13 (the three surfaces agree),
  C01 (the generated modules compile: finding F31, `MockAPIClient.__init__` without a body).

  `✗` marks full statements that are FALSE of the current code: `_counterexample` (closed witness, `decide`) + `_partial`
  (hypothesis = the excluded input class).

    visit never raises                                                                   full  `visit_never_raises`
    one tuple per normalised key, built from the canonical tag of the key                full  `tag_tuples_one_per_key`
    tuples (= properties) in the code-point order of their keys                          full  `tag_tuples_sorted_by_key`
    1  every tag of every operation has its property on APIClient (C07)                  full  `every_tag_group_has_a_property`,
       number of properties = number of distinct keys; = the endpoint groups of the emitter    `property_count`, `tag_clients_are_properties`
    2  property names are identifiers (C20)                                              ✗     `property_names_valid_partial` / `_counterexample`
       … never `config`                                                                  full  `property_name_never_config`
       … never `_base_url`, `__aenter__`, `__aexit__`, `__init__`                        ✗     `property_names_avoid_dunder_partial` (ASCII-or-alnum tags),
                                                                                               `property_named_base_url_counterexample` (non-ASCII)
       … never `request`, `close`, `transport`                                           ✗     `property_names_counterexample`, `property_names_partial`
       every property survives in the finished class                                     ✗     `properties_survive_partial`, `property_shadowed_counterexample`
    3  property names pairwise distinct                                                  ✗     `property_names_pairwise_distinct_partial` (ASCII tags),
                                                                                               `…_counterexample` (`aé` / `a`)
    4  Protocol, APIClient and MockAPIClient written from the SAME tuples agree (C13)    full  `surfaces_agree`
       … `MockAPIClient` as the mocks emitter calls it                                   ✗     `mock_surface_counterexample`, `mock_surface_empty_tag_counterexample`,
                                                                                               `mock_surface_partial`
    5  `MockAPIClient.__init__` always has a body (C01, F31 repaired)                     full  `mock_init_body_never_empty`,
       `mock_client.py` compiles for a document without operations                             `mock_client_compiles_when_no_operation`
       other ways `mock_client.py` does not compile                                      ✗     `mock_duplicate_argument_counterexample`, `mock_self_argument_counterexample`
    6  `_<module>` differs from every property and from `config` / `transport`           ✗     `private_attr_names_distinct_from_public_partial`,
                                                                                               `private_attr_counterexample` (non-ASCII)
       … and from `_base_url`                                                            ✗     `private_attr_base_url_counterexample`, `private_attr_base_url_iff`
-/
namespace Pog.ClientGenProps
open Pog Pog.ClientGen

private def s (x : String) : Str := x.toList

/-- Every tag is ASCII or has an ASCII alphanumeric (`用户` is excluded, `données` and `-` are not). -/
def TagsOK (tagss : List (List Str)) : Prop :=
  ∀ ts ∈ tagss, ∀ t ∈ ts, t.all isAscii = true ∨ t.any isAlnumA = true

/-! ## The tag tuples -/

/-- `ClientVisitor.visit` never raises: `max(candidates)` is never applied to an empty list and `tag_map[key]` exists. -/
theorem visit_never_raises (u : UInfo) (tagss : List (List Str)) : tagTuplesRaw u tagss = some (tagTuples u tagss) :=
  tagTuplesRaw_eq u tagss

/-- There is exactly one tuple per normalised key that occurs (`ks` has no duplicates and contains exactly the keys of
    the tags of the operations, `default` for an untagged one), and the tuple of a key is built from the canonical tag
    of that key, which normalises to the key and is one of the tags that occur. -/
theorem tag_tuples_one_per_key (u : UInfo) (tagss : List (List Str)) :
    ∃ ks : List Str, ks.Nodup ∧ (∀ k, k ∈ ks ↔ ∃ ts ∈ tagss, ∃ t ∈ tagsOr ts, normTagKey u t = k) ∧
      tagTuples u tagss = ks.map (fun k => mkTuple u (canonicalTag u tagss k)) ∧
      ∀ k ∈ ks, normTagKey u (canonicalTag u tagss k) = k ∧ ∃ ts ∈ tagss, canonicalTag u tagss k ∈ tagsOr ts :=
  ⟨tupleKeys u tagss, tupleKeys_nodup u tagss, mem_tupleKeys u tagss, tagTuples_eq_map u tagss, canonicalTag_spec u tagss⟩

/-- `for key in sorted(tag_map)`: the tuples — hence the properties of all three classes — come in the code-point order of
    their normalised keys, whatever the order of the operations and of their tags. -/
theorem tag_tuples_sorted_by_key (u : UInfo) (tagss : List (List Str)) :
    ((tagTuples u tagss).map (fun t => normTagKey u t.tag)).Pairwise (fun a b => pyStrLe a b = true) := by
  rw [tagTuples_keys]
  exact tupleKeys_sorted u tagss

/-! ## 1 — every tag group has a property (C07) -/

/-- **C07.**  For every operation and every tag of it (or `default`), `APIClient` has a property named
    `sanitize_module_name(c)` that returns `sanitize_class_name(c) + "Client"`, where `c` is the canonical tag of the
    normalised key of that tag; `c` has the same key and is itself a tag of some operation. -/
theorem every_tag_group_has_a_property (u : UInfo) (tagss : List (List Str)) (ts : List Str) (hts : ts ∈ tagss)
    (t : Str) (ht : t ∈ tagsOr ts) :
    let c := canonicalTag u tagss (normTagKey u t)
    (sanModule u c, sanClass c ++ kClientSuffix) ∈ (apiClientSkel (tagTuples u tagss)).props ∧
      normTagKey u c = normTagKey u t ∧ ∃ ts' ∈ tagss, c ∈ tagsOr ts' := by
  intro c
  have hk : normTagKey u t ∈ tupleKeys u tagss := (mem_tupleKeys u tagss _).2 ⟨ts, hts, t, ht, rfl⟩
  obtain ⟨h1, h2⟩ := canonicalTag_spec u tagss _ hk
  refine ⟨?_, h1, h2⟩
  simp only [apiClientSkel_props, tagTuples_eq_map, List.map_map]
  exact List.mem_map.2 ⟨_, hk, rfl⟩

/-- The properties of `APIClient` are, in order, one per distinct normalised key: hence their number is the number of
    distinct keys. -/
theorem property_count (u : UInfo) (tagss : List (List Str)) :
    ∃ ks : List Str, ks.Nodup ∧ (∀ k, k ∈ ks ↔ ∃ ts ∈ tagss, ∃ t ∈ tagsOr ts, normTagKey u t = k) ∧
      (apiClientSkel (tagTuples u tagss)).props =
        ks.map (fun k => (sanModule u (canonicalTag u tagss k), sanClass (canonicalTag u tagss k) ++ kClientSuffix)) := by
  refine ⟨tupleKeys u tagss, tupleKeys_nodup u tagss, mem_tupleKeys u tagss, ?_⟩
  simp only [apiClientSkel_props, tagTuples_eq_map, List.map_map]
  rfl

/-- **C07.**  The properties of `APIClient` are exactly (up to the order `sorted(tag_map)`) the tag clients that
    `EndpointsEmitter.emit` writes for the same operations: property `<module>` returns class `<cls>` of
    `endpoints/<module>.py`.  Operation ids play no role. -/
theorem tag_clients_are_properties (u : UInfo) (ops : List TagOp) :
    ((apiClientSkel (tagTuples u (ops.map (·.tags)))).props).Perm ((groupEndpoints u ops).map fun g => (g.module, g.cls)) := by
  have h := (tagTuples_perm_groups_ops u ops).map (fun t : TagTuple => (t.module, t.cls))
  simpa [apiClientSkel_props, List.map_map, Function.comp_def, groupTuple, TagTuple.module, TagTuple.cls] using h

/-- Two operations, three spellings of one tag and an untagged operation. -/
example :
    (apiClientSkel (tagTuples UInfo.ascii [[s "Data Sources", s "admin-ops"], [s "dataSources"], []])).props =
      [(s "admin_ops", s "AdminOpsClient"), (s "data_sources", s "DataSourcesClient"), (s "default", s "DefaultClient")] := by
  decide

/-! ## 2 — property names (C20) -/

/-- ✗ `property_names_valid`: every property name is a valid identifier that is no keyword — false (`-`, `用户`).
    Partial: when every tag has an ASCII alphanumeric; then the returned class names are identifiers too. -/
theorem property_names_valid_partial (u : UInfo) (tagss : List (List Str))
    (h : ∀ ts ∈ tagss, ∀ t ∈ ts, t.any isAlnumA = true) :
    ∀ p ∈ (apiClientSkel (tagTuples u tagss)).props, isPyIdent p.1 = true ∧ isKeyword p.1 = false ∧
      visitSyntaxOk (tagTuples u tagss) = true := by
  have hall : ∀ t ∈ tagTuples u tagss, isPyIdent t.module = true ∧ isKeyword t.module = false := by
    intro t ht
    obtain ⟨h1, h2⟩ := tuple_of_tags u tagss (fun c => c.any isAlnumA = true) kDefaultTag_alnum h t ht
    rw [h1, tuple_module]
    exact sanModule_valid u _ h2
  intro p hp
  rw [apiClientSkel_props] at hp
  obtain ⟨t, ht, rfl⟩ := List.mem_map.1 hp
  refine ⟨(hall t ht).1, (hall t ht).2, ?_⟩
  unfold visitSyntaxOk
  rw [List.all_eq_true]
  intro t' ht'
  simp [isValidPyIdentifier, (hall t' ht').1, (hall t' ht').2]

example : ∀ ts ∈ [[s "Data Sources", s "class"], [s "1st"], []], ∀ t ∈ ts, t.any isAlnumA = true := by decide

/-- ✗ witness (defect class `client-syntax-error`): a tag without ASCII alphanumeric gives the property `def (self)`. -/
theorem property_names_valid_counterexample :
    (apiClientSkel (tagTuples UInfo.ascii [[s "-"]])).props = [([], s "UnnamedClassClient")] ∧
      visitSyntaxOk (tagTuples UInfo.ascii [[s "-"]]) = false ∧ mockSyntaxOk (mockTuples UInfo.ascii [[s "-"]]) = false := by
  decide

/-- No property is ever called `config` (the instance attribute): `config` is a reserved name, the sanitiser appends `_`.
    Every input, every case table; re-checked against the generated table `RESERVED_NAMES`. -/
theorem property_name_never_config (u : UInfo) (tagss : List (List Str)) :
    ∀ p ∈ (apiClientSkel (tagTuples u tagss)).props, p.1 ≠ kConfig := by
  intro p hp
  rw [apiClientSkel_props] at hp
  obtain ⟨t, ht, rfl⟩ := List.mem_map.1 hp
  obtain ⟨h1, _⟩ := mem_tagTuples_tag u tagss t ht
  rw [h1, tuple_module]
  exact sanModule_ne_reserved u _ kConfig (by decide) (by decide)

example : (apiClientSkel (tagTuples UInfo.ascii [[s "config"], [s "Config"]])).props = [(s "config_", s "Config_Client")] := by
  decide

/-- ✗ for arbitrary non-ASCII tags (`property_named_base_url_counterexample`).  Partial, `TagsOK`: a property is never called
    `_base_url`, `__aenter__`, `__aexit__` or `__init__`. -/
theorem property_names_avoid_dunder_partial (u : UInfo) (tagss : List (List Str)) (hok : TagsOK tagss) :
    ∀ p ∈ (apiClientSkel (tagTuples u tagss)).props, p.1 ∉ [kBaseUrl, kAenter, kAexit, kInit] := by
  intro p hp
  rw [apiClientSkel_props] at hp
  obtain ⟨t, ht, rfl⟩ := List.mem_map.1 hp
  obtain ⟨h1, h2⟩ := tuple_of_tags u tagss (fun c => c.all isAscii = true ∨ c.any isAlnumA = true)
    (.inr kDefaultTag_alnum) hok t ht
  have hm : ModOK t.module := by rw [h1, tuple_module]; exact sanModule_modOK u _ h2
  simp only [List.mem_cons, List.not_mem_nil, or_false, not_or]
  exact ⟨ne_of_modOK _ _ hm (by decide) (by decide), ne_of_modOK _ _ hm (by decide) (by decide),
    ne_of_modOK _ _ hm (by decide) (by decide), ne_of_modOK _ _ hm (by decide) (by decide)⟩

example : TagsOK [[s "données", s "-"], [s "base_url"]] := by
  intro ts hts t ht
  simp only [List.mem_cons, List.not_mem_nil, or_false] at hts
  rcases hts with rfl | rfl
  · simp only [List.mem_cons, List.not_mem_nil, or_false] at ht
    rcases ht with rfl | rfl
    · exact .inr (by decide)
    · exact .inl (by decide)
  · simp only [List.mem_cons, List.not_mem_nil, or_false] at ht
    subst ht
    exact .inl (by decide)

/-- A case table in which the non-ASCII word character `é` lower-cases to the text `_base_url` (no CPython does that;
    the theorems quantify over every table, so the hypothesis `TagsOK` cannot be dropped in the model). -/
def uOdd : UInfo := { UInfo.ascii with word := fun c => c == 'é', lower := fun c => if c == 'é' then s "_base_url" else [c] }

theorem property_named_base_url_counterexample :
    (apiClientSkel (tagTuples uOdd [[s "é"]])).props.map (·.1) = [kBaseUrl] := by
  decide

/-- ✗ `property_names`: a property name differs from the fixed methods and instance attributes — false.
    Witnesses (defect classes `property-shadowed-by-method`, `property-named-like-instance-attribute`): the tags `request`,
    `close`, `transport` are not reserved, so `APIClient` gets `@property def request` FOLLOWED by `async def request`
    (the tag client is unreachable), and `@property def transport` while `__init__` assigns `self.transport`
    (`AttributeError: property 'transport' … has no setter` on construction). -/
theorem property_names_counterexample :
    (apiClientSkel (tagTuples UInfo.ascii [[s "request"], [s "close", s "Transport"]])).props.map (·.1) =
      [kClose, kRequest, kTransport] ∧
    (apiClientSkel (tagTuples UInfo.ascii [[s "request"], [s "close", s "Transport"]])).methods = fixedMethods ∧
    kTransport ∈ (apiClientSkel (tagTuples UInfo.ascii [[s "request"], [s "close", s "Transport"]])).attrs := by
  decide

/-- `property_names` for the inputs the code gets right: `TagsOK`, and no tag group is called `request`, `close` or
    `transport`: then no property name is a fixed method, a fixed instance attribute or `__init__`. -/
theorem property_names_partial (u : UInfo) (tagss : List (List Str)) (hok : TagsOK tagss)
    (hx : ∀ t ∈ tagTuples u tagss, t.module ∉ [kRequest, kClose, kTransport]) :
    ∀ p ∈ (apiClientSkel (tagTuples u tagss)).props, p.1 ∉ fixedMethods ++ fixedAttrs ++ [kInit] := by
  intro p hp
  have h1 := property_name_never_config u tagss p hp
  have h2 := property_names_avoid_dunder_partial u tagss hok p hp
  rw [apiClientSkel_props] at hp
  obtain ⟨t, ht, rfl⟩ := List.mem_map.1 hp
  have h3 := hx t ht
  simp only [List.mem_cons, List.not_mem_nil, or_false, not_or] at h2 h3
  simp only [fixedMethods, fixedAttrs, List.cons_append, List.nil_append, List.mem_cons, List.not_mem_nil, or_false, not_or]
  exact ⟨h3.1, h3.2.1, h2.2.1, h2.2.2.1, h1, h3.2.2, h2.1, h2.2.2.2⟩

example : TagsOK [[s "Users", s "requests"], []] ∧
    ∀ t ∈ tagTuples UInfo.ascii [[s "Users", s "requests"], []], t.module ∉ [kRequest, kClose, kTransport] := by
  constructor
  · intro ts hts t ht
    simp only [List.mem_cons, List.not_mem_nil, or_false] at hts
    rcases hts with rfl | rfl
    · simp only [List.mem_cons, List.not_mem_nil, or_false] at ht
      rcases ht with rfl | rfl <;> exact .inl (by decide)
    · cases ht
  · decide

/-! ## 3 — pairwise distinct property names -/

/-- ✗ `property_names_pairwise_distinct` is false for non-ASCII tags.  Partial: ASCII tags — two different normalised keys
    never give the same module name (`Pog.normTagKey_eq_noUs_sanModule`: the key is the module name without underscores),
    e.g. `a1` / `a_1` and `dataSources` / `data_sources` share their KEY, hence their group. -/
theorem property_names_pairwise_distinct_partial (u : UInfo) (tagss : List (List Str))
    (hascii : ∀ ts ∈ tagss, ∀ t ∈ ts, t.all isAscii = true) :
    ((apiClientSkel (tagTuples u tagss)).props.map (·.1)).Nodup := by
  have hn := groupEndpoints_modules_nodup u (opsOfTags tagss) (by
    intro op hop t ht
    obtain ⟨ts, hts, rfl⟩ := (mem_opsOfTags tagss op).1 hop
    exact hascii ts hts t ht)
  have hp := (tagTuples_perm_groups u tagss).map (fun t : TagTuple => t.module)
  simp only [List.map_map] at hp
  simp only [apiClientSkel_props, List.map_map]
  exact hp.nodup_iff.2 hn

example : ∀ ts ∈ [[s "a1", s "a_1"], [s "dataSources"], [s "data_sources"]], ∀ t ∈ ts, t.all isAscii = true := by decide

example : (apiClientSkel (tagTuples UInfo.ascii [[s "a1", s "a_1"], [s "dataSources"], [s "data_sources"]])).props.map (·.1) =
    [s "a_1", s "data_sources"] := by decide

/-- CPython's view of `é`: a word character, lower-case of itself. -/
def uLatin : UInfo := { UInfo.ascii with word := fun c => c == 'é' }

/-- ✗ witness (defect class `duplicate-property-name`): the tags `aé` and `a` have different keys but the same module `a`
    and the same class `AClient`: two properties `a`, the first one is dead. -/
theorem property_names_pairwise_distinct_counterexample :
    (apiClientSkel (tagTuples uLatin [[s "aé"], [s "a"]])).props = [(s "a", s "AClient"), (s "a", s "AClient")] ∧
      propSurvives (apiClientSkel (tagTuples uLatin [[s "aé"], [s "a"]])) 0 = false := by
  decide

/-- ✗ `properties_survive`: every `@property` is still the attribute of that name in the finished class — false
    (`property_shadowed_counterexample`).  Partial: ASCII tags and no tag group called `request` or `close`. -/
theorem properties_survive_partial (u : UInfo) (tagss : List (List Str))
    (hascii : ∀ ts ∈ tagss, ∀ t ∈ ts, t.all isAscii = true)
    (hx : ∀ t ∈ tagTuples u tagss, t.module ∉ [kRequest, kClose])
    (i : Nat) (hi : i < (apiClientSkel (tagTuples u tagss)).props.length) :
    propSurvives (apiClientSkel (tagTuples u tagss)) i = true := by
  apply propSurvives_of _ (property_names_pairwise_distinct_partial u tagss hascii) _ i hi
  intro p hp
  have hok : TagsOK tagss := fun ts hts t ht => .inl (hascii ts hts t ht)
  have h2 := property_names_avoid_dunder_partial u tagss hok p hp
  rw [apiClientSkel_props] at hp
  obtain ⟨t, ht, rfl⟩ := List.mem_map.1 hp
  have h3 := hx t ht
  simp only [List.mem_cons, List.not_mem_nil, or_false, not_or] at h2 h3
  simp only [apiClientSkel_methods, fixedMethods, List.mem_cons, List.not_mem_nil, or_false, not_or]
  exact ⟨h3.1, h3.2, h2.2.1, h2.2.2.1⟩

theorem property_shadowed_counterexample :
    (apiClientSkel (tagTuples UInfo.ascii [[s "request"], [s "users"]])).props.map (·.1) = [kRequest, s "users"] ∧
      propSurvives (apiClientSkel (tagTuples UInfo.ascii [[s "request"], [s "users"]])) 0 = false ∧
      propSurvives (apiClientSkel (tagTuples UInfo.ascii [[s "request"], [s "users"]])) 1 = true := by
  decide

/-! ## 4 — the three surfaces (C13) -/

/-- **C13.**  Written from the same `tag_tuples` (as `ClientVisitor.visit` does for the Protocol and the implementation),
    the three classes expose the same property names in the same order; the property `<module>` returns `<Class>` in
    `APIClient` and `<Class>Protocol` in `APIClientProtocol` and `MockAPIClient`; `MockAPIClient.__init__` has exactly one
    keyword per property (same names, same order) whose default is `Mock<Class>()`; and the same four fixed methods. -/
theorem surfaces_agree (tt : List TagTuple) :
    (protocolSkel tt).props.map (·.1) = (apiClientSkel tt).props.map (·.1) ∧
    (mockClientSkel tt).props.map (·.1) = (apiClientSkel tt).props.map (·.1) ∧
    (protocolSkel tt).props.map (·.2) = (apiClientSkel tt).props.map (fun p => p.2 ++ kProtocolSuffix) ∧
    (mockClientSkel tt).props = (protocolSkel tt).props ∧
    (mockClientSkel tt).initParams = kSelf :: (mockClientSkel tt).props.map (·.1) ∧
    mockDefaults tt = (apiClientSkel tt).props.map (fun p => kMockPrefix ++ p.2) ∧
    (mockClientSkel tt).attrs = (mockClientSkel tt).props.map (fun p => privAttr p.1) ∧
    (protocolSkel tt).methods = (apiClientSkel tt).methods ∧ (mockClientSkel tt).methods = (apiClientSkel tt).methods := by
  simp [protocolSkel_props, apiClientSkel_props, mockClientSkel_props, mockClientSkel_initParams, mockClientSkel_attrs,
    protocolSkel_methods, apiClientSkel_methods, mockClientSkel_methods, mockDefaults, List.map_map, Function.comp_def]

/-- ✗ `mock_surface`: `MockAPIClient` (as `MocksEmitter.emit` calls the visitor: FIRST tag only, RAW tag string, insertion
    order) exposes the properties of `APIClient` — false.  Witnesses (defect classes `mock-groups-by-first-raw-tag`,
    `mock-client-props-order`): the second tag of an operation has no property; and even with one tag per operation the
    order differs (`APIClient` sorts by key). -/
theorem mock_surface_counterexample :
    (apiClientSkel (tagTuples UInfo.ascii [[s "Users", s "admin-ops"]])).props.map (·.1) = [s "admin_ops", s "users"] ∧
    (mockClientSkel (mockTuples UInfo.ascii [[s "Users", s "admin-ops"]])).props.map (·.1) = [s "users"] ∧
    (apiClientSkel (tagTuples UInfo.ascii [[s "b"], [s "a"]])).props.map (·.1) = [s "a", s "b"] ∧
    (mockClientSkel (mockTuples UInfo.ascii [[s "b"], [s "a"]])).props.map (·.1) = [s "b", s "a"] := by
  decide

/-- Witness 3 (defect class `mock-client-props-differ`): the empty tag is the group `""` for `APIClient` (module name `""`)
    but `default` for the mocks emitter. -/
theorem mock_surface_empty_tag_counterexample :
    (apiClientSkel (tagTuples UInfo.ascii [[[]]])).props = [([], s "UnnamedClassClient")] ∧
    (mockClientSkel (mockTuples UInfo.ascii [[[]]])).props = [(s "default", s "DefaultClientProtocol")] := by
  decide

/-- `mock_surface` restricted to the inputs the mocks emitter gets right (at most one tag per operation, no two distinct
    first tags sharing a key, no empty tag): the same property names up to order. -/
theorem mock_surface_partial (u : UInfo) (tagss : List (List Str)) (h1 : ∀ ts ∈ tagss, ts.length ≤ 1)
    (h2 : ∀ a ∈ tagss, ∀ b ∈ tagss,
      normTagKey u (a.head?.getD kDefaultTag) = normTagKey u (b.head?.getD kDefaultTag) → a.head?.getD kDefaultTag = b.head?.getD kDefaultTag)
    (h3 : ∀ ts ∈ tagss, [] ∉ ts) :
    ((apiClientSkel (tagTuples u tagss)).props.map (·.1)).Perm ((mockClientSkel (mockTuples u tagss)).props.map (·.1)) := by
  obtain ⟨L, hL, hp⟩ := clientProps_perm u (opsOfTags tagss)
  rw [clientProps_eq] at hL
  simp only [Option.some.injEq] at hL
  have hs := grouping_agree_of u (opsOfTags tagss)
    (by intro op hop; obtain ⟨ts, hts, rfl⟩ := (mem_opsOfTags tagss op).1 hop; exact h1 ts hts)
    (by
      intro a ha b hb
      obtain ⟨ta, hta, rfl⟩ := (mem_opsOfTags tagss a).1 ha
      obtain ⟨tb, htb, rfl⟩ := (mem_opsOfTags tagss b).1 hb
      exact h2 ta hta tb htb)
    (by intro op hop; obtain ⟨ts, hts, rfl⟩ := (mem_opsOfTags tagss op).1 hop; exact h3 ts hts)
  have hm : (groupEndpoints u (opsOfTags tagss)).map (·.module) = (groupMocks u (opsOfTags tagss)).map (·.module) := by
    have := congrArg (List.map (·.1)) hs
    simpa [surfaces, List.map_map, Function.comp_def] using this
  rw [hm, ← hL] at hp
  simpa [apiClientSkel_props, mockClientSkel_props, mockTuples, List.map_map, Function.comp_def, TagTuple.module] using hp

example :
    let tagss := [[s "Users"], [], [s "Users"], [s "admin-ops"]]
    (∀ ts ∈ tagss, ts.length ≤ 1) ∧
    (∀ a ∈ tagss, ∀ b ∈ tagss, normTagKey UInfo.ascii (a.head?.getD kDefaultTag) = normTagKey UInfo.ascii (b.head?.getD kDefaultTag) →
      a.head?.getD kDefaultTag = b.head?.getD kDefaultTag) ∧ (∀ ts ∈ tagss, [] ∉ ts) := by
  decide

/-! ## 5 — the body of `MockAPIClient.__init__` (C01, finding F31) -/

/-- **F31, repaired.**  The `__init__` of `MockAPIClient` never has an empty body (without tag clients it is `pass`), whichever of
    the two tuple lists it is written from; nor has the `__init__` of `APIClient`. -/
theorem mock_init_body_never_empty (u : UInfo) (tagss : List (List Str)) :
    (mockClientSkel (mockTuples u tagss)).initBodyEmpty = false ∧
    (mockClientSkel (tagTuples u tagss)).initBodyEmpty = false ∧
    (apiClientSkel (tagTuples u tagss)).initBodyEmpty = false :=
  ⟨rfl, rfl, rfl⟩

/-- The former witness (defect class `mock-client-empty-init`): a document without operations gives a `mock_client.py` that
    compiles, like `client.py`. -/
theorem mock_client_compiles_when_no_operation (u : UInfo) :
    mockSyntaxOk (mockTuples u []) = true ∧ visitSyntaxOk (tagTuples u []) = true ∧
      (mockClientSkel (mockTuples u [])).initParams = [kSelf] := by
  refine ⟨rfl, rfl, rfl⟩

/-- ✗ witness (defect class `mock-client-duplicate-argument`): the first tags `Users` and `users` are two groups of the mocks
    emitter with the same module name: `def __init__(self, users: …, users: …)`. -/
theorem mock_duplicate_argument_counterexample :
    (mockClientSkel (mockTuples UInfo.ascii [[s "Users"], [s "users"]])).initParams = [kSelf, s "users", s "users"] ∧
      mockSyntaxOk (mockTuples UInfo.ascii [[s "Users"], [s "users"]]) = false ∧
      visitSyntaxOk (tagTuples UInfo.ascii [[s "Users"], [s "users"]]) = true := by
  decide

/-- ✗ witness (defect class `mock-client-self-argument`): the tag `self` is the keyword `self` of `MockAPIClient.__init__`
    next to the receiver `self`. -/
theorem mock_self_argument_counterexample :
    (mockClientSkel (mockTuples UInfo.ascii [[s "self"]])).initParams = [kSelf, kSelf] ∧
      mockSyntaxOk (mockTuples UInfo.ascii [[s "self"]]) = false ∧ visitSyntaxOk (tagTuples UInfo.ascii [[s "self"]]) = true := by
  decide

/-! ## 6 — private attributes -/

/-- ✗ `private_attr_names_distinct_from_public` is false for non-ASCII tags (`private_attr_counterexample`) and for
    `_base_url` (`private_attr_base_url_counterexample`).  Partial, `TagsOK`: the private attribute `_<module>` of a tag
    client is never the name of a property, nor `config`, `transport`, nor a fixed method. -/
theorem private_attr_names_distinct_from_public_partial (u : UInfo) (tagss : List (List Str)) (hok : TagsOK tagss) :
    ∀ t ∈ tagTuples u tagss,
      privAttr t.module ∉ (apiClientSkel (tagTuples u tagss)).props.map (·.1) ∧
      privAttr t.module ≠ kConfig ∧ privAttr t.module ≠ kTransport ∧ privAttr t.module ∉ fixedMethods := by
  have hmod : ∀ t ∈ tagTuples u tagss, ModOK t.module ∧ (t.tag.all isAscii = true ∨ t.tag.any isAlnumA = true) ∧
      t = mkTuple u t.tag := by
    intro t ht
    obtain ⟨h1, h2⟩ := tuple_of_tags u tagss (fun c => c.all isAscii = true ∨ c.any isAlnumA = true)
      (.inr kDefaultTag_alnum) hok t ht
    exact ⟨by rw [h1, tuple_module]; exact sanModule_modOK u _ h2, h2, h1⟩
  intro t ht
  refine ⟨?_, ?_, ?_, ?_⟩
  · intro hmem
    simp only [apiClientSkel_props, List.map_map] at hmem
    obtain ⟨t', ht', heq⟩ := List.mem_map.1 hmem
    simp only [Function.comp_def] at heq
    obtain ⟨hm, hta, hte⟩ := hmod t ht
    obtain ⟨hm', hta', hte'⟩ := hmod t' ht'
    obtain ⟨hu, hu'⟩ := priv_eq_mod _ _ hm hm' heq.symm
    -- both module names consist of underscores only: both tags are ASCII without alphanumeric, both keys are empty
    have key0 : ∀ x ∈ tagTuples u tagss, allUsB x.module = true → normTagKey u x.tag = [] := by
      intro x hx hxu
      obtain ⟨_, hxa, hxe⟩ := hmod x hx
      have hna : x.tag.any isAlnumA = false := by
        cases ha : x.tag.any isAlnumA with
        | false => rfl
        | true =>
          have := modHead_not_allUs _ (sanModule_modHead u x.tag ha)
          rw [hxe, tuple_module] at hxu
          rw [hxu] at this; cases this
      have hasc : x.tag.all isAscii = true := by
        rcases hxa with h | h
        · exact h
        · rw [hna] at h; cases h
      rw [normTagKey_eq_noUs_sanModule u _ hasc]
      apply noUs_of_all_us
      exact sanModule_all_us u _ hasc hna
    have hk := key0 t ht hu
    have hk' := key0 t' ht' hu'
    obtain ⟨k, hkm, hkt⟩ := mem_tagTuples u tagss t ht
    obtain ⟨k', hkm', hkt'⟩ := mem_tagTuples u tagss t' ht'
    have e1 : k = [] := by
      rw [← (canonicalTag_spec u tagss k hkm).1, ← hk, hkt]; rfl
    have e2 : k' = [] := by
      rw [← (canonicalTag_spec u tagss k' hkm').1, ← hk', hkt']; rfl
    have : t = t' := by rw [hkt, hkt', e1, e2]
    subst this
    have := congrArg List.length heq
    simp [privAttr] at this
  · intro h; unfold privAttr at h; revert h; unfold kConfig; simp
  · intro h; unfold privAttr at h; revert h; unfold kTransport; simp
  · obtain ⟨hm, _, _⟩ := hmod t ht
    have hne : ∀ x : Str, modHeadB x = false → allUsB x = false → privAttr t.module ≠ '_' :: x := by
      intro x h1 h2 h
      unfold privAttr at h
      exact ne_of_modOK _ _ hm h1 h2 (List.cons.inj h).2
    simp only [fixedMethods, List.mem_cons, List.not_mem_nil, or_false, not_or]
    refine ⟨?_, ?_, hne (s "_aenter__") (by decide) (by decide), hne (s "_aexit__") (by decide) (by decide)⟩
    · intro h; unfold privAttr at h; revert h; unfold kRequest; simp
    · intro h; unfold privAttr at h; revert h; unfold kClose; simp

/-- ✗ witness (defect class `private-attr-collision`, found by this model): a tag group whose module name is `base_url`
    (`base_url`, `base-url`, `BaseUrl`, `base url` …) stores its lazily built client in `self._base_url` — the attribute that
    holds the base URL: `__init__` overwrites the URL with `None`, and every tag client is then built with the `BaseUrlClient`
    (or `None`) as its `base_url`. -/
theorem private_attr_base_url_counterexample :
    (apiClientSkel (tagTuples UInfo.ascii [[s "base-url"], [s "users"]])).attrs =
      [kConfig, kTransport, kBaseUrl, kBaseUrl, s "_users"] := by
  decide

/-- … and that is the only way: `_<module>` is `_base_url` iff the module name is `base_url`. -/
theorem private_attr_base_url_iff (m : Str) : privAttr m = kBaseUrl ↔ m = s "base_url" := by
  unfold privAttr
  constructor
  · intro h; exact (List.cons.inj h).2
  · rintro rfl; rfl

/-- CPython's view of the Kelvin sign (U+212A, `'\u212a'`): a word character whose lower case is the ASCII letter `k`; `é` is a
    word character. -/
def uKelvin : UInfo :=
  { UInfo.ascii with word := fun c => c == '\u212a' || c == 'é', lower := fun c => if c == '\u212a' then ['k'] else [c] }

/-- ✗ witness (non-ASCII, defect class `private-attr-collision`): the tags `ké` and `_` + Kelvin sign have the keys `ké`
    and `k`, the modules `k` and `_k`: the private attribute of the first is the property of the second. -/
theorem private_attr_counterexample :
    (apiClientSkel (tagTuples uKelvin [[s "ké"], [['_', '\u212a']]])).props.map (·.1) = [s "_k", s "k"] ∧
    (apiClientSkel (tagTuples uKelvin [[s "ké"], [['_', '\u212a']]])).attrs.drop 3 = [s "__k", s "_k"] := by
  decide

end Pog.ClientGenProps
