"""End-to-end rig: document -> real generator (in-process) -> fresh interpreter probe (import / surface / calls)."""
from __future__ import annotations

import concurrent.futures as cf
import hashlib
import json
import os
import shutil
import subprocess
import sys
import tempfile
from pathlib import Path

from . import common

PROBE = Path(__file__).resolve().parent / "probe.py"


class _Merge:
    """An operation / path item written as `<<: *anchor` plus its own keys (YAML merge key)."""
    def __init__(self, base: dict, own: dict):
        self.base, self.own = base, own


def _merge_doc(doc: dict):
    """The same document with YAML merge keys: operations that share `tags` (or `responses`) take them from one anchored
    mapping under `x-common`; a path item whose operations are shared with another path takes them from an anchor too.
    yaml.safe_load flattens merge keys, so the loaded document equals `doc` plus the `x-common` extension key."""
    import yaml
    d = json.loads(json.dumps(doc))
    commons: list = []
    by_key: dict = {}
    for p, item in d.get("paths", {}).items():
        for m, op in list(item.items()):
            if not isinstance(op, dict) or m == "parameters":
                continue
            shared = {k: op[k] for k in ("tags",) if k in op}
            if not shared:
                continue
            key = json.dumps(shared, sort_keys=True)
            if key not in by_key:
                by_key[key] = shared
                commons.append(shared)
            own = {k: v for k, v in op.items() if k not in shared}
            item[m] = _Merge(by_key[key], own)
    d["x-common"] = commons

    class D(yaml.SafeDumper):
        pass

    def rep(dumper, data: _Merge):
        key = yaml.ScalarNode("tag:yaml.org,2002:merge", "<<")
        pairs = [(key, dumper.represent_data(data.base))]
        for k, v in data.own.items():
            pairs.append((dumper.represent_data(k), dumper.represent_data(v)))
        return yaml.MappingNode("tag:yaml.org,2002:map", pairs, flow_style=False)
    D.add_representer(_Merge, rep)
    return yaml.dump(d, Dumper=D, default_flow_style=False, allow_unicode=True, sort_keys=False)


def write_spec(doc: dict, path: Path, fmt: str = "json") -> None:
    if fmt == "json":
        path.write_text(json.dumps(doc, indent=1, ensure_ascii=False), encoding="utf-8")
    elif fmt == "yaml-merge":
        path.write_text(_merge_doc(doc), encoding="utf-8")
    else:
        import yaml
        if fmt == "yaml-flow":
            path.write_text(yaml.safe_dump(doc, default_flow_style=True, allow_unicode=True, sort_keys=False, width=10000), encoding="utf-8")
        else:
            path.write_text(yaml.safe_dump(doc, default_flow_style=False, allow_unicode=True, sort_keys=False), encoding="utf-8")


def generate(doc: dict | None, root: Path, package: str = "client", core: str | None = None, strategy: str = "operationId",
             force: bool = True, fmt: str = "json", spec_path: Path | None = None) -> dict:
    """Run the real generator in this process.  Returns {"ok", "error", "files"}."""
    common.use_repo_src()
    import io
    import contextlib
    import logging
    import warnings

    from pyopenapi_gen import generate_client
    from pyopenapi_gen.ir import NamingStrategy

    root.mkdir(parents=True, exist_ok=True)
    if spec_path is None:
        spec_path = root.parent / (root.name + ("-spec.json" if fmt == "json" else "-spec.yaml"))
        write_spec(doc, spec_path, fmt)
    logging.disable(logging.CRITICAL)
    buf = io.StringIO()
    try:
        with warnings.catch_warnings(record=True) as w, contextlib.redirect_stdout(buf), contextlib.redirect_stderr(buf):
            warnings.simplefilter("always")
            files = generate_client(str(spec_path), str(root), package, core_package=core, force=force, no_postprocess=True,
                                    naming_strategy=NamingStrategy(strategy))
        return {"ok": True, "error": None, "files": [str(f) for f in files], "warnings": [str(x.message)[:300] for x in w][:50],
                "stdout": buf.getvalue()[-2000:]}
    except BaseException as e:  # GenerationError or anything else: "generation did not return"
        return {"ok": False, "error": f"{type(e).__name__}: {str(e)[:600]}", "files": [], "warnings": [], "stdout": buf.getvalue()[-2000:]}


def probe(root: Path, package: str, core: str | None, tasks: list, timeout: int = 120, hashseed: str | None = None) -> dict:
    job = {"root": str(root), "package": package, "core": core or package + ".core", "tasks": tasks}
    jf = root.parent / (root.name + "-job.json")
    jf.write_text(json.dumps(job))
    env = {k: v for k, v in os.environ.items() if k not in ("PYTHONPATH",)}
    env["PYTHONDONTWRITEBYTECODE"] = "1"
    if hashseed is not None:
        env["PYTHONHASHSEED"] = hashseed
    try:
        p = subprocess.run([common.PY, str(PROBE), str(jf)], capture_output=True, text=True, timeout=timeout, env=env, cwd=str(root))
    except subprocess.TimeoutExpired:
        return {"probe_error": "timeout"}
    finally:
        jf.unlink(missing_ok=True)
    if p.returncode != 0:
        return {"probe_error": f"rc={p.returncode}", "stderr": p.stderr[-2000:]}
    try:
        return json.loads(p.stdout)
    except Exception:
        return {"probe_error": "bad json", "stdout": p.stdout[-500:], "stderr": p.stderr[-1000:]}


def tree_hashes(base: Path) -> dict[str, str]:
    out = {}
    for f in sorted(base.rglob("*")):
        if f.is_file() and "__pycache__" not in f.parts:
            out[str(f.relative_to(base))] = hashlib.sha256(f.read_bytes()).hexdigest()
    return out


def syntax_errors(root: Path) -> list[dict]:
    bad = []
    for f in sorted(root.rglob("*.py")):
        try:
            compile(f.read_text(encoding="utf-8"), str(f), "exec", dont_inherit=True)
        except SyntaxError as e:
            bad.append({"file": str(f.relative_to(root)), "error": f"SyntaxError: {e.msg} (line {e.lineno})", "line": (e.text or "")[:200]})
        except Exception as e:  # e.g. null bytes
            bad.append({"file": str(f.relative_to(root)), "error": f"{type(e).__name__}: {e}"})
    return bad


# --------------------------------------------------------------------------------------------- worker pool
def _case_worker(args):
    fn_path, case = args
    common.scratch()
    common.use_repo_src()
    import importlib
    import logging
    import warnings
    logging.disable(logging.CRITICAL)
    warnings.simplefilter("ignore")
    modname, fname = fn_path.rsplit(":", 1)
    fn = getattr(importlib.import_module(modname), fname)
    d = Path(tempfile.mkdtemp(prefix="case-", dir=str(common.scratch())))
    try:
        return fn(case, d)
    except BaseException as e:
        import traceback
        return {"infra_error": f"{type(e).__name__}: {e}", "tb": traceback.format_exc()[-2000:]}
    finally:
        shutil.rmtree(d, ignore_errors=True)
        # the generator's debug log grows without bound
        log = Path(os.environ.get("TMPDIR", "/tmp")) / "pyopenapi_gen_file_write_debug.log"
        try:
            if log.exists() and log.stat().st_size > 5_000_000:
                log.unlink()
        except OSError:
            pass


def run_cases(fn_path: str, cases: list, workers: int | None = None) -> list:
    """Run `module:function(case, scratch_dir)` for every case in a process pool (each worker has its own scratch)."""
    workers = workers or min(16, os.cpu_count() or 4, max(1, len(cases)))
    if workers <= 1 or len(cases) <= 1:
        return [_case_worker((fn_path, c)) for c in cases]
    import multiprocessing as mp
    ctx = mp.get_context("spawn")
    with cf.ProcessPoolExecutor(max_workers=workers, mp_context=ctx) as ex:
        return list(ex.map(_case_worker, [(fn_path, c) for c in cases], chunksize=1))
