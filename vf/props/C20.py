"""C20 — name derivation is total, valid and collision-safe.

tie      : tables (RESERVED_NAMES, keyword.kwlist) regenerated; correspondence of every sanitiser and
           every suffix loop (real code in-process) against the Lean model.
oracle   : str.isidentifier() / keyword.iskeyword() on every derived name, Nodup of every namespace.
"""
from __future__ import annotations

import ast
import keyword
import re

from ..common import Run, rng
from ..gen import strings as gs
from .. import findings

PROP = "C20"


def _impl():
    from pyopenapi_gen.core.utils import NameSanitizer
    return NameSanitizer


def has_ascii_alnum(s: str) -> bool:
    return any(c.isascii() and c.isalnum() for c in s)


def valid_ident(n: str) -> bool:
    return bool(n) and n.isidentifier() and not keyword.iskeyword(n)


# ---------------------------------------------------------------------------------------------
# real-code drivers for the suffix loops
def impl_field_names(props: list[str]) -> list[str] | str:
    """Field identifiers (emission order) + the Meta wire-key map, through DataclassGenerator.generate."""
    from pyopenapi_gen import IRSchema
    from pyopenapi_gen.context.render_context import RenderContext
    from pyopenapi_gen.core.writers.python_construct_renderer import PythonConstructRenderer
    from pyopenapi_gen.visit.model.dataclass_generator import DataclassGenerator

    schema = IRSchema(name="T", type="object", properties={p: IRSchema(type="string") for p in props}, required=[])
    gen = DataclassGenerator(PythonConstructRenderer(), {})
    code = gen.generate(schema, "T", RenderContext())
    tree = ast.parse(code)
    cls = next(n for n in ast.walk(tree) if isinstance(n, ast.ClassDef) and n.name == "T")
    return [n.target.id for n in cls.body if isinstance(n, ast.AnnAssign) and isinstance(n.target, ast.Name)]


def impl_enum_member_names(values: list[str]) -> list[str]:
    from pyopenapi_gen import IRSchema
    from pyopenapi_gen.context.render_context import RenderContext
    from pyopenapi_gen.core.writers.python_construct_renderer import PythonConstructRenderer
    from pyopenapi_gen.visit.model.enum_generator import EnumGenerator

    captured = {}

    class R(PythonConstructRenderer):
        def render_enum(self, enum_name, base_type, values, description, context):  # type: ignore[override]
            captured["values"] = list(values)
            return super().render_enum(enum_name, base_type, [(n, "x") for n, _ in values], description, context)

    g = EnumGenerator(R())
    g.generate(IRSchema(name="E", type="string", enum=list(values)), "E", RenderContext())
    return [n for n, _ in captured["values"]]


def impl_decollide(names: list[str]) -> tuple[list[str], list[str]]:
    """Class names and module stems assigned by ModelsEmitter.emit (in de-collision order = sorted by name)."""
    import tempfile

    from pyopenapi_gen import IRSchema, IRSpec
    from pyopenapi_gen.context.render_context import RenderContext
    from pyopenapi_gen.emitters.models_emitter import ModelsEmitter

    schemas = {n: IRSchema(name=n, type="object", properties={"a": IRSchema(type="string")}) for n in names}
    spec = IRSpec(title="t", version="1", schemas=schemas, operations=[], servers=[])
    with tempfile.TemporaryDirectory() as d:
        ctx = RenderContext(core_package_name="core", package_root_for_generated_code=d, overall_project_root=d,
                            parsed_schemas=schemas)
        ModelsEmitter(ctx, schemas).emit(spec, d)
    order = sorted(schemas.values(), key=lambda s: s.name or "")  # the emitter's order: stable sort by IRSchema.name
    return [s.generation_name for s in order], [s.final_module_stem for s in order]


def decollision_input(names: list[str]) -> list[str]:
    """IRSchema.__post_init__ has already replaced .name by sanitize_class_name(raw); the emitter sorts by it."""
    NS = _impl()
    return sorted(NS.sanitize_class_name(n) for n in names)


def impl_dedup_op_ids(ids: list[str]) -> list[str]:
    from pyopenapi_gen import HTTPMethod, IROperation
    from pyopenapi_gen.context.render_context import RenderContext
    from pyopenapi_gen.emitters.endpoints_emitter import EndpointsEmitter

    import random as _r
    rr = _r.Random(repr(ids))   # tags are irrelevant to the (global) pass: give every operation 0-2 random tags
    ops = [IROperation(operation_id=i, method=HTTPMethod.GET, path="/x", summary=None, description=None,
                       tags=rr.sample(["users", "admin", "pets"], rr.randint(0, 2))) for i in ids]
    EndpointsEmitter(RenderContext())._deduplicate_operation_ids_globally(ops)
    return [o.operation_id for o in ops]


# ---------------------------------------------------------------------------------------------
UNARY = {
    # model function -> (impl callable factory, needs uinfo)
    "sanClass": lambda NS: NS.sanitize_class_name,
    "sanModule": lambda NS: NS.sanitize_module_name,
    "sanMethod": lambda NS: NS.sanitize_method_name,
    "normTagKey": lambda NS: NS.normalize_tag_key,
    "sanTagAttr": lambda NS: NS.sanitize_tag_attr_name,
    "isValidPyIdentifier": lambda NS: NS.is_valid_python_identifier,
}


def _enum_impl():
    from pyopenapi_gen.core.writers.python_construct_renderer import PythonConstructRenderer
    from pyopenapi_gen.visit.model.enum_generator import EnumGenerator
    g = EnumGenerator(PythonConstructRenderer())

    def f(v):
        try:
            return g._generate_member_name_for_string_enum(v)
        except ValueError:
            return None
    return f


def inputs(ctx, r):
    maxlen = 4 if not (ctx.thorough or ctx.widen) else 5
    ex = list(gs.exhaustive(maxlen=3 if not (ctx.thorough or ctx.widen) else 4))
    # quick: all strings ≤3 over 13 symbols (2380) + a seeded sample of length-4 ones; thorough: all ≤4 + sample of 5
    alpha = gs.ALPHABET13
    extra = ["".join(r.choice(alpha) for _ in range(maxlen)) for _ in range(ctx.budget(6000, 60000))]
    rnd = [gs.random_name(r) for _ in range(ctx.budget(6000, 60000))]
    corpus = ["none", "true", "false", "None", "", "$", "_", "__", "-", "用户", "²", "1a", "class", "type", "Type", "HTTPServer",
              "getHTTPResponse2xx", "a__b", "_a_", "ABc", "ABCd", "aBC", "{id}", "foo_2", "ǅ", "ß", "ﬁx", "İ", "x٣", "٣"]
    seen = set()
    out = []
    for s in corpus + ex + extra + rnd:
        if s not in seen and "Σ" not in s:
            seen.add(s)
            out.append(s)
    return out


def check(run: Run, ctx) -> None:
    r = rng("C20")
    NS = _impl()
    drv = ctx.driver
    known = findings.Known(run, PROP)
    run.cov["rule"] = ("correspondence: every string of length ≤3 (quick) / ≤4 (thorough) over the 13-symbol alphabet "
                       "{a,b,A,B,0,1,_,-,space,.,$,é,用} exhaustively, plus seeded longer samples and random Unicode; a case is "
                       "distinct by (function,input) and non-trivial when the derived name differs from the input; "
                       "suffix loops: random namespaces from colliding pools, non-trivial when at least one suffix was assigned; "
                       "e2e: seeded documents with keyword-like tags (import, global, class, async, None) and the tags named like APIClient's own members "
                       "(config; request, close, transport, base-url, self - F64 repaired) -> generated package imported, "
                       "APIClient constructed, every tag attribute a non-keyword identifier yielding its tag client")
    run.assumptions += [
        "CPython's \\w / str.lower / str.upper / str.isdigit for non-ASCII characters are supplied to the model by the harness "
        "(UInfo), U+03A3 (context-dependent lower()) and lone surrogates are excluded from generators",
    ]
    # names invented by the inline-extraction passes (…Item / …Enum + suffix loops): real extract_inline_enums vs Pog.Extract
    from . import _generic as g
    g.run_corr(run, ctx, "vf.corr.extract", "Extract (extract_inline_array_items / extract_inline_enums / model kind vs Pog.Extract)", quick=0.3, thorough=3.0)
    g.run_oracle(run, ctx, g.Informational(known), "vf.corr.extract", "extraction passes on the real functions (keys kept, new names fresh, wire keys unchanged)",
                 {"extract-not-idempotent": "-hazard", "extract-wire-array-flip": "-hazard"}, quick=0.3, thorough=3.0)
    strs = inputs(ctx, r)
    u = drv.uinfo(strs)
    run.cov["exhaustive"] = False
    enum_impl = _enum_impl()
    fns = {k: v(NS) for k, v in UNARY.items()}
    fns["enumMemberStr"] = enum_impl
    # ---- unary correspondences + oracle --------------------------------------------------
    for fname, impl in fns.items():
        reqs = [{"f": fname, "a": [s], "u": {k: u[k] for k in {str(ord(c)) for c in s if ord(c) >= 128}}} for s in strs]
        model = drv.batch(reqs)
        bad = 0
        for s, m in zip(strs, model):
            try:
                i = impl(s)
            except Exception as e:  # totality is part of the property
                i = f"<raises {type(e).__name__}>"
            run.count([fname, s], nontrivial=(i != s))
            run.dist("function", fname)
            if i != m:
                bad += 1
                ctx.corr_fail(f"Names.{fname}", s, i, m)
        run.cov["traces_validated_against_impl"] += len(strs)
        run.sample({"f": fname, "in": strs[len(strs) // 3], "impl": impl(strs[len(strs) // 3])}, limit=12)
    # direct oracle on the implementation
    for s in strs:
        oracle_unary(run, known, NS, enum_impl, s)
    cleanop_corr(run, ctx, NS, r)
    loops(run, ctx, r, known)
    e2e_identifiers(run, ctx, known)
    known.replay_witnesses(lambda fid, w: replay(run, ctx, {"case": w}))
    known.report_unreplayed()


# classes of C07.judge that concern the derived identifiers ("apiclient-properties": a tag attribute that is not a property of the finished
# APIClient any more - another member of the class took its name)
E2E_CLASSES = ("apiclient-property-name", "apiclient-unreachable", "apiclient-properties", "method-name")


def e2e_identifiers(run, ctx, known) -> None:
    """End to end: the identifiers the generator DERIVES and emits (method names, APIClient tag attributes incl. keyword-like tags and the
    tag `config`, module/class names) are usable - the package parses, every tag attribute is a non-keyword identifier that yields its tag
    client on a constructed APIClient."""
    from .. import e2e as _e2e
    from ..gen import spec as gs
    from . import C07
    cases = []
    for i in range(ctx.budget(8, 80)):
        rr = rng(f"C20:e2e:{i}")
        doc = gs.gen_spec(rr, gs.Opts(mainstream=True, max_ops=5, multi_tags=False, always_opid=(i % 2 == 0), streaming=False))
        # make sure the keyword-like / self-clashing tags occur
        ops = [op for it in doc["paths"].values() for m, op in it.items() if m != "parameters" and isinstance(op, dict)]
        # (F64 repaired: the tags named like APIClient's own members are ordinary inputs now)
        for op, t in zip(ops, rr.sample(["import", "global", "config", "class", "async", "None"] + C07.FORMER_F64_TAGS, min(len(ops), 2))):
            op["tags"] = [t]
        cases.append({"id": f"c20-e2e-{i}", "doc": doc, "strategy": ["operationId", "clean", "path"][i % 3], "fmt": "json", "dup_ids": False, "int_status_keys": False})
    # F64 repaired: the former witnesses (tags request / close / transport / base-url / self in one document)
    for i in range(ctx.budget(2, 6)):
        cases.append({"id": f"c20-e2e-former-F64-{i}", "doc": C07.former_f64_doc(i), "strategy": ["operationId", "clean", "path"][i % 3], "fmt": "json",
                      "dup_ids": False, "int_status_keys": False})
    # F4 repaired: a parameter declared at path level AND at operation level (same name, same `in`) is ONE argument of the method - the
    # former witness and the same feature injected into generated documents (a duplicate argument is a SyntaxError: a violation)
    from . import C01
    cases.append({"id": "c20-e2e-former-F4", "doc": C01.witness_doc("F4"), "strategy": "operationId", "fmt": "json", "dup_ids": False, "int_status_keys": False})
    for i in range(ctx.budget(4, 30)):
        rr = rng(f"C20:e2e-override:{i}")
        doc = gs.gen_spec(rr, gs.Opts(mainstream=True, max_ops=5, multi_tags=False, always_opid=(i % 2 == 0), streaming=False))
        if C01.inject_param_override(doc, rr):
            cases.append({"id": f"c20-e2e-override-{i}", "doc": doc, "strategy": ["operationId", "clean", "path"][i % 3], "fmt": "json", "dup_ids": False, "int_status_keys": False})
    results = _e2e.run_cases("vf.props.C07:case_fn", cases)
    for case, res in zip(cases, results):
        if "infra_error" in res:
            run.infra_errors.append(res["infra_error"])
            continue
        run.count({"e2e": case["doc"]}, nontrivial=True)
        run.cov["traces_validated_against_impl"] += 1
        if not res.get("gen_ok"):
            continue
        fails = [(c, m) for c, m in C07.judge(case, res) if c in E2E_CLASSES or (c == "does-not-import" and "SyntaxError" in m)]
        for cls, msg in fails[:2]:
            if len(run.violations) < 5:
                run.violation("input", {"f": "e2e", "doc": case["doc"], "strategy": case["strategy"]}, observed=msg,
                              expected="every derived identifier is a valid, non-keyword, unique identifier", what=f"e2e {cls}: {msg[:300]}")


def oracle_unary(run, known, NS, enum_impl, s: str) -> None:
    cls = NS.sanitize_class_name(s)
    if not valid_ident(cls):
        if cls in ("None", "True", "False") and known.listed("F28"):
            known.hit("F28", {"f": "sanitize_class_name", "in": s, "out": cls})
        else:
            run.violation("input", {"f": "sanitize_class_name", "in": s}, observed=cls,
                          expected="a non-keyword identifier", what=f"sanitize_class_name({s!r}) = {cls!r}")
    for fn, name in ((NS.sanitize_method_name, "sanitize_method_name"), (NS.sanitize_module_name, "sanitize_module_name")):
        out = fn(s)
        if not valid_ident(out):
            if not has_ascii_alnum(s):
                known.hit("F29", {"f": name, "in": s, "out": out})
            else:
                run.violation("input", {"f": name, "in": s}, observed=out, expected="a non-keyword identifier",
                              what=f"{name}({s!r}) = {out!r}")
    m = enum_impl(s)
    if m is None or not valid_ident(m):
        run.violation("input", {"f": "enum member name", "in": s}, observed=m, expected="a non-keyword identifier",
                      what=f"enum member name for {s!r} = {m!r}")


def cleanop_corr(run, ctx, NS, r) -> None:
    drv = ctx.driver
    cases = []
    methods = ["get", "post", "put", "delete", "patch", "GET", "Post"]
    for _ in range(ctx.budget(3000, 30000)):
        segs = [r.choice(["users", "user-items", "{id}", "{user_id}", "v1", "a.b", "details", "X", "_", ""]) for _ in range(r.randint(0, 3))]
        path = "/" + "/".join(segs) + r.choice(["", "/"])
        m = r.choice(methods)
        norm = re.sub(r"_+", "_", re.sub(r"[^0-9a-zA-Z_]", "_", re.sub(r"[{}]", "", path.strip("/")))).strip("_").lower()
        k = r.random()
        handler = r.choice(["create_details", "get", "listUsers", "x", "", "read_user_items"])
        if k < 0.45:
            op = f"{handler}_{norm}_{m.lower()}"
        elif k < 0.6:
            op = f"{handler}_{norm}_{m.upper()}"
        elif k < 0.7:
            op = f"_{norm}_{m.lower()}"
        elif k < 0.8:
            op = f"{handler}_{m.lower()}"
        else:
            op = gs.random_name(r)
            if not op.isascii():
                op = handler
        cases.append((op, m, path))
    model = drv.batch([{"f": "cleanOpId", "a": list(c)} for c in cases])
    for c, mo in zip(cases, model):
        i = NS.clean_auto_generated_operation_id(*c)
        run.count(["cleanOpId", c], nontrivial=(i != c[0]))
        if i != mo:
            ctx.corr_fail("Names.cleanOpId", c, i, mo)
    run.cov["traces_validated_against_impl"] += len(cases)
    run.dist("function", "cleanOpId", len(cases))


FORMER_F17 = [["foo", "foo", "foo_2"], ["foo", "foo", "foo_2", "foo_2_2"], ["foo_2", "foo", "foo"], ["getItem", "get_item", "get_item_2", "getItem_2_2"],
              ["foo", "foo", "foo_2", "foo_2", "foo"], ["$", "$", "_2"], ["x", "X", "x_2", "x", "x_3"]]


def loops(run, ctx, r, known) -> None:
    drv = ctx.driver
    n = ctx.budget(150, 1500)
    reqs, impls, tags = [], [], []
    for i in range(n):
        pool = gs.colliding_pool(r)
        k = r.randint(2, 7)
        names = [r.choice(pool) for _ in range(k)]
        uniq = list(dict.fromkeys(names))
        # --- fields: python sorts by (not required, name); none are required here
        props = sorted(uniq)
        reqs.append({"f": "fieldNames", "a": [props]}); impls.append(("fieldNames", props, lambda p=props: impl_field_names(p)))
        # --- enum members: model works on the derived base names
        vals = uniq
        reqs.append({"f": "enumMemberNamesOfValues", "a": [vals]}); impls.append(("enumMemberNames", vals, lambda v=vals: impl_enum_member_names(v)))
        # --- op ids (duplicates allowed: two operations may carry the same id)
        reqs.append({"f": "dedupOpIds", "a": [names]}); impls.append(("dedupOpIds", names, lambda x=names: impl_dedup_op_ids(x)))
        if i < len(FORMER_F17):   # the inputs that used to end with two operations under one method name (F17, repaired)
            w = FORMER_F17[i]
            reqs.append({"f": "dedupOpIds", "a": [w]}); impls.append(("dedupOpIds", w, lambda x=w: impl_dedup_op_ids(x)))
        if i % 3 == 0:
            order = decollision_input(uniq)
            reqs.append({"f": "classNames", "a": [order]}); impls.append(("classNames", uniq, lambda x=uniq: impl_decollide(x)[0]))
            reqs.append({"f": "moduleStems", "a": [order]}); impls.append(("moduleStems", uniq, lambda x=uniq: impl_decollide(x)[1]))
    model = drv.batch(reqs)
    for (fname, case, thunk), mo in zip(impls, model):
        try:
            i = thunk()
        except Exception as e:
            i = f"<raises {type(e).__name__}: {e}>"
        nontrivial = isinstance(i, list) and any(re.search(r"\d$", x or "") for x in i)
        run.count([fname, case], nontrivial=nontrivial)
        run.dist("function", fname)
        if i != mo:
            ctx.corr_fail(f"Fresh.{fname}", case, i, mo)
        run.cov["traces_validated_against_impl"] += 1
        if nontrivial:
            run.sample({"f": fname, "in": case, "impl": i}, limit=16)
        # ---- oracle: distinct, valid, nothing dropped
        if isinstance(i, list) and fname != "dedupOpIds":
            if len(i) != len(case) or len(set(i)) != len(i) or not all(valid_ident(x or "") for x in i):
                run.violation("input", {"f": fname, "in": case}, observed=i,
                              expected="pairwise distinct valid identifiers, one per input",
                              what=f"{fname}: names not distinct/valid: {i}")
        if isinstance(i, list) and fname == "dedupOpIds":
            NS = _impl()
            meth = [NS.sanitize_method_name(x) for x in i]
            if len(i) != len(case) or len(set(meth)) != len(meth):
                # (F17 - a suffixed id colliding with an id that already carries that suffix - is repaired: every clash is a violation)
                run.violation("input", {"f": "dedupOpIds", "in": case}, observed=meth, expected="pairwise distinct method names, one per operation",
                              what=f"operation ids {case} give duplicate method names {meth}")


def search(run: Run, ctx) -> None:
    """Widened failing-input search after a broken proof / correspondence: rerun with thorough budgets."""
    ctx.corr_failures_backup = list(ctx.corr_failures)
    check(run, ctx)


def replay(run: Run, ctx, rec) -> bool:
    case = rec.get("case") or {}
    NS = _impl()
    f, s = case.get("f"), case.get("in")
    if f == "e2e":
        from .. import e2e as _e2e
        from . import C07
        c = {"id": "replay", "doc": case["doc"], "strategy": case.get("strategy", "operationId"), "fmt": "json", "dup_ids": False, "int_status_keys": False}
        res = _e2e.run_cases("vf.props.C07:case_fn", [c], workers=1)[0]
        return bool(res.get("gen_ok") and [1 for cl, m in C07.judge(c, res) if cl in E2E_CLASSES or (cl == "does-not-import" and "SyntaxError" in m)])
    if f in ("sanitize_class_name", "sanitize_method_name", "sanitize_module_name"):
        return not valid_ident(getattr(NS, f)(s))
    if f == "enum member name":
        m = _enum_impl()(s)
        return m is None or not valid_ident(m)
    if f == "dedupOpIds":
        meth = [NS.sanitize_method_name(x) for x in impl_dedup_op_ids(s)]
        return len(set(meth)) != len(meth)
    if f in ("fieldNames",):
        i = impl_field_names(s)
        return len(i) != len(s) or len(set(i)) != len(i)
    if f == "enumMemberNames":
        i = impl_enum_member_names(s)
        return len(i) != len(s) or len(set(i)) != len(i)
    if f in ("classNames", "moduleStems"):
        i = impl_decollide(s)[0 if f == "classNames" else 1]
        return len(i) != len(s) or len(set(i)) != len(i)
    return False
