#!/venv/bin/python
"""C17 correspondence: real HttpxTransport / auth plug-ins vs the Lean model M-http.

For every configuration the REAL classes are driven (httpx.MockTransport behind the transport's
AsyncClient, `t._client.request` wrapped to record the keyword arguments that reach httpx) and the
compiled Lean driver is asked the same question.  Compared:
  * the headers dict handed to httpx, as ordered (key, value) pairs;
  * the `params` / `cookies` / other keyword arguments handed to httpx;
  * exceptions (type and message);
  * the same for a SECOND request through the same transport object (plug-in state);
  * the wire view: `request.headers.get_list(name)` of the request httpx built vs `wireLookup`;
  * the plug-ins alone on request_args with/without "headers"/"params"/"cookies" keys.
Assumption shared with the model: the plug-in objects inside a composite are distinct objects.
"""
from __future__ import annotations

import asyncio
import json
import random
import subprocess
import sys
import warnings
from pathlib import Path

import httpx

from pyopenapi_gen.core.auth.base import CompositeAuth
from pyopenapi_gen.core.auth.plugins import ApiKeyAuth, BearerAuth, HeadersAuth, OAuth2Auth
from pyopenapi_gen.core.http_transport import HttpxTransport

HERE = Path(__file__).resolve().parent
DRIVER = HERE / ".lake" / "build" / "bin" / "driver"
N_RANDOM = int(sys.argv[1]) if len(sys.argv) > 1 else 2500
SEED = 17

NAMES = ["X-B", "x-b", "X-b", "Authorization", "authorization", "AUTHORIZATION", "X-API-Key", "x-api-key",
         "X-Trace", "Accept-Language"]
VALUES = ["", "a", "b", "d", "r", "tok", "Bearer x", "v1", "v 2", "k-9"]
TOKENS = ["", "a", "b", "c", "tok", "T0"]
LOCATIONS = ["header", "query", "cookie", "header", "query", "cookie", "Header", "body", "", "headers"]
PNAMES = ["q", "api_key", "X-API-Key", "page", "sid"]


def drive(reqs: list[dict]) -> list:
    inp = "".join(json.dumps(r) + "\n" for r in reqs)
    p = subprocess.run([str(DRIVER)], input=inp, capture_output=True, text=True, timeout=600)
    lines = p.stdout.splitlines()
    assert len(lines) == len(reqs), (len(lines), len(reqs), p.stderr[-2000:])
    return [json.loads(x) for x in lines]


# ---------------------------------------------------------------- random configurations

def rnd_pairs(rng: random.Random, names, maxn=4, dup=False) -> list[list[str]]:
    n = rng.randint(0, maxn)
    out = []
    for _ in range(n):
        k = rng.choice(names)
        if not dup and any(k == p[0] for p in out):
            continue
        out.append([k, rng.choice(VALUES)])
    return out


def rnd_plugin(rng: random.Random, depth: int = 0) -> dict:
    kinds = ["bearer", "headers", "apikey", "apikey", "oauth2", "composite"]
    if depth >= 3:
        kinds.remove("composite")
    t = rng.choice(kinds)
    if t == "bearer":
        return {"t": t, "token": rng.choice(TOKENS)}
    if t == "headers":
        return {"t": t, "headers": rnd_pairs(rng, NAMES)}
    if t == "apikey":
        return {"t": t, "key": rng.choice(VALUES), "location": rng.choice(LOCATIONS),
                "name": rng.choice(NAMES + PNAMES)}
    if t == "oauth2":
        if rng.random() < 0.3:
            refresh = None
        else:
            refresh = {"map": [[a, rng.choice(TOKENS)] for a in rng.sample(TOKENS, rng.randint(0, 4))],
                       "default": rng.choice([None, None, "", "z"])}
        return {"t": t, "token": rng.choice(TOKENS), "refresh": refresh}
    return {"t": "composite", "plugins": [rnd_plugin(rng, depth + 1) for _ in range(rng.randint(0, 4))]}


def all_orders_cfgs() -> list[dict]:
    """Every subset and order of the five plug-in kinds (one representative each) in one composite."""
    import itertools
    reps = [
        {"t": "bearer", "token": "tok"},
        {"t": "headers", "headers": [["X-B", "h"], ["authorization", "low"]]},
        {"t": "apikey", "key": "k-9", "location": "header", "name": "X-API-Key"},
        {"t": "oauth2", "token": "a", "refresh": {"map": [["a", "b"]], "default": None}},
        {"t": "composite", "plugins": [{"t": "apikey", "key": "qk", "location": "query", "name": "api_key"},
                                       {"t": "headers", "headers": [["x-b", "inner"]]}]},
    ]
    out = []
    for r in range(0, 6):
        for combo in itertools.permutations(reps, r):
            out.append({"defaults": [["x-b", "d"], ["X-Trace", "1"]], "headers": [["X-B", "r"]],
                        "auth": {"t": "composite", "plugins": list(combo)}, "bearer": "ignored",
                        "params": [["q", "1"]], "cookies": None, "hmode": "dict"})
    return out


def hand_cfgs() -> list[dict]:
    base = {"defaults": None, "headers": None, "auth": None, "bearer": None, "params": None, "cookies": None,
            "hmode": "none"}
    cs = []

    def add(**kw):
        c = dict(base)
        c.update(kw)
        if c["headers"] is not None:
            c["hmode"] = "dict"
        cs.append(c)

    add()
    add(hmode="absent")
    add(defaults=[["x-b", "d"]], headers=[["X-B", "r"]])
    add(defaults=[["x-b", "d"]], headers=[["x-b", "r"]])
    add(defaults=[], headers=[])
    add(bearer="t")
    add(bearer="")
    add(bearer="t", headers=[["authorization", "mine"]])
    add(bearer="t", headers=[["Authorization", "mine"]])
    add(bearer="t", auth={"t": "composite", "plugins": []})
    add(bearer="t", auth={"t": "headers", "headers": []})
    for loc in ["header", "query", "cookie", "Header", "", "path"]:
        add(auth={"t": "apikey", "key": "K", "location": loc, "name": "X-API-Key"})
        add(auth={"t": "apikey", "key": "K", "location": loc, "name": "api_key"}, params=[["q", "1"]],
            cookies=[["sid", "s"]])
        add(auth={"t": "composite", "plugins": [{"t": "bearer", "token": "b"},
                                                {"t": "apikey", "key": "K", "location": loc, "name": "n"},
                                                {"t": "oauth2", "token": "a",
                                                 "refresh": {"map": [["a", "b"], ["b", "c"]], "default": None}}]})
    for m, d in [([["a", "b"]], None), ([["a", ""]], None), ([["a", "a"]], None), ([], "z"), ([], ""), ([], None),
                 ([["a", "b"], ["b", "a"]], None), ([["a", "b"], ["b", ""]], "q")]:
        add(auth={"t": "oauth2", "token": "a", "refresh": {"map": m, "default": d}})
    add(auth={"t": "oauth2", "token": "a", "refresh": None})
    add(auth={"t": "oauth2", "token": "", "refresh": {"map": [["", "n"]], "default": None}})
    return cs


def rnd_cfg(rng: random.Random) -> dict:
    hmode = rng.choice(["dict", "dict", "dict", "none", "absent"])
    return {
        "defaults": rng.choice([None, rnd_pairs(rng, NAMES), rnd_pairs(rng, NAMES)]),
        "headers": rnd_pairs(rng, NAMES) if hmode == "dict" else None,
        "hmode": hmode,
        "auth": rng.choice([None, rnd_plugin(rng), rnd_plugin(rng), rnd_plugin(rng)]),
        "bearer": rng.choice([None, None, "", "bt", "tok"]),
        "params": rng.choice([None, rnd_pairs(rng, PNAMES, 3)]),
        "cookies": rng.choice([None, None, rnd_pairs(rng, PNAMES, 2)]),
    }


# ---------------------------------------------------------------- the real thing

def build_plugin(spec: dict):
    t = spec["t"]
    if t == "bearer":
        return BearerAuth(spec["token"])
    if t == "headers":
        return HeadersAuth(dict(map(tuple, spec["headers"])))
    if t == "apikey":
        return ApiKeyAuth(spec["key"], spec["location"], spec["name"])
    if t == "oauth2":
        r = spec["refresh"]
        if r is None:
            return OAuth2Auth(spec["token"], None)
        table = dict(map(tuple, r["map"]))
        dflt = r["default"]

        async def cb(tok: str) -> str:
            if tok in table:
                return table[tok]
            return tok if dflt is None else dflt

        return OAuth2Auth(spec["token"], cb)
    return CompositeAuth(*[build_plugin(p) for p in spec["plugins"]])


def pairs(d):
    return None if d is None else [[k, v] for k, v in d.items()]


async def run_real(cfg: dict, n: int = 2) -> tuple[list, list]:
    """n consecutive requests through one transport: (results as the model reports them, wire lookups)."""
    auth = build_plugin(cfg["auth"]) if cfg["auth"] is not None else None
    defaults = None if cfg["defaults"] is None else dict(map(tuple, cfg["defaults"]))
    # verify_ssl=False only avoids loading the CA bundle 2865 times; the client is replaced below anyway
    t = HttpxTransport("http://t", auth=auth, bearer_token=cfg["bearer"], default_headers=defaults, verify_ssl=False)
    await t._client.aclose()
    seen_req: list[httpx.Request] = []
    seen_kw: list[dict] = []

    def handler(request: httpx.Request) -> httpx.Response:
        seen_req.append(request)
        return httpx.Response(200, text="ok")

    t._client = httpx.AsyncClient(base_url="http://t", transport=httpx.MockTransport(handler))
    orig = t._client.request

    async def spy(method, url, **kw):
        seen_kw.append(kw)
        return await orig(method, url, **kw)

    t._client.request = spy  # type: ignore[method-assign]
    results, wires = [], []
    body = {"payload": [1, 2]}
    for _ in range(n):
        kw: dict = {"json": body}
        caller_headers = None
        if cfg["hmode"] == "dict":
            caller_headers = dict(map(tuple, cfg["headers"]))
            kw["headers"] = caller_headers
        elif cfg["hmode"] == "none":
            kw["headers"] = None
        if cfg["params"] is not None:
            kw["params"] = dict(map(tuple, cfg["params"]))
        if cfg["cookies"] is not None:
            kw["cookies"] = dict(map(tuple, cfg["cookies"]))
        snapshot = json.dumps([pairs(caller_headers), pairs(defaults)])
        seen_kw.clear()
        seen_req.clear()
        try:
            await t.request("GET", "/x", **kw)
        except ValueError as e:
            assert not seen_kw
            results.append({"raises": "ValueError", "msg": str(e)})
            wires.append(None)
            continue
        assert len(seen_kw) == 1 and len(seen_req) == 1
        got = seen_kw[0]
        extra = sorted(set(got) - {"headers", "params", "cookies", "json"})
        res = {"headers": pairs(got["headers"]), "params": pairs(got.get("params")),
               "cookies": pairs(got.get("cookies"))}
        if extra or got.get("json") is not body or ("params" in got) != ("params" in kw) \
                or ("cookies" in got) != ("cookies" in kw):
            res["passthrough_violation"] = [extra, repr(got.get("json"))]
        if json.dumps([pairs(caller_headers), pairs(defaults)]) != snapshot:
            res["mutated_inputs"] = True
        results.append(res)
        wires.append({name: seen_req[0].headers.get_list(name) for name in NAMES})
    await t._client.aclose()
    return results, wires


async def run_plugin(spec: dict, ra: dict):
    p = build_plugin(spec)
    args = {k: dict(map(tuple, v)) for k, v in ra.items() if v is not None}
    try:
        out = await p.authenticate_request(args)
    except ValueError as e:
        return {"raises": "ValueError", "msg": str(e)}
    extra = set(out) - {"headers", "params", "cookies"}
    assert not extra
    return {"headers": pairs(out.get("headers")), "params": pairs(out.get("params")),
            "cookies": pairs(out.get("cookies"))}


def model_cfg(cfg: dict) -> dict:
    return {k: cfg[k] for k in ("defaults", "headers", "auth", "bearer", "params", "cookies")}


async def main() -> int:
    warnings.simplefilter("ignore")
    rng = random.Random(SEED)
    cfgs = hand_cfgs() + all_orders_cfgs() + [rnd_cfg(rng) for _ in range(N_RANDOM)]
    bad = 0

    # 1. transport level, two consecutive requests each
    real = [await run_real(c) for c in cfgs]
    model = drive([{"f": "prepareHeadersSeq", "a": [model_cfg(c), 2]} for c in cfgs])
    single = drive([{"f": "prepareHeaders", "a": [model_cfg(c)]} for c in cfgs])
    wire_reqs, wire_expect = [], []
    n_raise = n_second_differs = 0
    for c, (r, w), m, s in zip(cfgs, real, model, single):
        if r != m or s != m[0]:
            bad += 1
            print("DISAGREE transport", json.dumps(c), "\n  real ", json.dumps(r), "\n  model", json.dumps(m),
                  "\n  single", json.dumps(s))
        n_raise += "raises" in r[0]
        n_second_differs += r[0] != r[1]
        for res, wl in zip(r, w):
            if wl is None:
                continue
            for name, vals in wl.items():
                wire_reqs.append({"f": "wireLookup", "a": [res["headers"], name]})
                wire_expect.append((c, name, vals))
    # 2. wire view
    for (c, name, vals), got in zip(wire_expect, drive(wire_reqs)):
        if got != vals:
            bad += 1
            print("DISAGREE wire", json.dumps(c), name, "httpx", vals, "model", got)

    # 3. plug-ins alone, request_args with / without each key
    pcases = []
    for _ in range(max(600, N_RANDOM // 3)):
        spec = rnd_plugin(rng)
        ra = {"headers": rng.choice([None, rnd_pairs(rng, NAMES)]),
              "params": rng.choice([None, rnd_pairs(rng, PNAMES + NAMES[:3], 3)]),
              "cookies": rng.choice([None, rnd_pairs(rng, PNAMES, 3)])}
        pcases.append((spec, ra))
    preal = [await run_plugin(s, ra) for s, ra in pcases]
    pmodel = drive([{"f": "authenticate", "a": [s, ra]} for s, ra in pcases])
    for (s, ra), r, m in zip(pcases, preal, pmodel):
        if r != m:
            bad += 1
            print("DISAGREE plugin", json.dumps(s), json.dumps(ra), "\n  real ", json.dumps(r), "\n  model",
                  json.dumps(m))

    # 4. the two documented defects reproduce on the real code
    r, w = await run_real({"defaults": [["x-b", "d"]], "headers": [["X-B", "r"]], "hmode": "dict", "auth": None,
                           "bearer": None, "params": None, "cookies": None}, n=1)
    assert w[0]["x-b"] == ["d", "r"], w
    for loc in ("query", "cookie"):
        r, w = await run_real({"defaults": None, "headers": None, "hmode": "none",
                               "auth": {"t": "apikey", "key": "SECRET", "location": loc, "name": "api_key"},
                               "bearer": None, "params": None, "cookies": None}, n=1)
        assert r[0] == {"headers": [], "params": None, "cookies": None}, r

    print(f"{len(cfgs)} transport configurations x 2 requests ({n_raise} raising, {n_second_differs} with a "
          f"different second request), {len(wire_reqs)} wire lookups, {len(pcases)} plug-in calls")
    print(f"{bad} disagreements")
    return 1 if bad else 0


if __name__ == "__main__":
    sys.exit(asyncio.run(main()))
