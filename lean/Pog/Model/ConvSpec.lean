import Pog.Model.Conv
/-
  Specification-side vocabulary for C16 / C03 (executable, so that hypotheses of theorems can be checked on
  concrete inputs by `decide`):

    `conformsF c n decls T j`   the JSON document `j` conforms to type `T` (checked to nesting depth `n`)
    `normaliseF n decls T j`    `j` with every ABSENT defaulted property filled in with the JSON of its default
                                (`null`, `[]`, `{}`), properties in declaration order, unknown keys dropped
    `classOk` / `declsOk`       well-formed declarations: distinct field names, distinct wire keys, and the dump map
                                sends every field to the key the load map reads it from
    `Tolerated j out`           C03's tolerance: `out` is `j` up to the order of object keys, except that `out`
                                may have additional keys holding `null`, `[]` or `{}`
-/
namespace Pog

/-- `s` is the canonical wire spelling of the value it denotes: decoding and re-encoding gives `s` back. -/
def LeafCodec.canon (c : LeafCodec) (s : Str) : Bool :=
  match c.decode s with
  | some v => c.encode v == s
  | none => false

def leafConforms (c : Codecs) : Leaf → JsonV → Bool
  | .str, .str _ => true
  | .int, .int _ => true
  | .float, .int _ => true
  | .bool, .bool _ => true
  | .bytes, .str s => c.bytes.canon s
  | .datetime, .str s => c.datetime.canon s
  | .date, .str s => c.date.canon s
  | .time, .str s => c.time.canon s
  | .uuid, .str s => c.uuid.canon s
  | _, _ => false

/-- Arbitrary JSON of nesting depth < `n` whose objects have pairwise distinct keys (what an `Any`-typed position
    may hold: it came out of a Python `dict`). -/
def jsonFits : Nat → JsonV → Bool
  | 0, _ => false
  | n + 1, j =>
    match j with
    | .arr xs => xs.all (jsonFits n)
    | .obj kvs => decide (akeys kvs).Nodup && kvs.all (fun kv => jsonFits n kv.2)
    | _ => true

def dfltJson : Dflt → JsonV
  | .required => .null
  | .none => .null
  | .list => .arr []
  | .dict => .obj []

def JsonV.isInt : JsonV → Bool
  | .int _ => true
  | _ => false

/-- Enum members are all strings (`class E(str, Enum)`) or all integers (`class E(int, Enum)`). -/
def enumOk (members : List JsonV) : Bool := members.all JsonV.isStr || members.all JsonV.isInt

/-- The declared default of an ABSENT field is a value of the field's type that unstructures to `dfltJson`
    (`x: Optional[T] = None`, `x: List[T] = field(default_factory=list)`, …). -/
def dfltFits : Dflt → Ty → Bool
  | .none, .optional _ => true
  | .none, .any => true
  | .none, .leaf l => !leafHasUnstructureHook l
  | .list, .list _ => true
  | .list, .optional (.list _) => true
  | .list, .any => true
  | .dict, .dict _ => true
  | .dict, .optional (.dict _) => true
  | .dict, .any => true
  | _, _ => false

/-- The union-free conformance relation, to depth `n`.  Leaves must be supported in both directions and
    spelled canonically; objects must have pairwise distinct keys, only declared keys, every required key. -/
def conformsF (c : Codecs) : Nat → Decls → Ty → JsonV → Bool
  | 0, _, _, _ => false
  | n + 1, decls, t, j =>
    resolvable t &&
    match t with
    | .leaf l => (cattrsBuiltinLeaves.contains l || leafHasUnstructureHook l) && leafConforms c l j
    | .any => jsonFits n j
    | .list t' =>
      match j with
      | .arr xs => xs.all (conformsF c n decls t')
      | _ => false
    | .dict t' =>
      match j with
      | .obj kvs => decide (akeys kvs).Nodup && kvs.all (fun kv => conformsF c n decls t' kv.2)
      | _ => false
    | .optional t' => j == .null || conformsF c n decls t' j
    | .enum _ members => enumOk members && members.contains j
    | .dc name =>
      match aget decls name with
      | none => false
      | some cd =>
        match j with
        | .obj kvs =>
          decide (akeys kvs).Nodup &&
          (akeys kvs).all (fun k => cd.fields.any (fun f => loadKey cd f == k)) &&
          cd.fields.all (fun f => resolvable f.ty) &&
          cd.fields.all (fun f =>
            match aget kvs (loadKey cd f) with
            | some x => conformsF c n decls f.ty x
            | none => f.dflt != .required && dfltFits f.dflt f.ty && decide (2 ≤ n))
        | _ => false
    | _ => false

def normaliseF : Nat → Decls → Ty → JsonV → JsonV
  | 0, _, _, j => j
  | n + 1, decls, t, j =>
    match t with
    | .list t' =>
      match j with
      | .arr xs => .arr (xs.map (normaliseF n decls t'))
      | _ => j
    | .dict t' =>
      match j with
      | .obj kvs => .obj (kvs.map (fun kv => (kv.1, normaliseF n decls t' kv.2)))
      | _ => j
    | .optional t' => if j == .null then .null else normaliseF n decls t' j
    | .dc name =>
      match aget decls name, j with
      | some cd, .obj kvs =>
        .obj (cd.fields.map (fun f =>
          (dumpKey cd f,
            match aget kvs (loadKey cd f) with
            | some x => normaliseF n decls f.ty x
            | none => dfltJson f.dflt)))
      | _, _ => j
    | _ => j

/-- One dataclass is well formed: distinct python names, distinct wire keys, and the two `Meta` maps agree. -/
def classOk (cd : ClassDecl) : Bool :=
  decide (cd.fields.map Field.pyName).Nodup &&
  decide (cd.fields.map (loadKey cd)).Nodup &&
  cd.fields.all (fun f => loadKey cd f == dumpKey cd f)

def declsOk (decls : Decls) : Bool := decls.all (fun d => classOk d.2)

/-- Every declared class has its unstructure hook registered (what `unstructure_to_dict` establishes for the
    classes reachable from the instance's class). -/
def allRegistered (reg : List Str) (decls : Decls) : Bool := decls.all (fun d => reg.contains d.1)

/-! ### well-typed values (for `encode_decode`) -/

/-- `v` is a well-typed value of type `t` (union-free, supported leaves), checked to depth `n`:
    what a user builds by calling the dataclass constructors with values of the annotated types. -/
def HasTypeF (c : Codecs) : Nat → Decls → Ty → Val → Prop
  | 0, _, _, _ => False
  | n + 1, decls, t, v =>
    resolvable t = true ∧
    match t with
    | .leaf .str => ∃ s, v = .str s
    | .leaf .int => ∃ i, v = .int i
    | .leaf .float => ∃ i, v = .int i
    | .leaf .bool => ∃ b, v = .bool b
    | .leaf .bytes => ∃ b, v = .bytes b ∧ c.bytes.Valid b
    | .leaf .datetime => ∃ b, v = .datetime b ∧ c.datetime.Valid b
    | .leaf .date => ∃ b, v = .date b ∧ c.date.Valid b
    | .leaf .time => ∃ b, v = .time b ∧ c.time.Valid b
    | .leaf .uuid => ∃ b, v = .uuid b ∧ c.uuid.Valid b
    | .any => ∃ j, v = Val.ofJson j ∧ jsonFits n j = true
    | .list t' => ∃ xs, v = .list xs ∧ ∀ x ∈ xs, HasTypeF c n decls t' x
    | .dict t' => ∃ kvs, v = .dict kvs ∧ (akeys kvs).Nodup ∧ ∀ kv ∈ kvs, HasTypeF c n decls t' kv.2
    | .optional t' => v = .none ∨ (v ≠ .none ∧ HasTypeF c n decls t' v)
    | .enum name members => ∃ m, v = .enum name m ∧ enumOk members = true ∧ members.contains m = true
    | .dc name =>
      ∃ cd, aget decls name = some cd ∧ (∀ f ∈ cd.fields, resolvable f.ty = true) ∧
        ∃ fv : Field → Val, v = .inst name (cd.fields.map (fun f => (f.pyName, fv f)))
          ∧ ∀ f ∈ cd.fields, HasTypeF c n decls f.ty (fv f)
    | _ => False

/-! ### error reporting of the dataclass hook -/

/-- What the generated `structure_<Class>` does for one field of a DICT payload:
    `none` = key absent and the field has a default (the default is used, nothing is decoded). -/
def fieldOutcome (rec : Ty → JsonV → Except SErr Val) (cd : ClassDecl) (kvs : List (Str × JsonV)) (f : Field) :
    Option (Except SErr Val) :=
  match aget kvs (loadKey cd f) with
  | some x => some (rec f.ty x)
  | none => if f.dflt = .required then some (.error (.leaf (.keyError (loadKey cd f)))) else none

def fieldValue (rec : Ty → JsonV → Except SErr Val) (cd : ClassDecl) (kvs : List (Str × JsonV)) (f : Field) :
    Option (Str × Val) :=
  match fieldOutcome rec cd kvs f with
  | none => some (f.pyName, fieldDefault f.dflt)
  | some (.ok v) => some (f.pyName, v)
  | some (.error _) => none

def fieldError (rec : Ty → JsonV → Except SErr Val) (cd : ClassDecl) (kvs : List (Str × JsonV)) (f : Field) :
    Option (Str × SErr) :=
  match fieldOutcome rec cd kvs f with
  | some (.error e) => some (f.pyName, e)
  | _ => none

/-! ### C03's tolerance -/

def JsonV.isEmptyish : JsonV → Bool
  | .null => true
  | .arr [] => true
  | .obj [] => true
  | _ => false

mutual
/-- `out` equals `j` except that objects of `out` may list their keys in another order and may have extra keys whose
    value is `null`, `[]` or `{}`. -/
def tolerated : JsonV → JsonV → Bool
  | .arr xs, .arr ys => toleratedList xs ys
  | .obj kvs, .obj out =>
    toleratedKvs kvs out && out.all (fun kv => (aget kvs kv.1).isSome || kv.2.isEmptyish)
  | .null, .null => true
  | .bool a, .bool b => a == b
  | .int a, .int b => a == b
  | .str a, .str b => a == b
  | _, _ => false
def toleratedList : List JsonV → List JsonV → Bool
  | [], [] => true
  | x :: xs, y :: ys => tolerated x y && toleratedList xs ys
  | _, _ => false
/-- Every entry of the input object has a tolerated counterpart under the same key in `out`. -/
def toleratedKvs : List (Str × JsonV) → List (Str × JsonV) → Bool
  | [], _ => true
  | (k, v) :: rest, out =>
    (match aget out k with
     | some v' => tolerated v v'
     | none => false) && toleratedKvs rest out
end

end Pog
