import Pog.Lemmas.Surface
import Pog.Props.ClientGen
import Pog.Lemmas.SurfaceGroup
import Pog.Lemmas.SurfaceModule
/-
  C13 — client class, Protocol and mock expose the same operation methods with identical signatures;
        every mock method raises NotImplementedError; MockAPIClient has the tag properties of APIClient.
  C07 (tag-grouping part) — every operation is a method of the client of each of its tags (or `default`),
        and that tag client is a property of APIClient.

  The Protocol stubs and the mock methods are cut TEXTUALLY out of the generated method source
  (`Pog.protoStub`, `Pog.toMock`, Pog/Model/Surface.lean); a signature is what `Pog.sigOf` reads off a text
  (checked against CPython's parser by the correspondence).  `✗` marks full statements that are FALSE of
  the current code: they appear as `_counterexample` + `_partial`.

    text level (every method text of the emitted shape `WellFormedMethod`)
      Protocol stub  : same name / parameters / kinds / defaults / annotations / return annotation  (full)
                       `async` is dropped exactly when the return annotation IS `AsyncIterator[...]` (F47 repaired:
                       the test was `"AsyncIterator" in <text>`, true of `-> AsyncIteratorResult`)
      mock           : identical signature incl. `async` (full); body = docstring + raise (+ `yield`) (full);
                       the `yield` is written by the Protocol stub's criterion (full, `mock_proto_same_criterion`)
                       ✗ coroutine/async-generator nature differs from the client when the client's body does not
                         `yield` although it is annotated `AsyncIterator[...]` (partial; the `AsyncIteratorResult`
                         class, F47, is repaired: `mock_nature_former_witness`, `proto_async_kept_former_witness`)
                       ✗ the error message of an untagged operation names a class that does not exist
    grouping level (every operation list, every CPython case table `UInfo`)
      tag maps       : emitter and client visitor compute the same map, neither raises           (full)
      every operation is in the group of each of its tags, exactly once, in no other group       (full; F45 repaired)
      each tag client is a property of APIClient (up to order)                                   (full)
      module files   : distinct groups never share a file for ASCII tags (full); ✗ non-ASCII
      mocks          : grouped like the endpoints (every tag, normalised key, canonical tag), in the order of the keys:
                       same surfaces; MockAPIClient has the properties of APIClient in the same order (full; F23 repaired —
                       the mocks emitter grouped by FIRST tag, RAW string: multi-tag operations, `Users`/`users`, the empty tag)
-/
/-
  C13 for the three top-level classes (Pog/Model/ClientGen.lean; claimed from Pog/Props/ClientGen.lean):
    surfaces_agree                         from the same tag tuples, APIClient / APIClientProtocol / MockAPIClient have the same property names in
                                           the same order, `C` vs `CProtocol` return types, one `__init__` keyword per property
    mock_surface (F23 repaired)            the mocks emitter passes the visitor's tuples: MockAPIClient has the properties of APIClient, same order
    mock_self_never_a_keyword (F64 repaired)   no keyword of `MockAPIClient.__init__` is `self`; `mock_self_argument_former_witness`: tag `self` → `self_`
    (`clientProps` / `mockClientProps` below list the MODULE names of the tag tuples in property order; the property name is
     `ClientGen.tagAttr` of it, the same function in all three classes - `surfaces_agree`)
-/
-- INDEX Pog.ClientGenProps: surfaces_agree, mock_surface, mock_surface_former_witness, mock_surface_empty_tag_former_witness, mock_duplicate_argument_former_witness, mock_init_keywords_distinct_partial, mock_self_argument_former_witness, mock_self_never_a_keyword
namespace Pog.C13
open Pog

/-! ## Text level -/

/-- A method text as `EndpointMethodGenerator.generate` emits it for a two-content-type operation. -/
def sampleMethod : List Str := [
  "@overload".toList,
  "async def create_user(".toList,
  "    self,".toList,
  "    *,".toList,
  "    body: User,".toList,
  "    content_type: Literal[\"application/json\"] = \"application/json\"".toList,
  ") -> User: ...".toList,
  [],
  "async def create_user(".toList,
  "    self,".toList,
  "    id_: int,".toList,
  "    *,".toList,
  "    body: User | None = None,".toList,
  "    content_type: str = \"application/json\"".toList,
  ") -> User:".toList,
  "    \"\"\"".toList,
  "    createUser".toList,
  "    \"\"\"".toList,
  "    url = f\"{self.base_url}/users\"".toList]

example : WellFormedMethod sampleMethod = true := by decide

/-- What `sigOf` reads off `sampleMethod`. -/
example : sigOf sampleMethod = some
    { isAsync := true, name := "create_user".toList,
      params := [⟨"self".toList, none, none, false⟩, ⟨"id_".toList, some "int".toList, none, false⟩,
        ⟨"body".toList, some "User | None".toList, some "None".toList, true⟩,
        ⟨"content_type".toList, some "str".toList, some "\"application/json\"".toList, true⟩],
      ret := some "User".toList, multiLine := true } := by decide

/-- **Protocol stub.**  For every method text of the emitted shape the stub has a signature, and it is the
    client's signature — same name, parameters (names, order, keyword-only marker, annotations, defaults) and
    return annotation — except that `async` is dropped exactly when the return annotation is `AsyncIterator[...]`
    itself (the visitor's convention for async generators; F47 repaired: a type NAME containing that text, as in
    `-> AsyncIteratorResult` or `-> List[AsyncIteratorResult]`, keeps `async`). -/
theorem proto_preserves_signature (m : List Str) (h : WellFormedMethod m = true) :
    ∃ sg, sigOf m = some sg ∧ sg.isAsync = true ∧
      sigOf (protoStub m) = some { sg with isAsync := !retIsAsyncIter sg.ret } := by
  obtain ⟨sg, hsg, ha, _⟩ := wf_sigGo_some m false h
  refine ⟨sg, hsg, ha, ?_⟩
  have := proto_sig_go m false h
  simp only [Bool.false_eq_true, if_false] at this
  unfold sigOf protoStub
  rw [this, hsg]
  simp [adjAsync, ha]

/-- **Mock.**  The mock method has exactly the client's signature (`async` included). -/
theorem mock_preserves_signature (cls meth : Str) (m : List Str) (h : WellFormedMethod m = true) :
    sigOf (toMock cls meth m) = sigOf m ∧ (sigOf m).isSome = true := by
  obtain ⟨sg, hsg, _, _⟩ := wf_sigGo_some m false h
  have := (mock_go cls meth m false h).1
  simp only [Bool.false_eq_true, if_false] at this
  exact ⟨this, by rw [sigOf, hsg]; rfl⟩

/-- Hence client, Protocol and mock agree on everything but the `async` keyword of the Protocol stub. -/
theorem three_way_signature (cls meth : Str) (m : List Str) (h : WellFormedMethod m = true) :
    ∃ sg, sigOf m = some sg ∧ sigOf (toMock cls meth m) = some sg ∧
      ∃ sp, sigOf (protoStub m) = some sp ∧ sp.name = sg.name ∧ sp.params = sg.params ∧ sp.ret = sg.ret := by
  obtain ⟨sg, hsg, _, hp⟩ := proto_preserves_signature m h
  exact ⟨sg, hsg, by rw [(mock_preserves_signature cls meth m h).1, hsg], _, hp, rfl, rfl, rfl⟩

/-- **Mock body.**  The body of the mock method is exactly the fixed docstring, one
    `raise NotImplementedError("<cls>.<meth>() not implemented. …")` line and — iff `returns_async_iterator` holds of
    the line closing the signature (`mockYields`) — the unreachable `yield`. -/
theorem mock_body_raises (cls meth : Str) (m : List Str) (h : WellFormedMethod m = true) :
    bodyOf (toMock cls meth m) = mockBody cls meth (mockYields m) := by
  have := (mock_go cls meth m false h).2
  simp only [Bool.false_eq_true, if_false] at this
  exact this

example : mockBody "MockUsersClient".toList "get_user".toList false =
    ["    \"\"\"".toList, "    Mock implementation that raises NotImplementedError.".toList, "    ".toList,
     "    Override this method in your test subclass to provide".toList,
     "    the behavior needed for your test scenario.".toList, "    \"\"\"".toList,
     ("    raise NotImplementedError(\"MockUsersClient.get_user() not implemented. " ++
      "Override this method in your test subclass.\")").toList] := by decide +kernel

/-- **Mock nature.**  The mock is an async generator iff `mockYields`, else a coroutine. -/
theorem mock_nature (cls meth : Str) (m : List Str) (h : WellFormedMethod m = true) :
    natureOf (toMock cls meth m) = some (if mockYields m then .asyncGen else .coroutine) := by
  obtain ⟨sg, hsg, ha, _⟩ := wf_sigGo_some m false h
  unfold natureOf
  rw [(mock_preserves_signature cls meth m h).1, mock_body_raises cls meth m h, mockBody_yields, sigOf, hsg]
  cases mockYields m <;> simp [ha]

/-- **One criterion** (F47 repaired: both transformers call `returns_async_iterator` on the line closing the signature):
    the mock gets its `yield` exactly when the return annotation `sigOf` reads off the text is `AsyncIterator[...]` —
    exactly when the Protocol stub drops `async` (`proto_preserves_signature`). -/
theorem mock_proto_same_criterion (m : List Str) (h : WellFormedMethod m = true) :
    ∃ sg, sigOf m = some sg ∧ mockYields m = retIsAsyncIter sg.ret ∧
      (sigOf (protoStub m)).map (·.isAsync) = some (!mockYields m) := by
  obtain ⟨sg, hsg, hy⟩ := wf_mockYields m false h
  obtain ⟨sg', hsg', _, hp⟩ := proto_preserves_signature m h
  have : sg' = sg := by
    have h1 : sigOf m = some sg := hsg
    rw [h1] at hsg'
    exact (Option.some.inj hsg').symm
  subst this
  refine ⟨sg', hsg, hy, ?_⟩
  rw [hp]
  unfold mockYields
  rw [hy]
  rfl

/-- Whether the client body (after its docstring) contains a `yield` statement. -/
def clientYields (m : List Str) : Bool := (skipDoc (bodyOf m)).any isYieldLine

/-- ✗ `mock_nature_agrees : natureOf (toMock cls meth m) = natureOf m` — false at the text level
    (`mock_nature_agrees_counterexample`).  Restricted to the texts whose body yields exactly when the return annotation is
    `AsyncIterator[...]` — the contract of `EndpointMethodGenerator` for a streaming operation.  Since the repair of F47
    the hypothesis speaks of the return ANNOTATION (`retIsAsyncIter`), no longer of the text `AsyncIterator` occurring
    anywhere in the signature: a coroutine returning `AsyncIteratorResult` satisfies it. -/
theorem mock_nature_agrees_partial (cls meth : Str) (m : List Str) (h : WellFormedMethod m = true)
    (hy : ∀ sg, sigOf m = some sg → clientYields m = retIsAsyncIter sg.ret) :
    natureOf (toMock cls meth m) = natureOf m := by
  obtain ⟨sg, hsg, ha, _⟩ := wf_sigGo_some m false h
  obtain ⟨sg', hsg', hcrit, _⟩ := mock_proto_same_criterion m h
  rw [mock_nature cls meth m h, hcrit, ← hy sg' hsg']
  unfold natureOf
  rw [sigOf, hsg]
  unfold clientYields
  cases (skipDoc (bodyOf m)).any isYieldLine <;> simp [ha]

/-- An operation whose response schema happens to be called `AsyncIteratorResult`. -/
def asyncIterNamed : List Str := [
  "async def get_it(".toList,
  "    self,".toList,
  ") -> AsyncIteratorResult:".toList,
  "    \"\"\"Get it.\"\"\"".toList,
  "    return structure_from_dict(response.json(), AsyncIteratorResult)".toList]

/-- A streaming method as the generator emits it. -/
def streamingMethod : List Str := [
  "async def watch(".toList,
  "    self,".toList,
  "    q: str | None = None,".toList,
  ") -> AsyncIterator[dict[str, Any]]:".toList,
  "    \"\"\"Watch.\"\"\"".toList,
  "    async for chunk in iter_sse_events_text(response):".toList,
  "        yield json.loads(chunk)".toList]

/-- The hypothesis of `mock_nature_agrees_partial` is satisfiable by a coroutine, by the former F47 witness and by a stream. -/
example : (∀ m ∈ [sampleMethod, asyncIterNamed, streamingMethod], WellFormedMethod m = true ∧
    ∀ sg, sigOf m = some sg → clientYields m = retIsAsyncIter sg.ret) ∧
    natureOf streamingMethod = some .asyncGen := by
  refine ⟨?_, by decide⟩
  intro m hm
  simp only [List.mem_cons, List.not_mem_nil, or_false] at hm
  rcases hm with rfl | rfl | rfl
  · refine ⟨by decide, ?_⟩
    have h : (sigOf sampleMethod).map (fun sg => clientYields sampleMethod == retIsAsyncIter sg.ret) = some true := by decide
    intro sg hsg; rw [hsg] at h; simpa using h
  · refine ⟨by decide, ?_⟩
    have h : (sigOf asyncIterNamed).map (fun sg => clientYields asyncIterNamed == retIsAsyncIter sg.ret) = some true := by decide
    intro sg hsg; rw [hsg] at h; simpa using h
  · refine ⟨by decide, ?_⟩
    have h : (sigOf streamingMethod).map (fun sg => clientYields streamingMethod == retIsAsyncIter sg.ret) = some true := by decide
    intro sg hsg; rw [hsg] at h; simpa using h

/-- The former witness of F47 (defect class `mock-asyncgen-nature`): the client method is a coroutine and so is its mock
    (before the repair the mock was an async generator — `await mock.get_it()` raised `TypeError` instead of
    `NotImplementedError`); a real stream still gets the async-generator mock. -/
theorem mock_nature_former_witness :
    WellFormedMethod asyncIterNamed = true ∧ natureOf asyncIterNamed = some .coroutine ∧
      natureOf (toMock "MockXClient".toList "get_it".toList asyncIterNamed) = some .coroutine ∧
      natureOf (toMock "MockXClient".toList "watch".toList streamingMethod) = some .asyncGen := by
  decide

/-- The former witness of F47 (defect class `protocol-async-dropped`): for the same text the Protocol keeps `async def`
    (before the repair it declared a plain `def` on the TEXT test `"AsyncIterator" in line`); the stub of a real stream
    is the plain `def` of the documented convention. -/
theorem proto_async_kept_former_witness :
    natureOf asyncIterNamed = some .coroutine ∧
      (sigOf (protoStub asyncIterNamed)).map (·.isAsync) = some true ∧
      (sigOf (protoStub streamingMethod)).map (·.isAsync) = some false := by
  decide

/-- A method annotated `AsyncIterator[...]` whose body never yields (a streamed response under a key that gets no `case`
    of its own, e.g. `2XX`). -/
def streamWithoutYield : List Str := [
  "async def watch(".toList,
  "    self,".toList,
  ") -> AsyncIterator[bytes]:".toList,
  "    \"\"\"Watch.\"\"\"".toList,
  "    raise HTTPError(response=response, message=\"Unhandled status code\", status_code=response.status_code)".toList]

/-- ✗ witness for the hypothesis that remains (not the F47 class): annotated `AsyncIterator[bytes]` without a `yield`,
    the client is a coroutine, its mock an async generator. -/
theorem mock_nature_agrees_counterexample :
    WellFormedMethod streamWithoutYield = true ∧ natureOf streamWithoutYield = some .coroutine ∧
      natureOf (toMock "MockXClient".toList "watch".toList streamWithoutYield) = some .asyncGen := by
  decide

/-- Latent (not reachable today: `write_function_signature` always receives `self`, so the one-line form is
    never emitted for endpoint methods): on a ONE-LINE signature the stub keeps `async` even for an async
    generator, because only `signature_lines[:-1]` is rewritten. -/
theorem proto_oneline_keeps_async :
    (sigOf (protoStub ["async def f(self) -> AsyncIterator[bytes]:".toList, "    yield b".toList])).map (·.isAsync)
      = some true := by
  decide

/-- ✗ witness: the error message of an UNTAGGED operation names `MockClient_Client` (`client` is a reserved name,
    so `sanitize_class_name("Client")` is `Client_`), but the class that contains the method is
    `MockDefaultClient` (`op.tags[0] if op.tags else "Client"` vs. the group tag `default`). -/
theorem mock_error_class_untagged_counterexample :
    mockErrClass [] = "MockClient_Client".toList ∧
      (groupMocks UInfo.ascii [⟨"ping".toList, []⟩]).map (fun g => "Mock".toList ++ g.cls) = ["MockDefaultClient".toList] := by
  decide

/-! ## Grouping level -/

/-- **C07: the two tag maps agree.**  `ClientVisitor.visit` recomputes the map of `EndpointsEmitter.emit`;
    its unguarded `max` never raises and the result is the same association list (same order, same canonical tags). -/
theorem tag_maps_agree (u : UInfo) (ops : List TagOp) : tagMapVisitor u ops = some (tagMapEmitter u ops) :=
  Pog.tagMapVisitor_eq u ops

/-- `tag_map[key]` in the emitter's file loop never raises `KeyError`; the loop is the fused formulation. -/
theorem group_endpoints_total (u : UInfo) (ops : List TagOp) :
    groupEndpointsRaw u ops = some (groupEndpoints u ops) :=
  Pog.groupEndpointsRaw_eq u ops

/-- One group per normalised key. -/
theorem group_keys_distinct (u : UInfo) (ops : List TagOp) : ((groupEndpoints u ops).map (·.key)).Nodup :=
  Pog.groupEndpoints_keys_nodup u ops

/-- Names of a group: module and class derive from the canonical tag, which is one of the tags that some
    operation carries (or `default`) and normalises to the group key. -/
theorem group_names (u : UInfo) (ops : List TagOp) (g : TagGroup) (hg : g ∈ groupEndpoints u ops) :
    g.key = normTagKey u g.canon ∧ (∃ op ∈ ops, g.canon ∈ tagsOrDefault op) ∧
      g.module = sanModule u g.canon ∧ g.cls = sanClass g.canon ++ kClientSuffix :=
  Pog.groupEndpoints_canon u ops g hg

/-- **C07: every operation is in the tag client of each of its tags** (or of `default`). -/
theorem every_op_in_each_tag_client (u : UInfo) (ops : List TagOp) (op : TagOp) (t : Str) (hop : op ∈ ops)
    (ht : t ∈ tagsOrDefault op) :
    ∃ g ∈ groupEndpoints u ops, g.key = normTagKey u t ∧ op.id ∈ g.ops :=
  Pog.every_op_present u ops op t hop ht

/-- `every_op_exactly_once` at full strength over the tags (F45 repaired: an operation is appended once per normalised key):
    however many spellings of a tag the operation carries, its id occurs exactly ONCE in the group of that tag.
    (`hids`: the ids identify the operations - the method names of a document are pairwise distinct, `Pog.C07.method_names_distinct`.) -/
theorem every_op_exactly_once (u : UInfo) (ops : List TagOp) (op : TagOp) (t : Str) (hop : op ∈ ops)
    (ht : t ∈ tagsOrDefault op) (hids : (ops.map (·.id)).Nodup)
    (g : TagGroup) (hg : g ∈ groupEndpoints u ops) (hk : g.key = normTagKey u t) :
    g.ops.count op.id = 1 :=
  Pog.every_op_once u ops op t hop ht hids g hg hk

/-- … and it does not occur in the group of any key none of its tags normalises to. -/
theorem op_in_no_other_tag_client (u : UInfo) (ops : List TagOp) (op : TagOp) (hop : op ∈ ops) (hids : (ops.map (·.id)).Nodup)
    (g : TagGroup) (hg : g ∈ groupEndpoints u ops) (hk : g.key ∉ (tagsOrDefault op).map (normTagKey u)) :
    op.id ∉ g.ops :=
  Pog.op_absent_elsewhere u ops op hop hids g hg hk

/-- The members of a group, exactly: the ids of the operations that carry a tag (or `default`) with the group's key, each once,
    in document order - every operation list, no hypothesis. -/
theorem group_members (u : UInfo) (ops : List TagOp) (g : TagGroup) (hg : g ∈ groupEndpoints u ops) :
    g.ops = (ops.filter (hasKey u g.key)).map (·.id) :=
  Pog.groupEndpoints_ops u ops g hg

/-- The hypotheses are satisfiable by an operation that carries two spellings of one tag. -/
example : (([⟨"a".toList, ["Users".toList, "users".toList, "admin-ops".toList]⟩, ⟨"b".toList, []⟩] : List TagOp).map (·.id)).Nodup ∧
    "users".toList ∈ tagsOrDefault ⟨"a".toList, ["Users".toList, "users".toList, "admin-ops".toList]⟩ := by
  decide

/-- The former witness of F45: tags `Users` and `users` on the same operation used to emit its method twice into `UsersClient`. -/
theorem every_op_exactly_once_former_witness :
    (groupEndpoints UInfo.ascii [⟨"a".toList, ["Users".toList, "users".toList]⟩]).map (·.ops) = [["a".toList]] ∧
    groupEndpointsRaw UInfo.ascii [⟨"a".toList, ["Users".toList, "users".toList]⟩, ⟨"b".toList, ["x".toList, "USERS".toList]⟩]
      = some [⟨"users".toList, "USERS".toList, "users".toList, "UsersClient".toList, ["a".toList, "b".toList]⟩,
              ⟨"x".toList, "x".toList, "x".toList, "XClient".toList, ["b".toList]⟩] := by
  decide

/-- **C07: each tag client is a property of `APIClient`**: the property names are, up to order
    (`sorted(tag_map)`), exactly the module names of the tag clients. -/
theorem tag_clients_reachable (u : UInfo) (ops : List TagOp) :
    ∃ L, clientProps u ops = some L ∧ L.Perm ((groupEndpoints u ops).map (·.module)) :=
  Pog.clientProps_perm u ops

/-- The module name determines the normalised key of an ASCII tag: `key = module without underscores`. -/
theorem tag_key_of_module (u : UInfo) (t : Str) (h : t.all isAscii = true) :
    normTagKey u t = (sanModule u t).filter (· != '_') :=
  Pog.normTagKey_eq_noUs_sanModule u t h

/-- **C07: tag modules are injective** on ASCII tags: equal module files imply equal normalised keys … -/
theorem tag_modules_injective (u : UInfo) (a b : Str) (ha : a.all isAscii = true) (hb : b.all isAscii = true)
    (h : sanModule u a = sanModule u b) : normTagKey u a = normTagKey u b := by
  rw [tag_key_of_module u a ha, tag_key_of_module u b hb, h]

/-- … so no two tag clients are written to the same `endpoints/<module>.py` (and no two `APIClient`
    properties collide) when every tag is ASCII. -/
theorem tag_module_files_distinct_partial (u : UInfo) (ops : List TagOp)
    (hascii : ∀ op ∈ ops, ∀ t ∈ op.tags, t.all isAscii = true) :
    ((groupEndpoints u ops).map (·.module)).Nodup :=
  Pog.groupEndpoints_modules_nodup u ops hascii

example : ∀ op ∈ ([⟨"a".toList, ["a1".toList, "a_1".toList, "User Group".toList]⟩] : List TagOp),
    ∀ t ∈ op.tags, t.all isAscii = true := by decide

/-- CPython's view of `é`: a word character, lower-case of itself. -/
def uLatin : UInfo := { UInfo.ascii with word := fun c => c == 'é' }

/-- ✗ witness (non-ASCII): tags `aé` and `a` have different keys but the same module `a` — the second tag
    client overwrites `endpoints/a.py` of the first, and `APIClient` gets two properties named `a`. -/
theorem tag_module_files_distinct_counterexample :
    (groupEndpoints uLatin [⟨"x".toList, ["aé".toList]⟩, ⟨"y".toList, ["a".toList]⟩]).map
      (fun g => (g.key, g.module)) = [("aé".toList, "a".toList), ("a".toList, "a".toList)] := by
  decide

/-! ### Mock grouping -/

/-- **`grouping_agree`** (F23 repaired; before the repair the mocks emitter grouped by FIRST tag, RAW string, and this was
    false for multi-tag operations, spelling variants of a tag and the empty tag): the list comprehension of
    `MocksEmitter._group_operations_by_tag` never raises, and the mock groups are exactly the groups of the endpoints emitter —
    same key, canonical tag, module, class and operations — taken in the order `sorted(keys)`.  Every operation list. -/
theorem grouping_agree (u : UInfo) (ops : List TagOp) :
    groupMocksRaw u ops = some (groupMocks u ops) ∧
    (groupMocks u ops).Perm (groupEndpoints u ops) ∧
    (surfaces (groupMocks u ops)).Perm (surfaces (groupEndpoints u ops)) ∧
    (groupMocks u ops).map (·.key) = sortKeys ((groupEndpoints u ops).map (·.key)) :=
  ⟨Pog.groupMocksRaw_eq u ops, Pog.groupMocks_perm u ops, (Pog.groupMocks_perm u ops).map _, Pog.groupMocks_keys u ops⟩

/-- Former witness 1 of F23 (defect class `mock-groups-by-first-raw-tag`): an operation with two tags is a method of two tag
    clients and of two mock classes (before the repair `AdminOpsClient` had no mock at all). -/
theorem grouping_agree_former_witness_multi_tag :
    surfaces (groupEndpoints UInfo.ascii [⟨"a".toList, ["Users".toList, "admin-ops".toList]⟩]) =
      [("users".toList, "UsersClient".toList, ["a".toList]), ("admin_ops".toList, "AdminOpsClient".toList, ["a".toList])] ∧
    surfaces (groupMocks UInfo.ascii [⟨"a".toList, ["Users".toList, "admin-ops".toList]⟩]) =
      [("admin_ops".toList, "AdminOpsClient".toList, ["a".toList]), ("users".toList, "UsersClient".toList, ["a".toList])] := by
  decide

/-- Former witness 2 (defect class `mock-tag-case-variants-collide`): tags `Users` / `users` give ONE tag client and ONE mock
    group (before the repair: two mock groups with the same file and class, and `MockAPIClient` got the parameter `users` twice —
    `mock_client.py` was a `SyntaxError`). -/
theorem grouping_agree_former_witness_case_variants :
    surfaces (groupEndpoints UInfo.ascii [⟨"a".toList, ["Users".toList]⟩, ⟨"b".toList, ["users".toList]⟩]) =
      [("users".toList, "UsersClient".toList, ["a".toList, "b".toList])] ∧
    surfaces (groupMocks UInfo.ascii [⟨"a".toList, ["Users".toList]⟩, ⟨"b".toList, ["users".toList]⟩]) =
      [("users".toList, "UsersClient".toList, ["a".toList, "b".toList])] ∧
    mockClientProps UInfo.ascii [⟨"a".toList, ["Users".toList]⟩, ⟨"b".toList, ["users".toList]⟩] = ["users".toList] := by
  decide

/-- Former witness 3: the empty tag `""` is the group `""` (file `.py`, class `UnnamedClassClient`) for the endpoints and for
    the mocks (before the repair: `default` for the mocks). -/
theorem grouping_agree_former_witness_empty_tag :
    surfaces (groupEndpoints UInfo.ascii [⟨"a".toList, [[]]⟩]) = [([], "UnnamedClassClient".toList, ["a".toList])] ∧
    surfaces (groupMocks UInfo.ascii [⟨"a".toList, [[]]⟩]) = [([], "UnnamedClassClient".toList, ["a".toList])] := by
  decide

/-- **`mock_client_props`** (F23 repaired): `MockAPIClient` exposes the tag properties of `APIClient` — the same names in the
    same order (`for key in sorted(...)` in both) — for every operation list. -/
theorem mock_client_props (u : UInfo) (ops : List TagOp) : clientProps u ops = some (mockClientProps u ops) :=
  Pog.clientProps_eq_mock u ops

/-- The former witness: the second tag of an operation has its property on `MockAPIClient`. -/
theorem mock_client_props_former_witness :
    clientProps UInfo.ascii [⟨"a".toList, ["Users".toList, "admin-ops".toList]⟩] =
      some ["admin_ops".toList, "users".toList] ∧
    mockClientProps UInfo.ascii [⟨"a".toList, ["Users".toList, "admin-ops".toList]⟩] = ["admin_ops".toList, "users".toList] := by
  decide

/-- Hence the mock files are pairwise distinct whenever the endpoint files are (ASCII tags, `tag_module_files_distinct_partial`). -/
theorem mock_module_files_distinct_partial (u : UInfo) (ops : List TagOp)
    (hascii : ∀ op ∈ ops, ∀ t ∈ op.tags, t.all isAscii = true) :
    ((groupMocks u ops).map (·.module)).Nodup :=
  ((Pog.groupMocks_perm u ops).map (·.module)).nodup_iff.2 (tag_module_files_distinct_partial u ops hascii)

end Pog.C13
