#!/bin/sh
# usage: tools/sweep.sh [seed] [tier]  — every check on the unchanged tree with evidence/replays redirected to scratch; prints rc + alarms
SEED=${1:-0}; TIER=${2:-quick}; OUT=/tmp/sweep-$SEED-$TIER; rm -rf $OUT; mkdir -p $OUT
cd /verif
for i in 01 02 03 04 05 06 07 08 09 10 11 12 13 14 15 16 17 18 19 20; do
  S=$(date +%s)
  VERIF_SEED=$SEED VERIF_EVIDENCE_DIR=$OUT/ev VERIF_OUT_DIR=$OUT/out ./check C$i --tier $TIER > $OUT/C$i.log 2>&1
  echo "C$i rc=$? ($(( $(date +%s) - S ))s) $(grep -c '^VIOLATION' $OUT/C$i.log) violations"
  grep -A1 '^VIOLATION' $OUT/C$i.log | cut -c1-300
done
