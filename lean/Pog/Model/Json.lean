import Pog.Model.Basic
/-
  M-json — JSON values (type `JsonV`: the name keeps clear of `Lean.Json`, which the driver files open) as the
  Python `json` module hands them to the converter, and the handful of
  CPython built-ins the converter applies to them (`str(x)`, `int(x)`, `bool(x)`, `k in x`, `x[k]`).

  Python                                   model
  ---------------------------------------  -------------------------------------------
  None / bool / int / str / list / dict    `JsonV.null / bool / int / str / arr / obj`
  dict (insertion ordered, str keys)       association list; `aget` = lookup of the FIRST entry, `aset` = `d[k] = v`
  float                                    NOT MODELLED — every number is an `Int` (`5.0` and `5` are the same JSON number
                                           for Python's `==`; non-integral numbers are outside the model)

  TRUSTED (description of CPython 3.12 built-ins, validated by corr_conv.py on ASCII input):
  `pyStr`/`pyRepr` (`str()`/`repr()` of JSON-shaped data; non-ASCII characters are assumed printable),
  `pyIntOfStr` (`int(s)`, ASCII digits/whitespace only), `pyTruthy`, `pyContains`, `pyGetItem`.
-/
namespace Pog

inductive JsonV where
  | null
  | bool (b : Bool)
  | int (n : Int)
  | str (s : Str)
  | arr (xs : List JsonV)
  | obj (kvs : List (Str × JsonV))
  deriving Repr, Inhabited

/-! ### decidable equality (the `deriving` handler does not cover nested inductives) -/

mutual
def JsonV.beq : JsonV → JsonV → Bool
  | .null, .null => true
  | .bool a, .bool b => a == b
  | .int a, .int b => a == b
  | .str a, .str b => a == b
  | .arr a, .arr b => JsonV.beqList a b
  | .obj a, .obj b => JsonV.beqKvs a b
  | _, _ => false
def JsonV.beqList : List JsonV → List JsonV → Bool
  | [], [] => true
  | x :: xs, y :: ys => JsonV.beq x y && JsonV.beqList xs ys
  | _, _ => false
def JsonV.beqKvs : List (Str × JsonV) → List (Str × JsonV) → Bool
  | [], [] => true
  | (k, x) :: xs, (l, y) :: ys => k == l && JsonV.beq x y && JsonV.beqKvs xs ys
  | _, _ => false
end

mutual
theorem JsonV.eq_of_beq : ∀ a b : JsonV, JsonV.beq a b = true → a = b
  | .null, b => by cases b <;> simp [JsonV.beq]
  | .bool _, b => by cases b <;> simp [JsonV.beq]
  | .int _, b => by cases b <;> simp [JsonV.beq]
  | .str _, b => by cases b <;> simp [JsonV.beq]
  | .arr xs, b => by
    cases b <;> simp [JsonV.beq]
    exact JsonV.eq_of_beqList xs _
  | .obj xs, b => by
    cases b <;> simp [JsonV.beq]
    exact JsonV.eq_of_beqKvs xs _
theorem JsonV.eq_of_beqList : ∀ a b : List JsonV, JsonV.beqList a b = true → a = b
  | [], b => by cases b <;> simp [JsonV.beqList]
  | x :: xs, b => by
    cases b with
    | nil => simp [JsonV.beqList]
    | cons y ys =>
      simp only [JsonV.beqList, Bool.and_eq_true, List.cons.injEq]
      exact fun ⟨h1, h2⟩ => ⟨JsonV.eq_of_beq x y h1, JsonV.eq_of_beqList xs ys h2⟩
theorem JsonV.eq_of_beqKvs : ∀ a b : List (Str × JsonV), JsonV.beqKvs a b = true → a = b
  | [], b => by cases b <;> simp [JsonV.beqKvs]
  | (k, x) :: xs, b => by
    cases b with
    | nil => simp [JsonV.beqKvs]
    | cons y ys =>
      obtain ⟨l, y⟩ := y
      simp only [JsonV.beqKvs, Bool.and_eq_true, List.cons.injEq, Prod.mk.injEq, beq_iff_eq]
      exact fun ⟨⟨h0, h1⟩, h2⟩ => ⟨⟨h0, JsonV.eq_of_beq x y h1⟩, JsonV.eq_of_beqKvs xs ys h2⟩
end

mutual
theorem JsonV.beq_refl : ∀ a : JsonV, JsonV.beq a a = true
  | .null => by simp [JsonV.beq]
  | .bool _ => by simp [JsonV.beq]
  | .int _ => by simp [JsonV.beq]
  | .str _ => by simp [JsonV.beq]
  | .arr xs => by simp [JsonV.beq, JsonV.beqList_refl xs]
  | .obj xs => by simp [JsonV.beq, JsonV.beqKvs_refl xs]
theorem JsonV.beqList_refl : ∀ a : List JsonV, JsonV.beqList a a = true
  | [] => by simp [JsonV.beqList]
  | x :: xs => by simp [JsonV.beqList, JsonV.beq_refl x, JsonV.beqList_refl xs]
theorem JsonV.beqKvs_refl : ∀ a : List (Str × JsonV), JsonV.beqKvs a a = true
  | [] => by simp [JsonV.beqKvs]
  | (k, x) :: xs => by simp [JsonV.beqKvs, JsonV.beq_refl x, JsonV.beqKvs_refl xs]
end

instance : DecidableEq JsonV := fun a b =>
  if h : JsonV.beq a b = true then isTrue (JsonV.eq_of_beq a b h)
  else isFalse (fun e => h (e ▸ JsonV.beq_refl a))

def JsonV.isStr : JsonV → Bool
  | .str _ => true
  | _ => false

/-! ### association lists (Python `dict` with `str` keys) -/

/-- `d.get(k)`: the first entry under `k`. -/
def aget {α : Type} : List (Str × α) → Str → Option α
  | [], _ => none
  | (k', v) :: d, k => if k' = k then some v else aget d k

/-- `d[k] = v`: an existing key keeps its position, a new key is appended. -/
def aset {α : Type} : List (Str × α) → Str → α → List (Str × α)
  | [], k, v => [(k, v)]
  | (k', v') :: d, k, v => if k' = k then (k', v) :: d else (k', v') :: aset d k v

def akeys {α : Type} (d : List (Str × α)) : List Str := d.map Prod.fst

/-- `dict(pairs)` / a dict display `{k1: v1, k2: v2, …}` evaluated left to right. -/
def aofPairs {α : Type} (kvs : List (Str × α)) : List (Str × α) :=
  kvs.foldl (fun acc kv => aset acc kv.1 kv.2) []

/-! ### CPython built-ins on JSON-shaped data (trusted) -/

/-- `bool(x)`. -/
def pyTruthy : JsonV → Bool
  | .null => false
  | .bool b => b
  | .int n => n != 0
  | .str s => !s.isEmpty
  | .arr xs => !xs.isEmpty
  | .obj kvs => !kvs.isEmpty

/-- Decimal rendering of an integer (`str(n)`). -/
def intStr (n : Int) : Str :=
  match n with
  | .ofNat k => natStr k
  | .negSucc k => '-' :: natStr (k + 1)

def hexDigit (n : Nat) : Char :=
  if n < 10 then Char.ofNat (48 + n) else Char.ofNat (87 + n)

/-- One character inside `repr(s)` with quote character `q`. -/
def reprChar (q : Char) (c : Char) : Str :=
  if c == '\\' then ['\\', '\\']
  else if c == q then ['\\', q]
  else if c == '\n' then ['\\', 'n']
  else if c == '\r' then ['\\', 'r']
  else if c == '\t' then ['\\', 't']
  else if c.toNat < 32 || c.toNat == 127 then
    ['\\', 'x', hexDigit (c.toNat / 16), hexDigit (c.toNat % 16)]
  else [c]

/-- `repr(s)` for a `str`: single quotes unless the text has a `'` and no `"`. -/
def pyReprStr (s : Str) : Str :=
  let q : Char := if s.contains '\'' && !s.contains '"' then '"' else '\''
  q :: (s.flatMap (reprChar q)) ++ [q]

mutual
/-- `repr(x)` of JSON-shaped data. -/
def pyRepr : JsonV → Str
  | .null => "None".toList
  | .bool true => "True".toList
  | .bool false => "False".toList
  | .int n => intStr n
  | .str s => pyReprStr s
  | .arr xs => '[' :: pyReprList xs ++ [']']
  | .obj kvs => '{' :: pyReprKvs kvs ++ ['}']
def pyReprList : List JsonV → Str
  | [] => []
  | [x] => pyRepr x
  | x :: y :: rest => pyRepr x ++ ", ".toList ++ pyReprList (y :: rest)
def pyReprKvs : List (Str × JsonV) → Str
  | [] => []
  | [(k, v)] => pyReprStr k ++ ": ".toList ++ pyRepr v
  | (k, v) :: kv2 :: rest => pyReprStr k ++ ": ".toList ++ pyRepr v ++ ", ".toList ++ pyReprKvs (kv2 :: rest)
end

/-- `str(x)`. -/
def pyStr : JsonV → Str
  | .str s => s
  | j => pyRepr j

/-- The characters `int()` strips: `Py_UNICODE_ISSPACE` restricted to ASCII. -/
def isPySpace (c : Char) : Bool :=
  c == ' ' || (9 ≤ c.toNat && c.toNat ≤ 13) || (28 ≤ c.toNat && c.toNat ≤ 31)

def pyStripSpace (s : Str) : Str :=
  ((s.dropWhile isPySpace).reverse.dropWhile isPySpace).reverse

/-- Digits with single underscores between them; `acc` is the value so far, `prevDigit` says whether
    the previous character was a digit (an underscore must sit between two digits). -/
def digitsVal : Str → Nat → Bool → Option Nat
  | [], acc, prevDigit => if prevDigit then some acc else none
  | c :: cs, acc, prevDigit =>
    if isDigitA c then digitsVal cs (acc * 10 + (c.toNat - 48)) true
    else if c == '_' && prevDigit then
      match cs with
      | d :: _ => if isDigitA d then digitsVal cs acc false else none
      | [] => none
    else none

/-- `int(s)` for a `str` (base 10): `none` = `ValueError`. -/
def pyIntOfStr (s : Str) : Option Int :=
  match pyStripSpace s with
  | '-' :: ds => (digitsVal ds 0 false).map (fun n => - (Int.ofNat n))
  | '+' :: ds => (digitsVal ds 0 false).map Int.ofNat
  | ds => (digitsVal ds 0 false).map Int.ofNat

/-- Is `k` a substring of `s` (`k in s` for two `str`s). -/
def isInfix (k : Str) : Str → Bool
  | [] => k.isEmpty
  | c :: cs => k.isPrefixOf (c :: cs) || isInfix k cs

/-- `k in o` for a `str` `k`: `none` = `TypeError` (argument of type … is not iterable). -/
def pyContains (o : JsonV) (k : Str) : Option Bool :=
  match o with
  | .obj kvs => some ((aget kvs k).isSome)
  | .str s => some (isInfix k s)
  | .arr xs => some (xs.any (fun x => x == JsonV.str k))
  | _ => none

/-- `o[k]` for a `str` `k`: `none` in the outer option = `TypeError` (not subscriptable / bad index type),
    `some none` = `KeyError`. -/
def pyGetItem (o : JsonV) (k : Str) : Option (Option JsonV) :=
  match o with
  | .obj kvs => some (aget kvs k)
  | _ => none

/-- Python `==` between a JSON scalar and an enum member value (`True == 1`). -/
def pyEqScalar : JsonV → JsonV → Bool
  | .null, .null => true
  | .bool a, .bool b => a == b
  | .bool a, .int n => n == (if a then 1 else 0)
  | .int n, .bool a => n == (if a then 1 else 0)
  | .int a, .int b => a == b
  | .str a, .str b => a == b
  | _, _ => false

end Pog
