"""C10 — without force, existing output is never touched; writes stay contained."""
from __future__ import annotations

from .. import findings
from . import _generic as g

PROP = "C10"
CORR = "vf.corr.plan"
# classes of the shared plan oracle that belong to C09 are known findings there; for C10 they are not C10 failures at all
C09_CLASSES = {"diff-ignores-missing-file": "F20", "diff-ignores-extra-file": "F20", "diff-ignores-non-py": "F20", "diff-ignores-line-endings": "F20",
               "force-double-emit": "F19", "rich-init-only-on-force": "F33", "rich-init-literal-backslash-n": "F6", "url-vars-hash-order": "F18",
               "shared-core-registry-diff": "F21"}


def check(run, ctx) -> None:
    known = findings.Known(run, PROP)
    g.run_corr(run, ctx, CORR, "Plan (real generate under an audit hook, fault at every emitter, 6 layouts x 4 tree states x force)", quick=0.6, thorough=4.0)
    g.run_oracle(run, ctx, _C10Known(known), CORR, "C10/C09 on the real generator (snapshots before/after)", C09_CLASSES, quick=0.5, thorough=4.0)
    known.report_unreplayed()


class _C10Known:
    """The plan oracle also evaluates C09's statement; those classes are C09's recorded findings and are ignored here."""

    def __init__(self, known):
        self.known = known

    def listed(self, fid):
        return fid in ("F20", "F19", "F33", "F6", "F18", "F21") or self.known.listed(fid)

    def hit(self, fid, case, what=""):
        if fid in ("F20", "F19", "F33", "F6", "F18", "F21"):
            return True
        return self.known.hit(fid, case, what)


def search(run, ctx) -> None:
    check(run, ctx)


def replay(run, ctx, rec) -> bool:
    return g.replay_generic(rec)
