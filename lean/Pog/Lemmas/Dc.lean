import Pog.Model.Dc
import Pog.Lemmas.Fresh
import Pog.Lemmas.Diff
import Pog.Lemmas.Sinks
import Pog.Lemmas.Names
/-
  Lemmas about M-dc (`Pog/Model/Dc.lean`): the sort of `sorted_props`, the zip of properties and identifiers,
  the renderer's order, the enum-member rule.
-/
namespace Pog.Dc
open Pog Pog.Diff

/-! ## `keyLe` is a total pre-order on property names, antisymmetric -/

theorem keyLe_total (req : List Str) (a b : Str) : keyLe req a b = true ∨ keyLe req b a = true := by
  simp only [keyLe]
  generalize req.contains a = ra
  generalize req.contains b = rb
  cases ra <;> cases rb <;> simp
  all_goals
    cases h : strLt b a with
    | false => exact Or.inl rfl
    | true => exact Or.inr (strLt_asymm h)

theorem not_lt_trans {a b c : Str} (h₁ : strLt b a = false) (h₂ : strLt c b = false) : strLt c a = false := by
  cases h : strLt c a with
  | false => rfl
  | true =>
    cases hab : strLt a b with
    | true => rw [strLt_trans h hab] at h₂; cases h₂
    | false =>
      have : a = b := strLt_total hab h₁
      subst this
      rw [h] at h₂; cases h₂

theorem keyLe_trans {req : List Str} {a b c : Str} (h₁ : keyLe req a b = true) (h₂ : keyLe req b c = true) :
    keyLe req a c = true := by
  simp only [keyLe] at *
  generalize req.contains a = ra at *
  generalize req.contains b = rb at *
  generalize req.contains c = rc at *
  cases ra <;> cases rb <;> cases rc <;> simp at h₁ h₂ ⊢
  all_goals exact not_lt_trans h₁ h₂

theorem keyLe_antisymm {req : List Str} {a b : Str} (h₁ : keyLe req a b = true) (h₂ : keyLe req b a = true) :
    a = b := by
  simp only [keyLe] at *
  generalize req.contains a = ra at *
  generalize req.contains b = rb at *
  cases ra <;> cases rb <;> simp at h₁ h₂
  all_goals exact strLt_total h₂ h₁

/-- A required key never comes after a non-required one. -/
theorem keyLe_req {req : List Str} {a b : Str} (h : keyLe req a b = true) (hb : req.contains b = true) :
    req.contains a = true := by
  simp only [keyLe] at h
  rw [hb] at h
  generalize req.contains a = ra at *
  cases ra
  · simp at h
  · rfl

/-- Inside one group the order is the order of the names. -/
theorem keyLe_same {req : List Str} {a b : Str} (h : keyLe req a b = true)
    (hg : req.contains a = req.contains b) : strLt b a = false := by
  simp only [keyLe] at h
  rw [hg] at h
  simpa using h

theorem keyLe_congr {r₁ r₂ : List Str} (h : ∀ k, k ∈ r₁ ↔ k ∈ r₂) (a b : Str) : keyLe r₁ a b = keyLe r₂ a b := by
  have hc : ∀ k, r₁.contains k = r₂.contains k := by
    intro k
    cases h₁ : r₁.contains k <;> cases h₂ : r₂.contains k <;> simp_all
  simp only [keyLe]
  rw [hc a, hc b]

/-! ## `sortProps` -/

theorem insertProp_perm (req : List Str) (p : DcProp) (l : List DcProp) : (insertProp req p l).Perm (p :: l) := by
  induction l with
  | nil => exact List.Perm.refl _
  | cons q qs ih =>
    simp only [insertProp]
    split
    · exact List.Perm.refl _
    · exact (List.Perm.cons q ih).trans (List.Perm.swap p q qs)

theorem sortProps_perm (req : List Str) (l : List DcProp) : (sortProps req l).Perm l := by
  induction l with
  | nil => exact List.Perm.refl _
  | cons p ps ih => exact (insertProp_perm req p _).trans (List.Perm.cons p ih)

/-- The order relation of the sort, on properties. -/
def PropLe (req : List Str) (a b : DcProp) : Prop := keyLe req a.key b.key = true

theorem insertProp_sorted (req : List Str) (p : DcProp) (l : List DcProp) (h : l.Pairwise (PropLe req)) :
    (insertProp req p l).Pairwise (PropLe req) := by
  induction l with
  | nil => simp [insertProp]
  | cons q qs ih =>
    have hq := List.pairwise_cons.1 h
    simp only [insertProp]
    split
    · rename_i hle
      refine List.pairwise_cons.2 ⟨?_, h⟩
      intro x hx
      rcases List.mem_cons.1 hx with rfl | hx
      · exact hle
      · exact keyLe_trans hle (hq.1 x hx)
    · rename_i hle
      refine List.pairwise_cons.2 ⟨?_, ih hq.2⟩
      intro x hx
      have hx' := (insertProp_perm req p qs).mem_iff.1 hx
      rcases List.mem_cons.1 hx' with rfl | hx'
      · rcases keyLe_total req x.key q.key with h' | h'
        · exact absurd h' hle
        · exact h'
      · exact hq.1 x hx'

theorem sortProps_sorted (req : List Str) (l : List DcProp) : (sortProps req l).Pairwise (PropLe req) := by
  induction l with
  | nil => exact List.Pairwise.nil
  | cons p ps ih => exact insertProp_sorted req p _ ih

theorem eq_of_key_eq {l : List DcProp} (hnd : (l.map DcProp.key).Nodup) {a b : DcProp} (ha : a ∈ l) (hb : b ∈ l)
    (h : a.key = b.key) : a = b := by
  induction l with
  | nil => cases ha
  | cons x xs ih =>
    simp only [List.map_cons, List.nodup_cons, List.mem_map, not_exists, not_and] at hnd
    rcases List.mem_cons.1 ha with rfl | ha' <;> rcases List.mem_cons.1 hb with rfl | hb'
    · rfl
    · exact absurd h.symm (hnd.1 b hb')
    · exact absurd h (hnd.1 a ha')
    · exact ih hnd.2 ha' hb'

/-- `sorted(...)` does not depend on the order of the `properties` mapping. -/
theorem sortProps_of_perm (req : List Str) {l₁ l₂ : List DcProp} (hp : l₁.Perm l₂)
    (hnd : (l₁.map DcProp.key).Nodup) : sortProps req l₁ = sortProps req l₂ := by
  refine List.Perm.eq_of_pairwise ?_ (sortProps_sorted req l₁) (sortProps_sorted req l₂)
    ((sortProps_perm req l₁).trans (hp.trans (sortProps_perm req l₂).symm))
  intro a b ha hb h₁ h₂
  have ha' := (sortProps_perm req l₁).mem_iff.1 ha
  have hb' := hp.mem_iff.2 ((sortProps_perm req l₂).mem_iff.1 hb)
  exact eq_of_key_eq hnd ha' hb' (keyLe_antisymm h₁ h₂)

theorem insertProp_congr {r₁ r₂ : List Str} (h : ∀ k, k ∈ r₁ ↔ k ∈ r₂) (p : DcProp) (l : List DcProp) :
    insertProp r₁ p l = insertProp r₂ p l := by
  induction l with
  | nil => rfl
  | cons q qs ih => simp only [insertProp, keyLe_congr h, ih]

/-- … nor on the order (or multiplicity) of the entries of `required`. -/
theorem sortProps_congr {r₁ r₂ : List Str} (h : ∀ k, k ∈ r₁ ↔ k ∈ r₂) (l : List DcProp) :
    sortProps r₁ l = sortProps r₂ l := by
  induction l with
  | nil => rfl
  | cons p ps ih => simp only [sortProps, ih, insertProp_congr h]

/-- A list in which no `q`-element follows a non-`q`-element is its `q`-part followed by its non-`q`-part. -/
theorem eq_filter_append_of_pairwise {α : Type} (q : α → Bool) (l : List α)
    (h : l.Pairwise (fun a b => q b = true → q a = true)) :
    l = l.filter q ++ l.filter (fun x => !q x) := by
  induction l with
  | nil => rfl
  | cons x xs ih =>
    have hx := List.pairwise_cons.1 h
    cases hq : q x with
    | true =>
      rw [List.filter_cons_of_pos (by simpa using hq), List.filter_cons_of_neg (by simp [hq])]
      rw [List.cons_append, ← ih hx.2]
    | false =>
      have hall : ∀ y ∈ xs, q y = false := by
        intro y hy
        cases hy' : q y with
        | false => rfl
        | true => rw [hx.1 y hy hy'] at hq; cases hq
      have h1 : xs.filter q = [] := List.filter_eq_nil_iff.2 (fun y hy => by simp [hall y hy])
      have h2 : xs.filter (fun x => !q x) = xs := List.filter_eq_self.2 (fun y hy => by simp [hall y hy])
      rw [List.filter_cons_of_neg (by simp [hq]), List.filter_cons_of_pos (by simp [hq]), h1, h2]
      rfl

def isReq (req : List Str) (p : DcProp) : Bool := req.contains p.key

theorem sortProps_req_first (req : List Str) (l : List DcProp) :
    (sortProps req l).Pairwise (fun a b => isReq req b = true → isReq req a = true) :=
  (sortProps_sorted req l).imp (fun h hb => keyLe_req h hb)

/-- Required properties first. -/
theorem sortProps_split (req : List Str) (l : List DcProp) :
    sortProps req l = (sortProps req l).filter (isReq req) ++ (sortProps req l).filter (fun p => !isReq req p) :=
  eq_filter_append_of_pairwise _ _ (sortProps_req_first req l)

/-- Each group is in strictly ascending order of the names. -/
theorem sortProps_group_sorted (req : List Str) (l : List DcProp) (hnd : (l.map DcProp.key).Nodup) (g : Bool) :
    ((sortProps req l).filter (fun p => isReq req p == g)).Pairwise (fun a b => strLt a.key b.key = true) := by
  have hnd' : ((sortProps req l).map DcProp.key).Nodup := ((sortProps_perm req l).map _).nodup_iff.2 hnd
  have hne : (sortProps req l).Pairwise (fun a b => a.key ≠ b.key) := List.pairwise_map.1 hnd'
  have hboth := ((sortProps_sorted req l).and hne).filter (fun p => isReq req p == g)
  rw [List.pairwise_iff_forall_sublist] at hboth ⊢
  intro a b hab
  have ha : isReq req a = g := by
    have := (List.mem_filter.1 (hab.subset (List.mem_cons_self))).2
    simpa using this
  have hb : isReq req b = g := by
    have := (List.mem_filter.1 (hab.subset (List.mem_cons_of_mem _ (List.mem_cons_self)))).2
    simpa using this
  obtain ⟨hle, hne⟩ := hboth hab
  have hnot := keyLe_same hle (by show isReq req a = isReq req b; rw [ha, hb])
  cases hlt : strLt a.key b.key with
  | true => rfl
  | false => exact absurd (strLt_total hlt hnot) hne

/-! ## `fields_data` of an object schema: properties zipped with their identifiers -/

theorem zipFields_length (u : UInfo) (req : List Str) : ∀ (ps : List DcProp) (ns : List Str),
    ps.length = ns.length → (zipFields u req ps ns).length = ps.length
  | [], [], _ => rfl
  | [], _ :: _, h => by simp at h
  | _ :: _, [], h => by simp at h
  | _ :: ps, _ :: ns, h => by simp [zipFields, zipFields_length u req ps ns (by simpa using h)]

theorem zipFields_pyName (u : UInfo) (req : List Str) : ∀ (ps : List DcProp) (ns : List Str),
    ps.length = ns.length → (zipFields u req ps ns).map DcField.pyName = ns
  | [], [], _ => rfl
  | [], _ :: _, h => by simp at h
  | _ :: _, [], h => by simp at h
  | p :: ps, n :: ns, h => by
    simp [zipFields, mkField, zipFields_pyName u req ps ns (by simpa using h)]

theorem zipFields_wire (u : UInfo) (req : List Str) : ∀ (ps : List DcProp) (ns : List Str),
    ps.length = ns.length → (zipFields u req ps ns).map DcField.wire = ps.map (fun p => some p.key)
  | [], [], _ => rfl
  | [], _ :: _, h => by simp at h
  | _ :: _, [], h => by simp at h
  | p :: ps, n :: ns, h => by
    simp [zipFields, mkField, zipFields_wire u req ps ns (by simpa using h)]

theorem zipFields_pyType (u : UInfo) (req : List Str) : ∀ (ps : List DcProp) (ns : List Str),
    ps.length = ns.length → (zipFields u req ps ns).map DcField.pyType = ps.map DcProp.pyType
  | [], [], _ => rfl
  | [], _ :: _, h => by simp at h
  | _ :: _, [], h => by simp at h
  | p :: ps, n :: ns, h => by
    simp [zipFields, mkField, zipFields_pyType u req ps ns (by simpa using h)]

theorem zipFields_default (u : UInfo) (req : List Str) : ∀ (ps : List DcProp) (ns : List Str),
    ps.length = ns.length →
    (zipFields u req ps ns).map DcField.default
      = ps.map (fun p => if req.contains p.key then none else some (fieldDefault u p))
  | [], [], _ => rfl
  | [], _ :: _, h => by simp at h
  | _ :: _, [], h => by simp at h
  | p :: ps, n :: ns, h => by
    simp [zipFields, mkField, zipFields_default u req ps ns (by simpa using h)]

theorem zipFields_hasDefault (u : UInfo) (req : List Str) (ps : List DcProp) (ns : List Str)
    (h : ps.length = ns.length) :
    (zipFields u req ps ns).map hasDefault = ps.map (fun p => !isReq req p) := by
  have := congrArg (List.map Option.isSome) (zipFields_default u req ps ns h)
  simp only [List.map_map] at this
  refine Eq.trans ?_ (this.trans ?_)
  · rfl
  · apply List.map_congr_left
    intro p _
    simp only [Function.comp, isReq]
    cases req.contains p.key <;> rfl

theorem zipFields_mem (u : UInfo) (req : List Str) : ∀ (ps : List DcProp) (ns : List Str) (f : DcField),
    f ∈ zipFields u req ps ns → ∃ p ∈ ps, ∃ n ∈ ns, f = mkField u req p n
  | [], _, _, h => by simp [zipFields] at h
  | _ :: _, [], _, h => by simp [zipFields] at h
  | p :: ps, n :: ns, f, h => by
    simp only [zipFields, List.mem_cons] at h
    rcases h with rfl | h
    · exact ⟨p, List.mem_cons_self, n, List.mem_cons_self, rfl⟩
    · obtain ⟨p', hp, n', hn, e⟩ := zipFields_mem u req ps ns f h
      exact ⟨p', List.mem_cons_of_mem _ hp, n', List.mem_cons_of_mem _ hn, e⟩

theorem mappingsOf_zipFields (u : UInfo) (req : List Str) : ∀ (ps : List DcProp) (ns : List Str),
    mappingsOf (zipFields u req ps ns) = (ps.map DcProp.key).zip ns
  | [], _ => by simp [zipFields, mappingsOf]
  | _ :: _, [] => by simp [zipFields, mappingsOf]
  | p :: ps, n :: ns => by
    have ih := mappingsOf_zipFields u req ps ns
    simp only [mappingsOf] at ih
    simp [zipFields, mappingsOf, mkField, ih]

/-- The collision loop terminates; `fields_data` is the sorted properties zipped with pairwise distinct names. -/
theorem objectFields_spec (u : UInfo) (s : DcSchema) :
    ∃ names, fieldNames ((sortProps s.required s.props).map DcProp.key) = some names
      ∧ names.Nodup ∧ (sortProps s.required s.props).length = names.length
      ∧ objectFields u s = some (zipFields u s.required (sortProps s.required s.props) names) := by
  obtain ⟨names, hfn, hnd, hlen⟩ := assignAll_map_spec sufUnderscore 2 sufUnderscore_inj dcFieldBase
    ((sortProps s.required s.props).map DcProp.key)
  have hfn' : fieldNames ((sortProps s.required s.props).map DcProp.key) = some names := hfn
  refine ⟨names, hfn', hnd, by simpa using hlen.symm, ?_⟩
  simp only [objectFields, hfn', Option.map_some]

theorem fieldsData_isSome (u : UInfo) (s : DcSchema) : (fieldsData u s).isSome = true := by
  unfold fieldsData
  split <;> try rfl
  obtain ⟨names, _, _, _, h⟩ := objectFields_spec u s
  rw [h]; rfl

/-! ## the renderer's order -/

theorem renderOrder_perm (fs : List DcField) : (renderOrder fs).Perm fs := by
  have := List.filter_append_perm (fun f => !hasDefault f) fs
  simpa [renderOrder] using this

theorem defaultsLast_iff (seen : Bool) (l : List DcField) :
    defaultsLast seen l = true ↔
      (seen = true → ∀ x ∈ l, hasDefault x = true)
        ∧ l.Pairwise (fun a b => hasDefault a = true → hasDefault b = true) := by
  induction l generalizing seen with
  | nil => simp [defaultsLast]
  | cons f fs ih =>
    simp only [defaultsLast, List.pairwise_cons, List.mem_cons, forall_eq_or_imp]
    cases hf : hasDefault f with
    | true =>
      simp only [if_true, ih, forall_const]
      constructor
      · rintro ⟨h1, h2⟩
        exact ⟨fun _ => ⟨trivial, h1⟩, h1, h2⟩
      · rintro ⟨_, h1, h2⟩
        exact ⟨h1, h2⟩
    | false =>
      cases seen with
      | true => simp
      | false => simp [ih]

/-- No field without a default follows a field with a default. -/
theorem renderOrder_pairwise (fs : List DcField) :
    (renderOrder fs).Pairwise (fun a b => hasDefault a = true → hasDefault b = true) := by
  unfold renderOrder
  rw [List.pairwise_append]
  refine ⟨?_, ?_, ?_⟩
  · rw [List.pairwise_iff_forall_sublist]
    intro a b hab ha
    have := (List.mem_filter.1 (hab.subset List.mem_cons_self)).2
    simp [ha] at this
  · rw [List.pairwise_iff_forall_sublist]
    intro a b hab _
    exact (List.mem_filter.1 (hab.subset (List.mem_cons_of_mem _ List.mem_cons_self))).2
  · intro a _ b hb _
    exact (List.mem_filter.1 hb).2

theorem renderOrder_defaultsLast (fs : List DcField) : defaultsLast false (renderOrder fs) = true :=
  (defaultsLast_iff false _).2 ⟨fun h => Bool.noConfusion h, renderOrder_pairwise fs⟩

/-- When the fields without a default already come first, the renderer changes nothing. -/
theorem renderOrder_eq_self (fs : List DcField)
    (h : fs.Pairwise (fun a b => hasDefault b = false → hasDefault a = false)) : renderOrder fs = fs := by
  have := eq_filter_append_of_pairwise (fun f => !hasDefault f) fs
    (h.imp (fun hab hb => by simpa using hab (by simpa using hb)))
  simp only [Bool.not_not] at this
  exact this.symm

theorem objectFields_renderOrder (u : UInfo) (s : DcSchema) (fs : List DcField) (h : objectFields u s = some fs) :
    renderOrder fs = fs := by
  obtain ⟨names, _, _, hlen, h'⟩ := objectFields_spec u s
  rw [h] at h'
  cases h'
  apply renderOrder_eq_self
  have key : ((zipFields u s.required (sortProps s.required s.props) names).map hasDefault).Pairwise
      (fun x y => y = false → x = false) := by
    rw [zipFields_hasDefault u _ _ _ hlen]
    apply List.pairwise_map.2
    exact (sortProps_req_first s.required s.props).imp (fun hab hb => by
      simp only [Bool.not_eq_false'] at hb ⊢
      exact hab hb)
  exact List.pairwise_map.1 key

/-! ## `generate` -/

theorem generate_ok_inv (u : UInfo) (s : DcSchema) (b : Str) (out : DcOut) (h : generate u s b = .ok out) :
    s.name.isSome = true ∧ b ≠ [] ∧ out.shape = shape s
      ∧ fieldsData u s = some out.fields
      ∧ out.mappings = mappingsOf out.fields
      ∧ out.body = renderOrder out.fields
      ∧ (shape s ≠ .wrapperJson → out.lines = bodyLines out.fields)
      ∧ (textMentionsFactory s b out.fields = true → shape s ≠ .wrapperJson → fieldImported out.fields = true) := by
  unfold generate at h
  split at h
  · cases h
  rename_i hn
  split at h
  · cases h
  rename_i hb
  have hn' : s.name.isSome = true := by
    cases hs : s.name with
    | none => simp [hs] at hn
    | some _ => rfl
  have hb' : b ≠ [] := by
    intro e; subst e; simp at hb
  split at h
  · rename_i hsh
    cases h
    refine ⟨hn', hb', hsh.symm, ?_, rfl, rfl, fun hne => absurd hsh hne, fun _ hne => absurd hsh hne⟩
    simp [fieldsData, hsh]
  · rename_i sh hsh
    split at h
    · cases h
    · rename_i fs hfs
      split at h
      · cases h
      · rename_i hchk
        cases h
        refine ⟨hn', hb', rfl, hfs, rfl, rfl, fun _ => rfl, fun hm _ => ?_⟩
        simp only [hm, Bool.true_and, Bool.not_eq_true', Bool.not_eq_false] at hchk
        simpa using hchk

theorem eq_error_of_raised {r : Except DcErr DcOut} {e : DcErr} (h : raised r = some e) : r = .error e := by
  cases r with
  | error e' => simp only [raised, Option.some.injEq] at h; rw [h]
  | ok _ => simp [raised] at h

/-- `generate` succeeds as soon as the pre-conditions hold and the `default_factory` check does not fire. -/
theorem generate_ok_of (u : UInfo) (s : DcSchema) (b : Str) (hn : s.name.isSome = true) (hb : b ≠ [])
    (hsh : shape s ≠ .wrapperJson) (fs : List DcField) (hfs : fieldsData u s = some fs)
    (hchk : textMentionsFactory s b fs = false ∨ fieldImported fs = true) :
    generate u s b = .ok { shape := shape s, fields := fs, mappings := mappingsOf fs, body := renderOrder fs,
                           lines := bodyLines fs, valueType := none } := by
  have hn' : s.name.isNone = false := by
    cases hs : s.name with
    | none => simp [hs] at hn
    | some _ => rfl
  have hb' : b.isEmpty = false := by
    cases b with
    | nil => exact absurd rfl hb
    | cons _ _ => rfl
  have hc : (textMentionsFactory s b fs && !fieldImported fs) = false := by
    rcases hchk with h | h <;> simp [h]
  unfold generate
  simp only [hn', hb', Bool.false_eq_true, if_false]
  cases hs : shape s with
  | wrapperJson => exact absurd hs hsh
  | arrayWrapper => simp [hfs, hc]
  | object => simp [hfs, hc]
  | empty => simp [hfs, hc]

/-! ## the enum-member rule versus `EnumGenerator` -/

theorem replaceChar_append (a : Char) (b : Str) (x y : Str) :
    replaceChar a b (x ++ y) = replaceChar a b x ++ replaceChar a b y := by
  simp [replaceChar, List.flatMap_append]

theorem upperS_append (u : UInfo) (x y : Str) : u.upperS (x ++ y) = u.upperS x ++ u.upperS y := by
  simp [UInfo.upperS, List.flatMap_append]

theorem enumDefaultMember_append (u : UInfo) (x y : Str) :
    enumDefaultMember u (x ++ y) = enumDefaultMember u x ++ enumDefaultMember u y := by
  simp [enumDefaultMember, upperS_append, replaceChar_append]

theorem enumDefaultMember_cons (u : UInfo) (c : Char) (cs : Str) :
    enumDefaultMember u (c :: cs) = enumDefaultMember u [c] ++ enumDefaultMember u cs :=
  enumDefaultMember_append u [c] cs

/-- The agreeing base names: `^[A-Z_][A-Z0-9_]*$` and not a keyword when lower-cased. -/
def enumAgree (base : Str) : Bool := enumOK base && !isKeyword (base.map lowerA)

theorem enumFilter_of_all_EP {s : Str} (h : s.all EP = true) : enumFilter s = s := by
  unfold enumFilter
  apply List.filter_eq_self.2
  intro c hc
  exact List.all_eq_true.1 h c hc

theorem start_not_digit {c : Char} (h : (isUpperA c || c == '_') = true) : isDigitA c = false := by
  char_arith

theorem enumS1_of_ok (u : UInfo) (v : Str) (hok : enumOK (enumDefaultMember u v) = true) :
    enumS1 u v = enumDefaultMember u v := by
  have hall := enumOK_all hok
  have hf : enumFilter (replaceChar ' ' ['_'] (replaceChar '-' ['_'] (u.upperS v))) = enumDefaultMember u v :=
    enumFilter_of_all_EP hall
  unfold enumS1
  simp only [hf]
  cases hb : enumDefaultMember u v with
  | nil => rw [hb] at hok; cases hok
  | cons c cs =>
    rw [hb] at hok
    simp only [enumOK, Bool.and_eq_true] at hok
    simp [startsDigitA, start_not_digit hok.1]

theorem enumS3_of_ok {s : Str} (h : enumOK s = true) : enumS3 s = s := by
  cases s with
  | nil => cases h
  | cons c cs =>
    have hc : (isUpperA c || c == '_') = true := by
      simp only [enumOK, Bool.and_eq_true] at h; exact h.1
    have : startsUpperOrUnderscore (c :: cs) = true := by
      simp only [startsUpperOrUnderscore]
      rw [upperA_of_EP (EP_of_start hc)]
      exact hc
    simp [enumS3, this]

/-- EXACT: the two rules give the same member name iff the default's base name is already a clean identifier. -/
theorem enumMember_agree_iff (u : UInfo) (v : Str) :
    enumMemberStr u v = some (enumDefaultMember u v) ↔ enumAgree (enumDefaultMember u v) = true := by
  rw [enumMemberStr_some]
  simp only [enumAgree, Bool.and_eq_true, Bool.not_eq_true', Option.some.injEq]
  constructor
  · intro h
    have hok : enumOK (enumDefaultMember u v) = true := by
      rw [← h]; exact enumS3_ok (enumS2_ok (enumS1_ok u v))
    refine ⟨hok, ?_⟩
    cases hk : isKeyword ((enumDefaultMember u v).map lowerA) with
    | false => rfl
    | true =>
      rw [enumS1_of_ok u v hok] at h
      have h2 : enumS2 (enumDefaultMember u v) = enumDefaultMember u v ++ ['_'] := by simp [enumS2, hk]
      rw [h2, enumS3_of_ok (enumOK_append_us hok)] at h
      have := congrArg List.length h
      simp at this
  · rintro ⟨hok, hk⟩
    rw [enumS1_of_ok u v hok]
    have h2 : enumS2 (enumDefaultMember u v) = enumDefaultMember u v := by simp [enumS2, hk]
    rw [h2, enumS3_of_ok hok]

/-- The intended class of enum values: `[A-Za-z][A-Za-z0-9 _-]*`. -/
def enumPlainChar (c : Char) : Bool := isAlnumA c || c == ' ' || c == '_' || c == '-'
def enumPlain : Str → Bool
  | [] => false
  | c :: cs => isAlphaA c && cs.all enumPlainChar

theorem isAscii_of_plain {c : Char} (h : enumPlainChar c = true) : isAscii c = true := by
  unfold enumPlainChar at h
  simp only [Bool.or_eq_true, beq_iff_eq] at h
  rcases h with ((h | h) | h) | h
  · exact isAscii_of_isAlnumA h
  · subst h; decide
  · subst h; decide
  · subst h; decide

theorem enumDefaultMember_ascii (u : UInfo) {c : Char} (h : isAscii c = true) :
    enumDefaultMember u [c] = replaceChar ' ' ['_'] (replaceChar '-' ['_'] [upperA c]) := by
  simp [enumDefaultMember, UInfo.upperS, h]

theorem enumDefaultMember_alnum (u : UInfo) {c : Char} (h : isAlnumA c = true) :
    enumDefaultMember u [c] = [upperA c] := by
  have h1 : isAlnumA (upperA c) = true := isAlnumA_upperA h
  have n1 : upperA c ≠ '-' := by
    intro hx; rw [hx] at h1; revert h1; decide
  have n2 : upperA c ≠ ' ' := by
    intro hx; rw [hx] at h1; revert h1; decide
  rw [enumDefaultMember_ascii u (isAscii_of_isAlnumA h)]
  simp [replaceChar, n1, n2]

theorem enumDefaultMember_plain_EP (u : UInfo) {c : Char} (h : enumPlainChar c = true) :
    (enumDefaultMember u [c]).all EP = true := by
  unfold enumPlainChar at h
  simp only [Bool.or_eq_true, beq_iff_eq] at h
  rcases h with ((h | h) | h) | h
  · rw [enumDefaultMember_alnum u h]
    simp [EP_upperA_of_alnum h]
  · subst h; rw [enumDefaultMember_ascii u (by decide)]; decide
  · subst h; rw [enumDefaultMember_ascii u (by decide)]; decide
  · subst h; rw [enumDefaultMember_ascii u (by decide)]; decide

theorem enumDefaultMember_all_EP (u : UInfo) (s : Str) (h : s.all enumPlainChar = true) :
    (enumDefaultMember u s).all EP = true := by
  induction s with
  | nil => rfl
  | cons c cs ih =>
    simp only [List.all_cons, Bool.and_eq_true] at h
    rw [enumDefaultMember_cons, List.all_append, enumDefaultMember_plain_EP u h.1, ih h.2]
    rfl

theorem isUpperA_upperA_of_alpha {c : Char} (h : isAlphaA c = true) : isUpperA (upperA c) = true := by
  char_arith

theorem isAlnumA_of_isAlphaA {c : Char} (h : isAlphaA c = true) : isAlnumA c = true := by
  char_arith

theorem enumOK_of_plain (u : UInfo) (v : Str) (h : enumPlain v = true) : enumOK (enumDefaultMember u v) = true := by
  cases v with
  | nil => cases h
  | cons c cs =>
    simp only [enumPlain, Bool.and_eq_true] at h
    rw [enumDefaultMember_cons, enumDefaultMember_alnum u (isAlnumA_of_isAlphaA h.1)]
    simp only [List.singleton_append, enumOK, Bool.and_eq_true, Bool.or_eq_true]
    exact ⟨Or.inl (isUpperA_upperA_of_alpha h.1), enumDefaultMember_all_EP u cs h.2⟩

/-! ### the de-duplication loop does nothing on pairwise distinct base names -/

theorem assignAll_of_fresh (mk : Str → Nat → Str) (start : Nat) : ∀ (bases seen : List Str),
    bases.Nodup → (∀ b ∈ bases, b ∉ seen) → assignAll mk start seen bases = some bases
  | [], _, _, _ => rfl
  | b :: bs, seen, hnd, hfresh => by
    have hnd' := List.nodup_cons.1 hnd
    have hb : b ∉ seen := hfresh b List.mem_cons_self
    have ih := assignAll_of_fresh mk start bs (b :: seen) hnd'.2 (by
      intro x hx hmem
      rcases List.mem_cons.1 hmem with rfl | hmem
      · exact hnd'.1 hx
      · exact hfresh x (List.mem_cons_of_mem _ hx) hmem)
    simp [assignAll, freshName, hb, ih]

theorem mapM_some_of_forall {α β : Type} (f : α → Option β) (g : α → β) :
    ∀ (l : List α), (∀ x ∈ l, f x = some (g x)) → l.mapM f = some (l.map g)
  | [], _ => rfl
  | x :: xs, h => by
    have ih := mapM_some_of_forall f g xs (fun y hy => h y (List.mem_cons_of_mem _ hy))
    simp [List.mapM_cons, h x List.mem_cons_self, ih]

theorem enumMembersOfValues_of_agree (u : UInfo) (vals : List Str)
    (h : ∀ v ∈ vals, enumAgree (enumDefaultMember u v) = true)
    (hnd : (vals.map (enumDefaultMember u)).Nodup) :
    enumMembersOfValues u vals = some (vals.map (enumDefaultMember u)) := by
  have h1 := mapM_some_of_forall (enumMemberStr u) (enumDefaultMember u) vals
    (fun v hv => (enumMember_agree_iff u v).2 (h v hv))
  simp only [enumMembersOfValues, h1, Option.bind_some, enumMemberNames]
  exact assignAll_of_fresh _ _ _ [] hnd (fun _ _ h => by cases h)

/-! ## small helpers for the property file -/

theorem nodup_map_some : ∀ (l : List Str), l.Nodup → (l.map some).Nodup
  | [], _ => List.nodup_nil
  | x :: xs, h => by
    have h' := List.nodup_cons.1 h
    simp only [List.map_cons, List.nodup_cons, List.mem_map, Option.some.injEq, exists_eq_right]
    exact ⟨h'.1, nodup_map_some xs h'.2⟩

/-- The two `default_factory` branches of `_get_field_default`. -/
def usesFactory (p : DcProp) : Bool :=
  p.ty == some sArray || (p.ty == some sObject && p.name.isNone && !p.anyOf && !p.oneOf && !p.allOf)

theorem fieldDefault_of_not_factory (u : UInfo) (p : DcProp) (h : usesFactory p = false) :
    fieldDefault u p = match p.default with
      | none => sNone
      | some d => if refersToEnum p then enumDefaultExpr u p d else scalarDefault d := by
  simp only [usesFactory, Bool.or_eq_false_iff] at h
  simp only [fieldDefault, h.1, h.2, Bool.false_eq_true, if_false]
  rfl

theorem mkField_congr (u : UInfo) {r₁ r₂ : List Str} (h : ∀ k, k ∈ r₁ ↔ k ∈ r₂) (p : DcProp) (n : Str) :
    mkField u r₁ p n = mkField u r₂ p n := by
  have hc : r₁.contains p.key = r₂.contains p.key := by
    cases h₁ : r₁.contains p.key <;> cases h₂ : r₂.contains p.key <;> simp_all
  simp only [mkField, hc]

theorem zipFields_congr (u : UInfo) {r₁ r₂ : List Str} (h : ∀ k, k ∈ r₁ ↔ k ∈ r₂) :
    ∀ (ps : List DcProp) (ns : List Str), zipFields u r₁ ps ns = zipFields u r₂ ps ns
  | [], _ => by simp [zipFields]
  | _ :: _, [] => by simp [zipFields]
  | p :: ps, n :: ns => by simp [zipFields, mkField_congr u h, zipFields_congr u h ps ns]

end Pog.Dc
