/-
  Basic character classes and string helpers shared by all models.
  Strings are `List Char` (a Lean `Char` is a Unicode scalar value = one element of a
  Python `str`, lone surrogates excluded).  Nothing here imports anything outside core.
-/
namespace Pog

abbrev Str := List Char

def isUpperA (c : Char) : Bool := 'A' ≤ c && c ≤ 'Z'
def isLowerA (c : Char) : Bool := 'a' ≤ c && c ≤ 'z'
def isDigitA (c : Char) : Bool := '0' ≤ c && c ≤ '9'
def isAlphaA (c : Char) : Bool := isUpperA c || isLowerA c
def isAlnumA (c : Char) : Bool := isAlphaA c || isDigitA c
def isAscii (c : Char) : Bool := c.toNat < 128

/-- ASCII lower-casing of one character (Python `str.lower` restricted to ASCII). -/
def lowerA (c : Char) : Char := if isUpperA c then Char.ofNat (c.toNat + 32) else c
/-- ASCII upper-casing of one character. -/
def upperA (c : Char) : Char := if isLowerA c then Char.ofNat (c.toNat - 32) else c

/-- `[a-zA-Z_]` -/
def isIdStart (c : Char) : Bool := isAlphaA c || c == '_'
/-- `[a-zA-Z0-9_]` -/
def isIdChar (c : Char) : Bool := isAlnumA c || c == '_'

/-- `^[a-zA-Z_][a-zA-Z0-9_]*$` : an ASCII Python identifier (keyword test is separate). -/
def isPyIdent : Str → Bool
  | [] => false
  | c :: cs => isIdStart c && cs.all isIdChar

/-- Python `str.strip(ch)` on the left. -/
def lstripC (ch : Char) : Str → Str
  | [] => []
  | c :: cs => if c == ch then lstripC ch cs else c :: cs

/-- Python `str.strip(ch)` on the right. -/
def rstripC (ch : Char) (s : Str) : Str := (lstripC ch s.reverse).reverse

def stripC (ch : Char) (s : Str) : Str := rstripC ch (lstripC ch s)

/-- Python `"sep".join(parts)`. -/
def joinWith (sep : Str) : List Str → Str
  | [] => []
  | [x] => x
  | x :: y :: rest => x ++ sep ++ joinWith sep (y :: rest)

/-- Python `str.endswith`. -/
def endsWith (s suf : Str) : Bool := suf.reverse.isPrefixOf s.reverse

/-- Python `str.startswith`. -/
def startsWith (s pre : Str) : Bool := pre.isPrefixOf s

/-- Decimal rendering of a natural number as characters (Python `str(n)` for n ≥ 0). -/
def natStr (n : Nat) : Str := (Nat.repr n).toList

end Pog
