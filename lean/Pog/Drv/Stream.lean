import Pog.Drv.Util
import Pog.Model.Stream
open Lean Pog Pog.Drv
namespace Pog.Drv

def streamFns : List String := ["splitLines","ldDecode","linesOf","parseEvent","iterSSE","sseEventsText","ndjsonLines",
  "stripWs","lstripWs","utf8Chunks","utf8Encode","utf8Decode","linesOfBytes","sseOfBytes","sseTextOfBytes","ndjsonOfBytes"]

def jevent (e : Event) : Json :=
  Json.mkObj [("data", jstr e.data), ("event", jopt jstr e.event), ("id", jopt jstr e.id)]

def getBytes (j : Json) : Except String (List Nat) := getList getNat j

def jbytes (bs : List Nat) : Json := jlist jnat bs

def streamRun (f : String) (a : Array Json) : Except String Json := do
  match f with
  | "splitLines" => pure (jstrs (splitLines (← getStr (← argN a 0))))
  | "ldDecode" =>
    -- [buffer pieces] trailing_cr text  →  {"buffer":[…],"cr":bool,"lines":[…]}
    let r := LD.decode ⟨← getStrs (← argN a 0), ← getBool (← argN a 1)⟩ (← getStr (← argN a 2))
    pure (Json.mkObj [("buffer", jstrs r.1.buffer), ("cr", Json.bool r.1.trailingCR), ("lines", jstrs r.2)])
  | "linesOf" => pure (jstrs (linesOf (← getStrs (← argN a 0))))
  | "parseEvent" => pure (jevent (parseEvent (← getStrs (← argN a 0))))
  | "iterSSE" => pure (jlist jevent (iterSSE (← getStrs (← argN a 0))))
  | "sseEventsText" => pure (jstrs (sseEventsText (← getStrs (← argN a 0))))
  | "ndjsonLines" => pure (jstrs (iterNdjsonLines (← getStrs (← argN a 0))))
  | "stripWs" => pure (jstr (stripWs (← getStr (← argN a 0))))
  | "lstripWs" => pure (jstr (lstripWs (← getStr (← argN a 0))))
  | "utf8Chunks" =>
    -- [[bytes…],…] → {"texts":[…],"pending":[bytes]} | null (ill-formed input: outside the model)
    pure (jopt (fun (r : List Str × List Nat) => Json.mkObj [("texts", jstrs r.1), ("pending", jbytes r.2)])
      (utf8Chunks [] (← getList getBytes (← argN a 0))))
  | "utf8Encode" => pure (jbytes (utf8Encode (← getStr (← argN a 0))))
  | "utf8Decode" => pure (jopt jstr (utf8Decode (← getBytes (← argN a 0))))
  | "linesOfBytes" => pure (jopt jstrs (linesOfBytes (← getList getBytes (← argN a 0))))
  | "sseOfBytes" =>
    pure (jopt (jlist jevent) ((linesOfBytes (← getList getBytes (← argN a 0))).map iterSSE))
  | "sseTextOfBytes" =>
    pure (jopt jstrs ((linesOfBytes (← getList getBytes (← argN a 0))).map sseDataOfLines))
  | "ndjsonOfBytes" =>
    pure (jopt jstrs ((linesOfBytes (← getList getBytes (← argN a 0))).map ndjsonOfLines))
  | _ => throw s!"unknown function {f}"

def dispatchStream : Dispatch := fun f a _ =>
  if streamFns.contains f then some (streamRun f a) else none

end Pog.Drv
