import Pog.Lemmas.Diff
import Pog.Model.Plan
import Pog.Model.Fresh
import Pog.Lemmas.Fresh
/-
  C09 — generating twice from the same document and options produces byte-identical file trees;
  a re-run without force over an up-to-date output reports no differences and succeeds; when the
  existing output differs from what would be generated now, the non-force run fails.

  What is proved, and which parts of the full statement are FALSE of the current code (`✗`):

    rendering of `set`/`dict` valued state
      imports_order_independent / imports_set_function      full   (both renderings sort everything)
      init_exports_order_independent                        partial (hypothesis: distinct `IRSchema.name`s)
      init_exports_duplicate_name_counterexample            ✗      (stable sort on equal keys keeps dict order)
      url_vars_order_independent (F18 repaired)              full   the signature is a function of the SET of path variables
      url_vars_loop_is_order_sensitive                       why the `sorted(...)` is needed (the loop alone follows the iteration order)

    the non-force decision  (FULL ✗:  showDiffs old new = false ↔ old and new are the same tree)
      show_diffs_exact                                       the exact condition `_show_diffs` tests
      noforce_success_iff_equal_partial                      partial (same set of paths, all `*.py`; modulo splitlines)
      noforce_ignores_missing_file_counterexample            ✗ OLD lacks a file NEW has
      noforce_ignores_extra_file_counterexample              ✗ OLD has a file that would not be generated
      noforce_ignores_non_py_counterexample                  ✗ `py.typed`, `README.md`, `.json` never compared
      noforce_ignores_line_endings_counterexample            ✗ `\r\n`, missing final newline, `\f` vs `\n`
      noforce_empty_old_tree_counterexample                  ✗ an EMPTY existing package directory "matches"

    force path = diff path?  (FULL ✗: a non-force re-run over a force-generated tree succeeds)
      dedup_idempotent (F17 repaired)                        full: the id de-duplication of `emit` is idempotent on every input; `dedup_idempotent_former_witness` (`foo, foo, foo_2`)
      force_equals_diff_path_former_witness (F19 repaired)   the force tree equals the diff tree for `foo, foo, foo_2`; formerly `endpoints/default.py` and
                                                               `mocks/endpoints/mock_default.py` differ
      force_equals_diff_path_idempotent_example              the two trees coincide for `foo, bar`
      rich_init_only_on_force_counterexample                 ✗ explicit `core_package`: `__init__.py` differs
      rerun_after_force_succeeds_example / rerun_after_force_former_double_emit_witness / _rich_init_counterexample
                                                             the same three facts through `runGenerate` end to end
      shared_registry_rerun_counterexample                   ✗ shared core: the diff path starts from an
                                                               EMPTY registry, the force path from the one on disk
-/
namespace Pog.C09
open Pog Pog.Diff Pog.Plan

/-! ## rendering is independent of insertion order -/

/-- `get_import_statements()` and `get_formatted_imports()` give the same text for any two call
    sequences that are permutations of each other — whatever the file context. -/
theorem imports_order_independent (ctx : ImpCtx) {xs ys : List ImpOp} (h : xs.Perm ys) :
    importStatements ctx xs = importStatements ctx ys ∧ formattedImports ctx xs = formattedImports ctx ys :=
  ⟨importStatements_congr ctx (fun _ => h.mem_iff), formattedImports_congr ctx (fun _ => h.mem_iff)⟩

/-- Stronger: they are functions of the SET of calls (repeating a call changes nothing either). -/
theorem imports_set_function (ctx : ImpCtx) {xs ys : List ImpOp} (h : ∀ o, o ∈ xs ↔ o ∈ ys) :
    importStatements ctx xs = importStatements ctx ys ∧ formattedImports ctx xs = formattedImports ctx ys :=
  ⟨importStatements_congr ctx h, formattedImports_congr ctx h⟩

example : ([.imp "typing".toList "List".toList, .plain "os".toList, .imp "typing".toList "Any".toList] : List ImpOp).Perm
    [.imp "typing".toList "Any".toList, .imp "typing".toList "List".toList, .plain "os".toList] := by decide

/-- a concrete rendering, to show the model is not vacuous -/
example :
    importStatements ⟨[], some "my.client.models.pet".toList, some "my.client".toList, some "my.core".toList⟩
      [.imp "typing".toList "List".toList, .imp "os".toList "os".toList, .imp "typing".toList "Any".toList,
       .imp "my.client.models.user".toList "User".toList, .imp "my.core.auth".toList "BaseAuth".toList,
       .rel ".x".toList "Y".toList]
    = ["import os".toList, "from .user import User".toList, "from my.core.auth import BaseAuth".toList,
       "from typing import Any, List".toList, "from .x import Y".toList] := by decide

/-- `models/__init__.py` does not depend on the iteration order of `parsed_schemas` when the
    schemas that are exported have pairwise distinct `IRSchema.name`s (the sort key). -/
theorem init_exports_order_independent {xs ys : List InitSchema} (h : xs.Perm ys)
    (hn : ((xs.filter initCand).map (·.name)).Nodup) : initExports xs = initExports ys :=
  initExports_perm h hn

example : (([⟨"Pet".toList, "Pet".toList, "pet".toList, false⟩, ⟨"User".toList, "User".toList, "user".toList, false⟩]
    : List InitSchema).filter initCand |>.map (·.name)).Nodup := by decide

/-- ✗ without the hypothesis: two schemas whose (sanitised) `name` is the same — `Pet` and `Pet_`
    both become `Pet` in `IRSchema.__post_init__` — are emitted in dict order (stable sort). -/
theorem init_exports_duplicate_name_counterexample :
    let a : InitSchema := ⟨"Pet".toList, "Pet".toList, "pet".toList, false⟩
    let b : InitSchema := ⟨"Pet".toList, "Pet2".toList, "pet_2".toList, false⟩
    [a, b].Perm [b, a] ∧ initExports [a, b] ≠ initExports [b, a] := by
  decide

/-! ## path variables: the `set` of URL variables is iterated in sorted order (F18 repaired) -/

/-- `extract_url_variables` returns a `set`; `_ensure_path_variables_as_params` now iterates `sorted(url_vars)`, so the parameter list
    (and with it the generated signature) is a function of the SET of variables: whatever order the set is handed over in
    (`PYTHONHASHSEED`), the result is the same.  All inputs. -/
theorem url_vars_order_independent (declared : List ParamInfo) {xs ys : List Str} (h : ∀ v, v ∈ xs ↔ v ∈ ys) :
    codeParams declared xs = codeParams declared ys := by
  unfold codeParams
  rw [sortU_congr h]

/-- The shape that used to differ between hash seeds. -/
theorem url_vars_order_independent_example :
    codeParams [] ["user".toList, "tenant".toList] = codeParams [] ["tenant".toList, "user".toList] ∧
    codeParams [] ["user".toList, "tenant".toList] =
      [⟨"tenant".toList, true, "tenant".toList⟩, ⟨"user".toList, true, "user".toList⟩] := by
  decide

/-- Why the `sorted(...)` is needed: the loop itself (`finalParams`, fed an arbitrary iteration order) gives two different parameter
    lists for two different orders of undeclared variables with distinct sanitised names - ALWAYS. -/
theorem url_vars_loop_is_order_sensitive (declared : List ParamInfo) (xs ys : List Str)
    (hx1 : ∀ v ∈ xs, sanMethod v ∉ declared.map (·.name)) (hx2 : (xs.map sanMethod).Nodup)
    (hy1 : ∀ v ∈ ys, sanMethod v ∉ declared.map (·.name)) (hy2 : (ys.map sanMethod).Nodup) :
    finalParams declared xs = finalParams declared ys ↔ xs = ys := by
  constructor
  · intro h
    rw [finalParams_fresh _ _ hx1 hx2, finalParams_fresh _ _ hy1 hy2] at h
    exact map_mkPathVar_injective (List.append_cancel_left (List.append_cancel_right h))
  · rintro rfl; rfl

example : (∀ v ∈ ["tenant".toList, "user".toList], sanMethod v ∉ ([] : List ParamInfo).map (·.name)) ∧
    (["tenant".toList, "user".toList].map sanMethod).Nodup := by decide

/-- `extract_url_variables` on a template with four variables. -/
example : extractUrlVars "/t/{tenant}/u/{user}/{}/{a{b}".toList
    = ["tenant".toList, "user".toList, "a{b".toList] := by decide

/-! ## the non-force decision -/

/-- The exact condition under which `_show_diffs(old, new)` returns `False` (= "no differences"):
    it ranges over the `*.py` files of NEW, skips those missing from OLD, and compares
    `read_text().splitlines()`. -/
theorem show_diffs_exact (old new : Tree) :
    showDiffs old new = false ↔
      ∀ p c, (p, c) ∈ new → isPyFile p = true → ∀ oc, old.lookup p = some oc → pyLines oc = pyLines c :=
  showDiffs_eq_false_iff old new

/-- FULL STATEMENT ✗:  `showDiffs old new = false ↔ ∀ p, old.lookup p = new.lookup p`.
    It holds in this form: for trees with the same set of paths, all of them `*.py`, "no
    differences" is equality of the trees modulo `splitlines()`. -/
theorem noforce_success_iff_equal_partial (old new : Tree)
    (hnew : (new.map (·.1)).Nodup)
    (hsame : ∀ p, p ∈ old.map (·.1) ↔ p ∈ new.map (·.1))
    (hpy : ∀ p ∈ new.map (·.1), isPyFile p = true) :
    showDiffs old new = false ↔ ∀ p, (old.lookup p).map pyLines = (new.lookup p).map pyLines :=
  showDiffs_eq_false_iff_of_same_py old new hnew hsame hpy

example :
    let t : Tree := [(["client.py".toList], "x = 1\n".toList), (["models".toList, "pet.py".toList], "y\n".toList)]
    (t.map (·.1)).Nodup ∧ (∀ p ∈ t.map (·.1), isPyFile p = true) := by decide

/-- ✗ the existing tree LACKS a file that would be generated: no difference is reported. -/
theorem noforce_ignores_missing_file_counterexample :
    let old : Tree := [(["client.py".toList], "x\n".toList)]
    let new : Tree := [(["client.py".toList], "x\n".toList), (["models".toList, "pet.py".toList], "class Pet: ...\n".toList)]
    showDiffs old new = false ∧ old.lookup ["models".toList, "pet.py".toList] ≠ new.lookup ["models".toList, "pet.py".toList] := by
  decide

/-- ✗ the existing tree has an EXTRA (stale) module: no difference is reported. -/
theorem noforce_ignores_extra_file_counterexample :
    let old : Tree := [(["client.py".toList], "x\n".toList), (["models".toList, "stale.py".toList], "class Stale: ...\n".toList)]
    let new : Tree := [(["client.py".toList], "x\n".toList)]
    showDiffs old new = false ∧ old.lookup ["models".toList, "stale.py".toList] ≠ new.lookup ["models".toList, "stale.py".toList] := by
  decide

/-- ✗ files that are not `*.py` are never compared. -/
theorem noforce_ignores_non_py_counterexample :
    let old : Tree := [(["py.typed".toList], "partial\n".toList), (["core".toList, "README.md".toList], "old".toList),
                       (["core".toList, ".exception_registry.json".toList], "{}".toList)]
    let new : Tree := [(["py.typed".toList], [] ), (["core".toList, "README.md".toList], "new".toList),
                       (["core".toList, ".exception_registry.json".toList], "{\"a\": [404]}".toList)]
    showDiffs old new = false ∧ (∀ e ∈ new, old.lookup e.1 ≠ some e.2) := by
  decide

/-- ✗ byte differences that `splitlines()` erases: CRLF terminators, a missing final newline, a
    form feed in place of a newline. -/
theorem noforce_ignores_line_endings_counterexample :
    let old : Tree := [(["a.py".toList], "x = 1\r\ny = 2".toList), (["b.py".toList], "p\x0cq\n".toList)]
    let new : Tree := [(["a.py".toList], "x = 1\ny = 2\n".toList), (["b.py".toList], "p\nq".toList)]
    showDiffs old new = false ∧ (∀ e ∈ new, old.lookup e.1 ≠ some e.2) := by
  decide

/-- ✗ the extreme case: an existing but EMPTY output package "has no differences" with anything. -/
theorem noforce_empty_old_tree_counterexample (new : Tree) : showDiffs [] new = false := by
  rw [show_diffs_exact]
  intro p c _ _ oc hoc
  simp [List.lookup] at hoc

/-- … while a real change of a `*.py` line IS detected (the decision is not constantly `False`). -/
example : showDiffs [(["client.py".toList], "x = 1\n".toList)] [(["client.py".toList], "x = 2\n".toList)] = true := by
  decide

/-- The decision of the diff path: `has_diff_client or has_diff_core`, the core directory being
    compared separately only `if core_dir != out_dir`. -/
theorem noforce_decision (oldOut newOut oldCore newCore : Tree) (distinct : Bool) :
    noForceHasDiff oldOut newOut oldCore newCore distinct = false ↔
      showDiffs oldOut newOut = false ∧ (distinct = true → showDiffs oldCore newCore = false) := by
  cases distinct <;> simp [noForceHasDiff]

/-! ## force path vs diff path -/

/-- `EndpointsEmitter.emit` renames operation ids IN PLACE (`_deduplicate_operation_ids_globally`), so a second `emit` over the
    same operation objects sees the renamed ids.  The pass is idempotent on EVERY input (F17 repaired: the names it hands out are
    pairwise distinct, so a second run finds nothing to rename) - it used not to be (`dedup_idempotent_former_witness`). -/
theorem dedup_idempotent (ids : List Str) : dedupOpIds [] (dedupOpIds [] ids) = dedupOpIds [] ids :=
  Pog.dedupOpIds_idempotent ids

/-- The former witness: `foo, foo, foo_2` used to become `foo, foo_2, foo_2` and, run again, `foo, foo_2, foo_2_2`. -/
theorem dedup_idempotent_former_witness :
    let ids := ["foo".toList, "foo".toList, "foo_2".toList]
    dedupOpIds [] ids = ["foo".toList, "foo_2".toList, "foo_2_2".toList] ∧
    dedupOpIds [] (dedupOpIds [] ids) = dedupOpIds [] ids := by
  decide

/-- `n` applications of the de-duplication pass -/
def dedupPasses : Nat → List Str → List Str
  | 0, ids => ids
  | n + 1, ids => dedupOpIds [] (dedupPasses n ids)

/-- A `PlanSpec` whose endpoint module and mock module list the method names after the number of
    de-duplication passes that have happened when the file is written; every other text is fixed. -/
def opsSpec (ids : List Str) : PlanSpec where
  aliases := "A".toList
  registry := "R".toList
  runtime := [(["auth".toList], "base.py".toList, "B".toList), ([], "utils.py".toList, "U".toList)]
  coreInit := "CI".toList
  authInit := "AI".toList
  readme := "RM".toList
  config := "CF".toList
  models := [("pet".toList, "P".toList)]
  modelsInit := "MI".toList
  endpoints := fun k => [("default".toList, joinWith ['\n'] ((dedupPasses (k + 1) ids).map sanMethod))]
  endpointsInit := fun _ => "EI".toList
  client := "C".toList
  mocks := fun k => [("default".toList, joinWith ['\n'] ((dedupPasses k ids).map sanMethod))]
  mockEndpointsInit := fun _ => "MEI".toList
  mockClient := fun _ => "MC".toList
  mocksInit := fun _ => "MKI".toList
  richInit := "# Client package __init__.py\\n# Re-exports from core and local client.\\n".toList

def demoCfg (out : String) (core : Option String) : PlanCfg where
  root := ["srv".toList, "proj".toList]
  outputPackage := out.toList
  corePackage := core.map String.toList
  force := true
  outExists := false
  noPostprocess := true
  tmpDir := ["tmp".toList]
  tmpName := "tmpab12".toList

/-- the paths at which two trees disagree (present in one only, or different text) -/
def treeDiff (a b : Tree) : List (List Str) :=
  (a.filter (fun e => b.lookup e.1 != some e.2)).map (·.1) ++
  (b.filter (fun e => (a.lookup e.1).isNone)).map (·.1)

/-- `force_equals_diff_path` on the former witness of F19 (repaired: the force path evaluates every emitter once). With operation ids
    `foo, foo, foo_2` the force tree and the tree the diff path compares against are now the same - both carry the (now
    distinct, F17 repaired) names `foo, foo_2, foo_2_2` - and a non-force re-run over a tree just generated with `--force` reports no
    differences. -/
theorem force_equals_diff_path_former_witness :
    let sp := opsSpec ["foo".toList, "foo".toList, "foo_2".toList]
    let c := demoCfg "client" none
    treeDiff (forceTree id c sp) (diffTree id c sp) = [] ∧
    (forceTree id c sp).lookup ["endpoints".toList, "default.py".toList] = some "foo\nfoo_2\nfoo_2_2".toList ∧
    showDiffs (forceTree id c sp) (diffTree id c sp) = false := by
  decide +kernel

/-- When the pass happens to be idempotent (`foo, bar`) and the core is embedded, both paths
    produce the same tree and the re-run reports no differences. -/
theorem force_equals_diff_path_idempotent_example :
    let sp := opsSpec ["foo".toList, "bar".toList]
    let c := demoCfg "client" none
    treeDiff (forceTree id c sp) (diffTree id c sp) = [] ∧
    (forceTree id c sp).length = 22 ∧
    showDiffs (forceTree id c sp) (diffTree id c sp) = false := by
  decide +kernel

/-- ✗ with an explicit `core_package` the force path finally overwrites `<out>/__init__.py` with the
    "rich" re-export module (client_generator.py:456-511) — joined with the two characters `\` `n`,
    i.e. ONE comment line — while the diff path never produces it (its `__init__.py` is the empty
    file of `EndpointsEmitter`): a non-force re-run over an up-to-date tree always reports differences. -/
theorem rich_init_only_on_force_counterexample :
    let sp := opsSpec ["foo".toList, "bar".toList]
    let c := demoCfg "pkg.client" (some "pkg.core")
    treeDiff (forceTree id c sp) (diffTree id c sp) = [["__init__.py".toList]] ∧
    (diffTree id c sp).lookup ["__init__.py".toList] = some [] ∧
    (forceTree id c sp).lookup ["__init__.py".toList] = some sp.richInit ∧
    pyLines sp.richInit = [sp.richInit] ∧
    showDiffs (forceTree id c sp) (diffTree id c sp) = true := by
  decide +kernel

/-- the file system after a force generation into an empty project (root and temp dir exist) -/
def afterForce (c : PlanCfg) (sp : PlanSpec) : FS :=
  let c := { c with force := true, outExists := false }
  (execOps id (planOps c sp) ⟨[], pathPrefixes c.root ++ pathPrefixes c.tmpDir⟩ (planOps c sp).length).1

/-- `generate(force=True)` followed by `generate(force=False)`, both without faults: the outcome of
    the second call. -/
def rerunOutcome (c : PlanCfg) (sp : PlanSpec) : Outcome :=
  (runGenerate id { c with force := false } sp (afterForce c sp) 1000000).2

/-- The whole `generate` model end to end, embedded core, idempotent ids: the re-run succeeds. -/
theorem rerun_after_force_succeeds_example :
    rerunOutcome (demoCfg "client" none) (opsSpec ["foo".toList, "bar".toList]) = Outcome.success := by
  decide +kernel

/-- `foo, foo, foo_2` (the former witness of F19): the re-run over the tree just generated with force succeeds. -/
theorem rerun_after_force_former_double_emit_witness :
    rerunOutcome (demoCfg "client" none) (opsSpec ["foo".toList, "foo".toList, "foo_2".toList])
      = Outcome.success := by
  decide +kernel

/-- ✗ explicit core package: the re-run ends in "Differences found" (oracle class
    `rich-init-only-on-force`). -/
theorem rerun_after_force_rich_init_counterexample :
    rerunOutcome (demoCfg "pkg.client" (some "pkg.core")) (opsSpec ["foo".toList, "bar".toList])
      = Outcome.raisedDiff := by
  decide +kernel

/-- ✗ shared core (`_is_shared_core` true): the force path merges this client's status codes into
    the registry ON DISK, the diff path emits into an empty temporary core, i.e. starts from the
    empty registry.  After clients A (404) and B (500) were generated into one core, the alias file on
    disk has both classes, the file the diff path generates for B has one. -/
theorem shared_registry_rerun_counterexample :
    let A : Pog.Gen := ⟨some "client_a".toList, [200, 404], true⟩
    let B : Pog.Gen := ⟨some "client_b".toList, [200, 500], true⟩
    (Pog.run [A, B]).aliases = [404, 500] ∧
    (Pog.step Pog.State.empty B).aliases = [500] ∧
    (Pog.step (Pog.run [A, B]) B).aliases = [404, 500] := by
  decide

end Pog.C09
